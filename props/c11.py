"""C11 - built-in contrast codings are valid and standard for every level count."""
import math
from fractions import Fraction as F

import numpy
import pandas
import scipy.sparse as spsparse

from mc.explorer import Skip
from mc.runner import Sub
from models import contrasts_ref as R
import props.common  # noqa: F401  (silences warnings)

RULE = (
    "matrices: every level count n in the bound x every built-in contrast with every option value (treatment/SAS with "
    "the default and each of the n levels as base, sum, Helmert x reverse x scale, diff x backward, poly without scores and "
    "with 4 score vectors) x label type (sorted str; int incl. 0 and a negative; unsorted str incl. the empty string; bool) "
    "x {Contrasts, ContrastsState} entry point; each "
    "execution inspects reduced and full rank, dense and sparse, coding and coefficient matrix and apply() on the identity "
    "for the 3 output kinds.  encode / formula: every data vector up to the length bound over the declared levels + null "
    "(+ a value outside the list when levels= is explicit) x every contrast valid for the resulting level count x label "
    "type x explicit/inferred levels (x output kind x null handling for formulas), followed by a second data set that is "
    "encoded with the recorded state.  Non-trivial = the coding has at least one column (n >= 2) for matrices; the data "
    "contain at least one non-null in-level value and the factor has >= 2 levels for encode / formula."
)
ASSUMPTIONS = [
    "small-scope hypothesis: index arithmetic of the codings (triangular index sets, division by n-i, base look-up) has "
    "no mechanism that first fails beyond n = 12 levels; data encoding is row-wise, so vectors of length <= 4 over "
    "<= 4 levels + null + outsider exercise every (row value, level, base) combination",
    "models/contrasts_ref.py is a faithful transcription of R's contr.treatment/SAS/sum/helmert/poly and MASS::contr.sdif; "
    "it is self-tested at start-up: closed forms == codings derived from the hypothesis matrices (exact Fractions, n <= 13) "
    "and == pinned R output",
    "polynomial codings are compared with exact Gram-Schmidt to 1e-9 absolute (unit-norm columns); score vectors are "
    "chosen well conditioned (affine, squares, decreasing, half-steps) - ill-conditioned scores such as 2**i lose digits "
    "in any float64 algorithm and are not part of the claim",
    "column-name prefixes of polynomial codings are UNSPECIFIED (guide says '.L', tests pin '[.L]'); only the field names "
    "(.L .Q .C ^4 ... as in R) are checked",
]

TOL = 1e-9
TOL_EXACT = 1e-12
SCORE_KINDS = ["affine", "squares", "neg", "half"]


# ---------------------------------------------------------------------------
# labels, specs

def labels(kind, n):
    """level labels.  The label values are chosen so that a label can be *falsy* (0, "", False) and sit anywhere but
    the default reference position: code that tests a chosen base with `if not base` / `base or default` instead of
    comparing with the UNSET sentinel must not get away with it."""
    base = list("abcdefghijklmnop")[:n]
    if kind == "str":
        return base
    if kind == "int":
        # numeric order differs from the order of the string forms; 0 is the first level for n == 2 (SAS default is the
        # last) and the second level otherwise (neither default)
        return [0, 5] if n == 2 else ([-10, 0] + [5 + 10 * i for i in range(n)])[:n]
    if kind == "mixed":
        b = [""] + base[1:]                        # explicit, unsorted level order containing the empty string:
        return b[1::2] + b[0::2]                   # ['']  ['b','']  ['b','','c']  ['b','d','','c'] ...
    if kind == "bool":
        return [True, False][:n]
    raise KeyError(kind)


def outsider(kind):
    return 999 if kind == "int" else "zz"


def scores_for(kind, n):
    if kind is None:
        return None
    if kind == "affine":
        return [10 + 3 * i for i in range(n)]
    if kind == "squares":
        return [i * i for i in range(n)]
    if kind == "neg":
        return [-i for i in range(n)]
    if kind == "half":
        return [i / 2 + (i % 2) for i in range(n)]
    raise KeyError(kind)


def specs_for(n, aliases=False, thin=False):
    """every built-in contrast x option value valid for n levels.  thin=True keeps every *base* of the treatment
    coding (the reference level is data dependent) but one representative of options that only change the coding matrix."""
    out = [{"kind": "treatment", "base": None}] + [{"kind": "treatment", "base": b} for b in range(n)]
    out += [{"kind": "SAS", "base": None}] + [{"kind": "SAS", "base": b} for b in (range(n) if not thin else range(min(n, 1)))]
    out += [{"kind": "sum"}]
    out += [{"kind": "helmert", "reverse": r, "scale": s} for r in (True, False) for s in (False, True) if not thin or r != s]
    out += [{"kind": "diff", "backward": b} for b in (True, False)]
    out += [{"kind": "poly", "scores": None}] + [{"kind": "poly", "scores": k} for k in (SCORE_KINDS if not thin else ["squares"])]
    if aliases:  # patsy-compatible spellings preloaded into every formula + the bare/default forms
        out += [{"kind": "treatment", "base": n - 1, "alias": "Treatment"}] if n else []
        out += [{"kind": "sum", "alias": "Sum"}, {"kind": "poly", "alias": "Poly"}, {"kind": "treatment", "base": None, "alias": "none"}]
        if aliases == "all":
            out += [{"kind": "treatment", "base": None, "alias": "Treatment"}]
            out += [{"kind": k, "alias": a} for k, a in (("helmert", "Helmert"), ("diff", "Diff"))]
            out += [{"kind": "treatment", "base": None, "alias": "class"}, {"kind": "sum", "alias": "class"}]
    return out


def spec_str(spec, levels):
    return render(spec, levels)


def build(spec, levels):
    from formulaic.transforms import contrasts as C
    k = spec["kind"]
    if k in ("treatment", "SAS"):
        cls = C.TreatmentContrasts if k == "treatment" else C.SASContrasts
        return cls() if spec.get("base") is None else cls(base=levels[spec["base"]])
    if k == "sum":
        return C.SumContrasts()
    if k == "helmert":
        return C.HelmertContrasts(reverse=spec.get("reverse", True), scale=spec.get("scale", False))
    if k == "diff":
        return C.DiffContrasts(backward=spec.get("backward", True))
    if k == "poly":
        sc = scores_for(spec.get("scores"), len(levels))
        return C.PolyContrasts() if sc is None else C.PolyContrasts(scores=sc)
    raise KeyError(k)


def render(spec, levels):
    """the contrast as written inside a formula"""
    k, alias = spec["kind"], spec.get("alias")
    if alias == "none":
        return None
    if alias == "class":
        return "contr." + k
    if alias == "Treatment":
        return "Treatment()" if spec.get("base") is None else "Treatment(reference=%r)" % (levels[spec["base"]],)
    if alias:
        return alias + "()" if k != "sum" else alias
    if k in ("treatment", "SAS"):
        return "contr.%s(%s)" % (k, "" if spec.get("base") is None else "base=%r" % (levels[spec["base"]],))
    if k == "sum":
        return "contr.sum()"
    if k == "helmert":
        return "contr.helmert(reverse=%r, scale=%r)" % (spec["reverse"], spec["scale"])
    if k == "diff":
        return "contr.diff(backward=%r)" % (spec["backward"],)
    sc = scores_for(spec.get("scores"), len(levels))
    return "contr.poly()" if sc is None else "contr.poly(scores=%r)" % (sc,)


def base_index(spec, n):
    if spec.get("base") is not None:
        return spec["base"]
    return 0 if spec["kind"] == "treatment" else n - 1


_REF_CACHE = {}


def ref_for(spec, n):
    """(coding as floats [n][n-1], exact coding or None, exact hypothesis matrix or None)"""
    key = (spec["kind"], spec.get("base"), spec.get("reverse"), spec.get("scale"), spec.get("backward"), spec.get("scores"), n)
    if key in _REF_CACHE:
        return _REF_CACHE[key]
    k = spec["kind"]
    if k == "poly":
        sc = scores_for(spec.get("scores"), n) or list(range(n))
        sc = [F(s) for s in sc]
        fl = R.poly_float(sc) if n > 1 else [[] for _ in range(n)]
        res = (fl, None, None)
    else:
        opt = {}
        if k in ("treatment", "SAS"):
            opt["base"] = base_index(spec, n)
        if k == "helmert":
            opt = {"reverse": spec.get("reverse", True), "scale": spec.get("scale", False)}
        if k == "diff":
            opt = {"backward": spec.get("backward", True)}
        ex = R.reference(k, n, **opt)
        hyp = R.hypothesis(k, n, **opt)
        res = ([[float(x) for x in r] for r in ex], ex, hyp)
    _REF_CACHE[key] = res
    return res


POLY_NAMES = {1: ".L", 2: ".Q", 3: ".C"}


def expected_fields(spec, levels):
    """the field (column) names the reduced coding should carry, derived from the meaning of the contrasts: a column is
    named for the level whose coefficient it estimates = the level with the largest positive weight in its hypothesis row"""
    n = len(levels)
    if spec["kind"] == "poly":
        return [POLY_NAMES.get(d, "^%d" % d) for d in range(1, n)]
    hyp = ref_for(spec, n)[2]
    out = []
    for row in hyp[1:]:
        m = max(row)
        out.append(levels[row.index(m)])
    return out


# ---------------------------------------------------------------------------
# helpers

def dense(x):
    """densify whatever container comes back -> 2-d float ndarray"""
    x = getattr(x, "__wrapped__", x)
    if isinstance(x, pandas.DataFrame):
        a = x.to_numpy(dtype=float)
    elif spsparse.issparse(x):
        a = x.toarray().astype(float)
    else:
        a = numpy.asarray(x, dtype=float)
    return a


def close(a, want, tol):
    a = numpy.asarray(a, dtype=float)
    w = numpy.asarray(want, dtype=float)
    if a.shape != w.shape:
        return False
    if a.size == 0:
        return True
    if not numpy.all(numpy.isfinite(a)):
        return False
    return bool(numpy.max(numpy.abs(a - w)) <= tol)


def arr(rows, ncols):
    return numpy.asarray(rows, dtype=float).reshape(len(rows), ncols)


def exact_rank_with_ones(a):
    return R.rank([[F(1)] + [F(float(v)) for v in row] for row in a.tolist()])


def same_labels(got, want):
    got, want = list(got), list(want)
    return len(got) == len(want) and all(g == w and (isinstance(g, str) == isinstance(w, str)) for g, w in zip(got, want))


class Reporter:
    def __init__(self, col, where, detail):
        self.col, self.where, self.detail = col, where, detail

    def __call__(self, ok, sig, what, **extra):
        if ok:
            return True
        d = dict(self.detail)
        d.update(extra)
        d["failed"] = what
        self.col.violation("%s :: %s" % (self.where, what), d, sig=sig)
        return False


# ---------------------------------------------------------------------------
# sub-check 1: the matrices themselves

def drv_matrices(c, ctx, col):
    n = 1 + c.upto(ctx["nmax"] - 1)
    lkind = c.pick(["str", "int", "mixed", "bool"])
    if lkind == "bool" and n > 2:
        raise Skip()
    spec = c.pick(specs_for(n))
    via_state = c.flag()
    levels = labels(lkind, n)
    from formulaic.transforms.contrasts import ContrastsState
    con = build(spec, levels)
    txt = render(spec, levels)
    where = "matrices n=%d labels=%s %s%s" % (n, lkind, txt, " via ContrastsState" if via_state else "")
    rep = Reporter(col, where, {"n": n, "levels": levels, "contrast": repr(con),
                                "repro": "from formulaic.transforms.contrasts import *; %r.get_coding_matrix(%r)" % (con, levels)})
    if n >= 2:
        col.interesting()
    col.sample({"n": n, "levels": levels, "contrast": txt, "via_state": via_state})
    col.state((n, lkind, txt))

    def get(meth, reduced, sparse):
        try:
            if via_state:
                return getattr(ContrastsState(con, levels), meth)(reduced_rank=reduced, sparse=sparse)
            return getattr(con, meth)(levels, reduced_rank=reduced, sparse=sparse)
        except Exception as e:  # noqa
            rep(False, "raises", "%s(reduced_rank=%s, sparse=%s) raised %s: %s" % (meth, reduced, sparse, type(e).__name__, str(e)[:120]))
            return None

    ref_fl, ref_ex, ref_hyp = ref_for(spec, n)
    want = arr(ref_fl, n - 1)
    tol = TOL if spec["kind"] == "poly" else TOL_EXACT
    fields = expected_fields(spec, levels)

    # --- reduced coding
    cd = get("get_coding_matrix", True, False)
    if cd is None:
        return
    a = dense(cd)
    if not rep(a.shape == (n, n - 1), "shape", "reduced coding matrix has shape %r, expected (%d, %d)" % (a.shape, n, n - 1)):
        return
    rep(close(a, want, tol), "wrong-coding-matrix", "reduced coding differs from the textbook/R matrix", got=a.tolist(), want=want.tolist())
    rep(exact_rank_with_ones(a) == n, "singular", "[1 | coding] is not invertible (exact rank)", got=a.tolist())
    if spec["kind"] in ("sum", "helmert", "diff", "poly") and n > 1:
        rep(bool(numpy.max(numpy.abs(a.sum(axis=0))) <= TOL), "column-sums", "columns do not sum to zero", got=a.sum(axis=0).tolist())
    if isinstance(cd, pandas.DataFrame):
        rep(same_labels(cd.index, levels), "names", "coding matrix index %r != levels %r" % (list(cd.index), levels))
        rep(same_labels(cd.columns, fields), "names", "reduced coding columns %r, expected %r" % (list(cd.columns), fields))
    else:
        rep(False, "container", "dense coding matrix is a %s" % type(cd).__name__)
    if spec["kind"] == "poly" and n > 1:
        g = a.T @ a
        rep(bool(numpy.max(numpy.abs(g - numpy.eye(n - 1))) <= TOL), "poly-orthonormal", "polynomial coding columns are not orthonormal")
        if spec.get("scores") == "affine":
            d0 = dense(build({"kind": "poly", "scores": None}, levels).get_coding_matrix(levels))
            rep(close(a, d0, TOL), "poly-affine-invariance", "affinely transformed scores change the polynomial coding")
    # --- full coding
    fd = get("get_coding_matrix", False, False)
    if fd is not None:
        f = dense(fd)
        rep(f.shape == (n, n) and bool(numpy.array_equal(f, numpy.eye(n))), "full-not-identity", "full-rank coding is not the identity", got=f.tolist())
        if isinstance(fd, pandas.DataFrame):
            rep(same_labels(fd.columns, levels) and same_labels(fd.index, levels), "names", "full coding labels %r / %r" % (list(fd.index), list(fd.columns)))
    # --- coefficient matrices
    cf = get("get_coefficient_matrix", True, False)
    if cf is not None:
        k = dense(cf)
        if rep(k.shape == (n, n), "shape", "coefficient matrix has shape %r" % (k.shape,)):
            prod = k @ numpy.hstack([numpy.ones((n, 1)), a])
            rep(bool(numpy.max(numpy.abs(prod - numpy.eye(n))) <= TOL), "coefficient-not-inverse",
                "coefficient matrix x [1 | coding] != I", got=prod.tolist())
            if ref_hyp is not None:
                hw = arr([[float(x) for x in r] for r in ref_hyp], n)
                rep(close(k, hw, TOL), "wrong-coefficient-matrix", "coefficient matrix differs from the hypothesis matrix of the contrast",
                    got=k.tolist(), want=hw.tolist())
            else:
                hw = numpy.vstack([numpy.full((1, n), 1.0 / n), want.T])  # orthonormal coding: inverse = [1/n ; C^T]
                rep(close(k, hw, TOL), "wrong-coefficient-matrix", "polynomial coefficient matrix != [1/n ; coding^T]", got=k.tolist())
            if isinstance(cf, pandas.DataFrame):
                rep(same_labels(cf.columns, levels), "names", "coefficient matrix columns %r != levels" % (list(cf.columns),))
                rep(len(set(map(str, cf.index))) == n, "names", "coefficient matrix row names not distinct: %r" % (list(cf.index),))
    cff = get("get_coefficient_matrix", False, False)
    if cff is not None:
        rep(close(dense(cff), numpy.eye(n), TOL_EXACT), "full-not-identity", "full-rank coefficient matrix is not the identity")
    # --- sparse forms
    for meth, reduced, dn in (("get_coding_matrix", True, a), ("get_coding_matrix", False, numpy.eye(n)),
                              ("get_coefficient_matrix", True, None if cf is None else dense(cf)),
                              ("get_coefficient_matrix", False, numpy.eye(n))):
        sp = get(meth, reduced, True)
        if sp is None or dn is None:
            continue
        s = dense(sp)
        if s.ndim != 2:
            s = s.reshape(dn.shape) if s.size == dn.size else s
        rep(s.shape == dn.shape and close(s, dn, TOL if "coefficient" in meth else tol), "dense-sparse-differ",
            "%s(reduced_rank=%s): sparse form differs from dense form" % (meth, reduced), dense=dn.tolist(), sparse=s.tolist())
        if not (spsparse.issparse(sp) or (n == 1 and "coefficient" in meth)):
            rep(False, "container", "%s(sparse=True) returned %s" % (meth, type(sp).__name__))
        elif not spsparse.issparse(sp):
            col.count("sparse-coefficient-1x1-returned-dense (tolerated)")
    # --- apply() on the identity: metadata
    for reduced in (True, False):
        for output in ("pandas", "numpy", "sparse"):
            if output == "sparse":
                dummies = spsparse.identity(n, format="csc")
            else:
                dummies = pandas.DataFrame(numpy.eye(n), columns=levels)
            try:
                fv = con.apply(dummies, levels=levels, reduced_rank=reduced, output=output)
            except Exception as e:  # noqa
                rep(False, "raises", "apply(identity, reduced_rank=%s, output=%s) raised %s: %s" % (reduced, output, type(e).__name__, str(e)[:100]))
                continue
            v = dense(fv)
            w = a if reduced else numpy.eye(n)
            tag = "apply(identity, reduced_rank=%s, output=%s)" % (reduced, output)
            rep(v.shape == w.shape and close(v, w, tol), "apply-differs", tag + " != coding matrix", got=v.tolist())
            md = fv.__formulaic_metadata__
            wf = fields if reduced else levels
            rep(same_labels(md.column_names, wf), "names", tag + " column_names %r, expected %r" % (list(md.column_names), wf))
            # spans_intercept must say whether the constant is in the column span of the coding
            rep(bool(md.spans_intercept) == (not reduced), "spans-intercept", tag + " spans_intercept=%r" % (md.spans_intercept,))
            if reduced:
                rep(md.drop_field is None, "drop-field", tag + " drop_field=%r, expected None" % (md.drop_field,))
            elif spec["kind"] in ("treatment", "SAS"):
                wb = levels[base_index(spec, n)]
                rep(md.drop_field == wb, "drop-field", tag + " drop_field=%r, expected the reference level %r" % (md.drop_field, wb))
            else:
                rep(md.drop_field in levels, "drop-field", tag + " drop_field=%r is not a column" % (md.drop_field,))
            wrapped = getattr(fv, "__wrapped__", fv)
            okc = {"pandas": isinstance(wrapped, pandas.DataFrame), "numpy": isinstance(wrapped, numpy.ndarray),
                   "sparse": spsparse.issparse(wrapped)}[output]
            rep(okc, "container", tag + " returned %s" % type(wrapped).__name__)
    # --- documented errors
    if spec["kind"] in ("treatment", "SAS") and spec.get("base") == 0:
        bad = type(con)(base=outsider(lkind))
        try:
            bad.get_coding_matrix(levels)
            rep(False, "bad-base-accepted", "base outside the levels accepted")
        except ValueError:
            col.count("bad-base-rejected")
        except Exception as e:  # noqa
            rep(False, "raises", "base outside the levels raised %s" % type(e).__name__)
    if spec["kind"] == "poly" and spec.get("scores") == "squares":
        bad = type(con)(scores=list(range(n + 1)))
        try:
            bad.get_coding_matrix(levels)
            rep(False, "bad-scores-accepted", "scores of the wrong length accepted")
        except ValueError:
            col.count("bad-scores-rejected")
        except Exception as e:  # noqa
            rep(False, "raises", "scores of the wrong length raised %s" % type(e).__name__)


# ---------------------------------------------------------------------------
# data encoding

def mini_specs(n):
    """contrasts used when the *container / dtype* of the data is the dimension under test (the coding matrices are
    covered with the object-dtype container): defaults that depend on the level order + one explicit base"""
    return [{"kind": "treatment", "base": None}, {"kind": "SAS", "base": 0}, {"kind": "sum"}]


def unused_label(kind):
    return 777 if kind == "int" else "q"


class Data:
    """how the data vector reaches the library: object-dtype Series, object ndarray ("array/series" is what the docstring of
    encode_contrasts promises; a plain list is UNSPECIFIED - it works without levels= and raises TypeError in
    pandas.unique with levels= under pandas 3), or a Series of categorical dtype whose
    own categories are sorted ("cat"), reversed ("cat-rev") or a superset with an unused category in front ("cat-super")"""

    def __init__(self, kind, cats=None):
        self.kind, self.cats = kind, cats

    def make(self, vec):
        if self.kind == "ndarray":
            return numpy.array(list(vec), dtype=object)
        if self.kind == "object":
            return pandas.Series(list(vec), dtype=object)
        return pandas.Series(pandas.Categorical(list(vec), categories=list(self.cats)))

    def repro(self, vec):
        if self.kind == "ndarray":
            return "numpy.array(%r, dtype=object)" % (list(vec),)
        if self.kind == "object":
            return "pandas.Series(%r, dtype=object)" % (list(vec),)
        return "pandas.Series(pandas.Categorical(%r, categories=%r))" % (list(vec), list(self.cats))


def choose_data(c, ctx, aliases=False):
    lkind = c.pick(["str", "int", "mixed"])
    explicit = c.flag()
    if lkind == "mixed" and not explicit:
        raise Skip()          # inferred levels are always sorted: identical to "str"
    nuni = 1 + c.upto(len(ctx["L_by_n"]) - 1)
    universe = labels(lkind, nuni)
    alphabet = universe + [None] + ([outsider(lkind)] if explicit else [])
    vec = c.seq(alphabet, ctx["L_by_n"][nuni - 1], 1)
    ckind = c.pick(ctx.get("containers", ["object"]))
    if ckind in ("object", "ndarray"):
        data = Data(ckind)
        if explicit:
            levels = list(universe)
        else:
            present = [v for v in vec if v is not None]
            levels = sorted(set(present))
            if len(levels) != nuni:
                raise Skip()      # the same data are enumerated under the smaller universe
    else:
        # categorical dtype: its categories are the sorted universe (+ the outsider if it occurs), reversed, or with an
        # unused category in front.  An explicit level list must win over the dtype's categories (order, extra and
        # missing categories); without one the dtype's categories ARE the levels (unused ones included).
        cats = sorted(universe) + ([outsider(lkind)] if outsider(lkind) in vec else [])
        if ckind == "cat-rev":
            cats = cats[::-1]
        elif ckind == "cat-super":
            cats = [unused_label(lkind)] + cats
        data = Data(ckind, cats)
        levels = list(universe) if explicit else list(cats)
    if not levels:
        raise Skip()          # n >= 1 is the scope of the property
    if ckind == "object":
        spec = c.pick(specs_for(len(levels), aliases=aliases, thin=len(vec) >= ctx["thin_from"]))
    else:
        spec = c.pick(mini_specs(len(levels)))
    return lkind, explicit, universe, vec, levels, spec, data


def expected_rows(data, levels, coding):
    """indicator(data, levels) x coding as a float array (coding: float array m x k)"""
    ind = numpy.asarray([[float(x) for x in r] for r in R.indicator(data, levels)], dtype=float).reshape(len(data), len(levels))
    return ind @ coding


def series(vec):
    return pandas.Series(list(vec), dtype=object)


def drv_encode(c, ctx, col):
    from formulaic.transforms import encode_contrasts
    lkind, explicit, universe, vec, levels, spec, data = choose_data(c, ctx)
    m = len(levels)
    con = build(spec, levels)
    txt = render(spec, levels)
    where = "encode data=%s levels=%s%r %s" % (data.repro(vec) if data.kind != "object" else repr(vec), "" if explicit else "inferred ", levels, txt)
    rep = Reporter(col, where, {"data": vec, "levels": levels, "explicit_levels": explicit, "contrast": repr(con)})
    if m >= 2 and any(v in levels for v in vec if v is not None):
        col.interesting()
    col.sample({"data": vec, "levels": levels, "explicit": explicit, "contrast": txt})
    col.state((lkind, explicit, data.kind, tuple(map(str, vec)), txt))
    coding = arr(ref_for(spec, m)[0], m - 1)
    tol = TOL if spec["kind"] == "poly" else TOL_EXACT
    fields = expected_fields(spec, levels)
    follow = list(labels(lkind, len(ctx["L_by_n"]))) + [None, outsider(lkind)]
    results = {}
    for reduced in (True, False):
        cm = coding if reduced else numpy.eye(m)
        want = expected_rows(vec, levels, cm)
        want2 = expected_rows(follow, levels, cm)
        if data.kind == "object":
            outputs = ("pandas", "sparse", "numpy") if reduced else ("pandas", "sparse")
        else:
            outputs = ("pandas",) if reduced else ("sparse",)
        for output in outputs:
            tag = "encode_contrasts(reduced_rank=%s, output=%s)" % (reduced, output)
            state = {}
            try:
                fv = encode_contrasts(data.make(vec), contrasts=con, levels=list(levels) if explicit else None,
                                      reduced_rank=reduced, output=output, _state=state)
            except Exception as e:  # noqa
                rep(False, "raises", tag + " raised %s: %s" % (type(e).__name__, str(e)[:120]),
                    repro="encode_contrasts(%s, contrasts=%r, levels=%r, reduced_rank=%r, output=%r)"
                          % (data.repro(vec), con, levels if explicit else None, reduced, output))
                continue
            got = dense(fv)
            results[(reduced, output)] = got
            rep(got.shape == want.shape and close(got, want, tol), "encoding-not-indicator-times-coding",
                tag + " != indicator x coding", got=got.tolist(), want=want.tolist(),
                repro="encode_contrasts(%s, contrasts=%r, levels=%r, reduced_rank=%r, output=%r)"
                      % (data.repro(vec), con, levels if explicit else None, reduced, output))
            md = fv.__formulaic_metadata__
            wf = fields if reduced else levels
            rep(same_labels(md.column_names, wf), "names", tag + " column_names %r, expected %r" % (list(md.column_names), wf))
            rep(same_labels(state.get("categories", ()), levels), "state-levels",
                tag + " recorded categories %r, expected %r" % (state.get("categories"), levels))
            cs = state.get("contrasts")
            if output == "pandas":
                try:
                    scm = dense(cs.get_coding_matrix(reduced_rank=reduced))
                    rep(close(scm, cm, tol), "state-coding-matrix", tag + " ContrastsState coding matrix differs from the reference")
                except Exception as e:  # noqa
                    rep(False, "raises", tag + " ContrastsState.get_coding_matrix raised %s" % type(e).__name__)
            col.count("encodings")
            # second data set with the recorded state (levels absent from it, nulls and outsiders included)
            if (reduced, output) not in ((True, "pandas"), (False, "sparse")) and not ctx.get("all_followups"):
                continue
            if data.kind != "object" and not reduced:
                continue
            before = list(state.get("categories", ()))
            try:
                fv2 = encode_contrasts(series(follow), contrasts=con, reduced_rank=reduced, output=output, _state=state)
            except Exception as e:  # noqa
                rep(False, "raises", tag + " on follow-up data raised %s: %s" % (type(e).__name__, str(e)[:120]))
                continue
            got2 = dense(fv2)
            rep(got2.shape == want2.shape and close(got2, want2, tol), "followup-encoding",
                tag + " follow-up %r with recorded levels != indicator x coding" % (follow,), got=got2.tolist(), want=want2.tolist())
            rep(same_labels(state.get("categories", ()), before), "state-levels", tag + " follow-up changed the recorded categories")
            col.count("followup-encodings")
    for reduced in (True, False):
        base = results.get((reduced, "pandas"))
        for output in ("numpy", "sparse"):
            o = results.get((reduced, output))
            if base is not None and o is not None:
                rep(o.shape == base.shape and close(o, base, TOL_EXACT), "dense-sparse-differ",
                    "encode_contrasts(reduced_rank=%s): output=%s differs from output=pandas" % (reduced, output))


def drv_formula(c, ctx, col):
    from formulaic import model_matrix
    lkind, explicit, universe, vec, levels, spec, data = choose_data(c, ctx, aliases=ctx["aliases"])
    m = len(levels)
    ctxt = render(spec, levels)
    if ctxt is None:
        if explicit or lkind == "int":
            raise Skip()   # a bare column cannot carry levels=; a bare integer column is numeric, not categorical
        term = "x"
    else:
        term = "C(x, %s%s)" % (ctxt, ", levels=%r" % (levels,) if explicit else "")
    output = c.pick(ctx["outputs"]) if data.kind == "object" else "pandas"
    na_action = c.pick(["drop", "ignore"]) if any(v is None for v in vec) else "drop"
    df = pandas.DataFrame({"x": data.make(vec)})
    rows = [v for v in vec if not (v is None and na_action == "drop")]
    follow = list(labels(lkind, len(ctx["L_by_n"]))) + [None, outsider(lkind)]
    rows2 = [v for v in follow if not (v is None and na_action == "drop")]
    df2 = pandas.DataFrame({"x": series(follow)})
    where = "formula %r data=%s output=%s na_action=%s" % (term, data.repro(vec) if data.kind != "object" else repr(vec), output, na_action)
    rep = Reporter(col, where, {"formula": term, "data": vec, "levels": levels, "output": output, "na_action": na_action,
                                "repro": "model_matrix(%r, pandas.DataFrame({'x': %s}), output=%r, na_action=%r)"
                                         % (term, data.repro(vec), output, na_action)})
    if not rows:
        raise Skip()       # every row removed as null: nothing is encoded
    if m >= 2 and any(v in levels for v in vec if v is not None):
        col.interesting()
    col.sample({"formula": term, "data": vec, "output": output, "na_action": na_action})
    col.state((term, data.kind, tuple(map(str, vec)), output, na_action))
    coding = arr(ref_for(spec, m)[0], m - 1)
    tol = TOL if spec["kind"] == "poly" else TOL_EXACT
    fields = expected_fields(spec, levels)
    prefix = {"treatment": "T.", "SAS": "T.", "sum": "S.", "helmert": "H.", "diff": "D."}.get(spec["kind"])
    for reduced in (True, False):
        formula = term if reduced else term + " - 1"
        cm = coding if reduced else numpy.eye(m)
        lead = numpy.ones((len(rows), 1)) if reduced else numpy.zeros((len(rows), 0))
        want = numpy.hstack([lead, expected_rows(rows, levels, cm)])
        try:
            mm = model_matrix(formula, df, output=output, na_action=na_action)
        except Exception as e:  # noqa
            rep(False, "raises", "model_matrix(%r) raised %s: %s" % (formula, type(e).__name__, str(e)[:120]))
            continue
        got = dense(mm)
        rep(got.shape == want.shape and close(got, want, tol), "encoding-not-indicator-times-coding",
            "model_matrix(%r) != [1 |] indicator x coding" % formula, got=got.tolist(), want=want.tolist())
        names = list(mm.model_spec.column_names)
        if reduced:
            wn = ["Intercept"] + [("%s[%s%s]" % (term, prefix, f)) if prefix else None for f in fields]
        else:
            wn = ["%s[%s]" % (term, l) for l in levels]
        okn = len(names) == len(wn) and all(w is None or w == g for g, w in zip(names, wn)) and len(set(names)) == len(names)
        rep(okn, "names", "model_matrix(%r) columns %r, expected %r" % (formula, names, wn))
        # recorded state
        try:
            st = mm.model_spec.encoder_state[term][1]
            rep(same_labels(st["categories"], levels), "state-levels", "model_matrix(%r) recorded categories %r, expected %r" % (formula, st["categories"], levels))
            scm = dense(st["contrasts"].get_coding_matrix(reduced_rank=True))
            rep(close(scm, coding, tol), "state-coding-matrix", "model_matrix(%r): ContrastsState coding matrix differs from the reference" % formula)
        except Exception as e:  # noqa
            rep(False, "raises", "model_matrix(%r): reading encoder_state raised %s: %s" % (formula, type(e).__name__, str(e)[:100]))
        col.count("model-matrices")
        # new data through the recorded spec
        if not reduced and not ctx.get("all_followups"):
            continue
        lead2 = numpy.ones((len(rows2), 1)) if reduced else numpy.zeros((len(rows2), 0))
        want2 = numpy.hstack([lead2, expected_rows(rows2, levels, cm)])
        try:
            mm2 = mm.model_spec.get_model_matrix(df2)
        except Exception as e:  # noqa
            rep(False, "raises", "model_spec.get_model_matrix(follow-up) for %r raised %s: %s" % (formula, type(e).__name__, str(e)[:120]))
            continue
        got2 = dense(mm2)
        rep(got2.shape == want2.shape and close(got2, want2, tol), "followup-encoding",
            "model_matrix(%r).model_spec.get_model_matrix(%r) != indicator x coding with the recorded levels" % (formula, follow),
            got=got2.tolist(), want=want2.tolist())
        col.count("followup-model-matrices")


# ---------------------------------------------------------------------------

# ---------------------------------------------------------------------------
# histories on ONE contrast instance: a Contrasts object carries options, not results - any sequence of calls with
# different level counts / flags must give what a fresh instance gives (= the reference) at every step

HIST_SPECS = [{"kind": "treatment", "base": None}, {"kind": "treatment", "base": 0}, {"kind": "SAS", "base": None}, {"kind": "sum"},
              {"kind": "helmert", "reverse": True, "scale": False}, {"kind": "helmert", "reverse": False, "scale": True},
              {"kind": "diff", "backward": True}, {"kind": "diff", "backward": False}, {"kind": "poly", "scores": None}]
HIST_OPS = ["coding", "coding-sparse", "coding-full", "coefficient", "apply"]


def hist_step(con, op, levels):
    n = len(levels)
    if op == "coding":
        return dense(con.get_coding_matrix(levels, reduced_rank=True, sparse=False))
    if op == "coding-sparse":
        return dense(con.get_coding_matrix(levels, reduced_rank=True, sparse=True))
    if op == "coding-full":
        return dense(con.get_coding_matrix(levels, reduced_rank=False, sparse=False))
    if op == "coefficient":
        return dense(con.get_coefficient_matrix(levels, reduced_rank=True, sparse=False))
    return dense(con.apply(pandas.DataFrame(numpy.eye(n), columns=levels), levels=levels, reduced_rank=True, output="pandas"))


def hist_expected(spec, op, n):
    ref_fl, ref_ex, ref_hyp = ref_for(spec, n)
    coding = arr(ref_fl, n - 1)
    if op in ("coding", "coding-sparse", "apply"):
        return coding
    if op == "coding-full":
        return numpy.eye(n)
    if ref_hyp is not None:
        return arr([[float(x) for x in r] for r in ref_hyp], n)
    return numpy.vstack([numpy.full((1, n), 1.0 / n), coding.T])


def drv_instance_history(c, ctx, col):
    spec = c.pick(HIST_SPECS)
    d = 2 + c.upto(ctx["D"] - 2)
    steps = [(c.pick(ctx["ns"]), c.pick(HIST_OPS)) for _ in range(d)]
    if len({n for n, _ in steps}) < 2 and len({o for _, o in steps}) < 2:
        raise Skip()      # the same call twice
    all_levels = list("abcdefgh")
    con = build(spec, all_levels)   # an explicit base is level 'a', present in every level list
    txt = render(spec, all_levels)
    where = "instance-history %s: %s" % (txt, " -> ".join("%s(n=%d)" % (o, n) for n, o in steps))
    rep = Reporter(col, where, {"contrast": repr(con), "steps": steps,
                                "repro": "p = %r; " % (con,) + "; ".join("p.get_coding_matrix(list('abcdefgh')[:%d])" % n for n, _ in steps)})
    col.interesting()
    col.sample({"contrast": txt, "steps": steps})
    col.state((txt, tuple(steps)))
    tol = TOL if spec["kind"] == "poly" else TOL_EXACT
    for i, (n, op) in enumerate(steps):
        levels = all_levels[:n]
        want = hist_expected(spec, op, n)
        try:
            got = hist_step(con, op, levels)
        except Exception as e:  # noqa
            rep(False, "instance-history", "step %d %s(n=%d) on the re-used instance raised %s: %s" % (i + 1, op, n, type(e).__name__, str(e)[:100]))
            return
        t = TOL if op == "coefficient" else tol
        if not rep(got.shape == want.shape and close(got, want, t), "instance-history",
                   "step %d %s(n=%d) on the re-used instance differs from a fresh instance / the reference" % (i + 1, op, n),
                   got=got.tolist(), want=want.tolist()):
            return


def drv_shared_instance_formula(c, ctx, col):
    """one contrast object shared by two factors with different level counts: C(A, p) + C(B, p), p in the context"""
    from formulaic import model_matrix
    spec = c.pick([s_ for s_ in HIST_SPECS if s_.get("base") is None])
    na = 1 + c.upto(ctx["nmax"] - 1)
    nb = 1 + c.upto(ctx["nmax"] - 1)
    output = c.pick(["pandas", "sparse"])
    la, lb = list("abcde")[:na], list("vwxyz")[:nb]
    con = build(spec, la)
    txt = render(spec, la)
    rows = [(a, b) for a in la for b in lb]
    df = pandas.DataFrame({"A": pandas.Series([r[0] for r in rows], dtype=object), "B": pandas.Series([r[1] for r in rows], dtype=object)})
    where = "shared instance p = %s in 'C(A, p) + C(B, p)', %d and %d levels, output=%s" % (txt, na, nb, output)
    rep = Reporter(col, where, {"contrast": repr(con), "levels_A": la, "levels_B": lb, "output": output,
                                "repro": "p = %r; model_matrix('C(A, p) + C(B, p)', df, context={'p': p}) with %d levels in A and %d in B" % (con, na, nb)})
    if na != nb:
        col.interesting()
    col.sample({"contrast": txt, "levels_A": na, "levels_B": nb, "output": output})
    col.state((txt, na, nb, output))
    ca, cb = arr(ref_for(spec, na)[0], na - 1), arr(ref_for(spec, nb)[0], nb - 1)
    want = numpy.hstack([numpy.ones((len(rows), 1)), expected_rows([r[0] for r in rows], la, ca), expected_rows([r[1] for r in rows], lb, cb)])
    try:
        got = dense(model_matrix("C(A, p) + C(B, p)", df, context={"p": con}, output=output))
    except Exception as e:  # noqa
        rep(False, "instance-history", "model_matrix raised %s: %s" % (type(e).__name__, str(e)[:160]))
        return
    tol = TOL if spec["kind"] == "poly" else TOL_EXACT
    rep(got.shape == want.shape and close(got, want, tol), "instance-history",
        "model matrix != [1 | indicator(A) x coding(%d) | indicator(B) x coding(%d)]" % (na, nb), got=got.tolist(), want=want.tolist())


ENC_CONTAINERS = ["object", "ndarray", "cat", "cat-rev", "cat-super"]
FRM_CONTAINERS = ["object", "cat", "cat-rev", "cat-super"]
CONTAINER_DOC = ("object-dtype Series x every contrast option; object ndarray (encode only) and categorical dtype with sorted / "
                 "reversed / superset categories x {treatment, SAS(base=first), sum} (pandas reduced + sparse full; "
                 "formulas: pandas output)")


def subchecks(tier, seed):
    R.selftest(13)
    quick = tier == "quick"
    nmax = 8 if quick else 12
    enc_L = [3, 2, 2, 2] if quick else [4, 4, 4, 4]       # max data length per number of declared levels (1..4)
    enc_thin = 99 if quick else 4                          # data length from which the thinned option list is used
    frm_L = [2, 2, 2] if quick else [3, 3, 3, 3]
    frm_out = ["pandas", "sparse"]
    alpha = "declared levels + null (+ a value outside the list when levels= is explicit)"
    subs = [
        Sub("matrices", drv_matrices, {"nmax": nmax}, shard_depth=3,
            bounds={"levels": "1..%d" % nmax, "label_types": ["str a,b,..", "int -10,0,5,15.. ([0,5] for n=2)", "unsorted str with the empty string", "bool (n <= 2)"], "entry": ["Contrasts", "ContrastsState"],
                    "poly_scores": [None] + SCORE_KINDS}),
        Sub("instance-history", drv_instance_history, {"D": 2 if quick else 3, "ns": [1, 2, 3, 5] if quick else [1, 2, 3, 4, 6]}, shard_depth=3,
            bounds={"contrasts": [render(s_, list("abcdefgh")) for s_ in HIST_SPECS], "operations": HIST_OPS, "level_counts": [1, 2, 3, 5] if quick else [1, 2, 3, 4, 6],
                    "history_length": "2" if quick else "2..3", "oracle": "every step == reference (what a fresh instance returns)"}),
        Sub("shared-instance-formula", drv_shared_instance_formula, {"nmax": 4 if quick else 5}, shard_depth=2,
            bounds={"formula": "C(A, p) + C(B, p) with one contrast object p in the context", "levels_A": "1..%d" % (4 if quick else 5),
                    "levels_B": "1..%d" % (4 if quick else 5), "outputs": ["pandas", "sparse"]}),
        Sub("encode", drv_encode, {"L_by_n": enc_L, "thin_from": enc_thin, "containers": ENC_CONTAINERS}, shard_depth=6,
            bounds={"declared_levels": "1..4", "max_data_length_by_declared_levels": enc_L, "alphabet": alpha,
                    "outputs": ["pandas", "numpy", "sparse"], "reduced_rank": [True, False], "containers": CONTAINER_DOC,
                    "contrast_options": "all" if quick else "all for data length <= 3; every base + one representative per option at length 4"}),
        Sub("formula", drv_formula, {"L_by_n": frm_L, "thin_from": 1, "outputs": frm_out, "aliases": True if quick else "all", "containers": FRM_CONTAINERS}, shard_depth=6,
            bounds={"declared_levels": "1..%d" % len(frm_L), "max_data_length_by_declared_levels": frm_L, "alphabet": alpha,
                    "outputs": frm_out, "na_action": ["drop", "ignore"], "containers": CONTAINER_DOC, "intercept": ["C(...)", "C(...) - 1"],
                    "contrast_options": "every base of treatment, one representative of the other options, patsy aliases, bare column"}),
    ]
    return subs
