"""C08 - text and categorical columns are dummy-coded; the matrix is always numeric."""
import itertools
import numbers

import numpy as np
import pandas as pd
import pyarrow as pa
import scipy.sparse as sp

import props.common  # noqa: F401  (global warning filter)
from mc.explorer import Skip
from mc.runner import Sub
from models import dummy_ref as R

RULE = (
    "Every column dtype the installed stack (pandas 3 / numpy 2 / pyarrow / narwhals) produces for a text, "
    "categorical, numeric or boolean column x formula {X, X + a, X:a, X:A, C(X)} x materializer {pandas, narwhals on "
    "the pandas frame, narwhals on a pyarrow table} x output {pandas, numpy, sparse (+ narwhals for the narwhals "
    "materializer)} x ensure_full_rank on/off x every distinct ordering of the data rows; numeric dtypes additionally "
    "with the three extreme values of their range (min / sign-bit boundary / max); and every dtype that can hold a "
    "missing cell (None, NaN, pandas.NA, arrow null) with one missing cell at every position, which the default "
    "na_action='drop' must remove, leaving the dummy coding of the remaining rows.  The real "
    "formulaic.model_matrix is called and compared with the reference dummy coding of models/dummy_ref.py "
    "(text: levels sorted; categorical dtype: declared categories in declared order, unused ones included; numeric: "
    "values unchanged) and every cell is required to be a number.  Non-trivial = the column X holds >= 2 distinct "
    "values, i.e. >= 2 levels (counted once per distinct (dtype, frame, materializer, formula, output, rank flag, "
    "row order))."
)
ASSUMPTIONS = [
    "small-scope hypothesis: kind inference depends on the column dtype only, level discovery on the set and order "
    "of values only; 3 levels x every row order (thorough: 4 rows with a repeated level, and a second alphabet "
    "whose sorted order differs from case-insensitive / numeric-aware orders) exercises every ordering mechanism",
    "boolean columns: the property does not say whether they are categorical or numeric, so only 'every cell is a "
    "number' and the row count are demanded there; C(X) on a numeric column: level naming is not documented, so "
    "only the indicator values (levels = sorted distinct values) and the column count are demanded",
    "an object-dtype numpy result whose cells are all Python/numpy numbers satisfies 'every cell is a number' "
    "(counted as object-container-numeric-cells, not a violation)",
    "a missing cell is only exercised under the default na_action='drop' (C06 owns the null policies); object columns "
    "holding non-text, non-missing Python objects are not in scope",
    "polars is not installed, so narwhals is exercised on pandas frames and pyarrow tables only; pyarrow "
    "string_view / binary columns and pandas ArrowDtype dictionary columns are not reached",
]

# pyarrow dictionary columns: is the dictionary order a "declared order"?  The documentation is silent (narwhals
# hands such a column to pandas as plain text), so by default both the declared and the sorted order are accepted.
ARROW_DICTIONARY_ORDER_DEMANDED = False

LEVELS = ["x", "y", "z"]
# a level whose name starts with a double underscore ('_' sorts after digits and capitals, before lower case)
LEVELS3 = ["__p", "q", "r"]
LEVELS2 = ["b", "A", "10"]  # sorted: '10' < 'A' < 'b' (differs from case-insensitive and from numeric-aware order)

# ---------------------------------------------------------------------------------------------------------------
# dtype catalogue: name -> (frame kind, class, builder(values) -> column object, declared levels or None)
#   class: text | cat | num | bool


def _pd(dtype):
    return lambda vals: pd.Series(list(vals), dtype=dtype)


def _pd_cat(categories, ordered=False):
    return lambda vals: pd.Series(pd.Categorical(list(vals), categories=list(categories), ordered=ordered))


def _pa(typ):
    return lambda vals: pa.array(list(vals), type=typ)


def _pd_nan(dtype):
    """missing cells as float NaN instead of None (both occur in object columns in the wild)"""
    return lambda vals: pd.Series([float("nan") if v is None else v for v in vals], dtype=dtype)


def _pd_arrow_dict(categories):
    """pandas column of dtype ArrowDtype(dictionary<string>) whose dictionary is `categories` in that order"""
    def build(vals):
        arr = _pa_dict(categories)(vals)
        return pd.Series(arr, dtype=pd.ArrowDtype(arr.type))
    return build


def _pa_dict(categories):
    def build(vals):
        idx = pa.array([None if v is None else categories.index(v) for v in vals], type=pa.int32())
        return pa.DictionaryArray.from_arrays(idx, pa.array(list(categories), type=pa.string()))
    return build


def catalogue(levels, thorough):
    srt = sorted(levels)
    rot = [srt[2], srt[0], srt[1]]          # declared order that is not sorted
    rot2 = [srt[1], srt[2], srt[0]]
    unused = [srt[1], "w", srt[0], srt[2]]  # 'w' never occurs in the data
    cat = {}
    # ---- pandas frames
    cat["object"] = ("pandas", "text", _pd(object), None)
    cat["object(NaN)"] = ("pandas", "text", _pd_nan(object), None)  # differs from "object" only when a cell is missing
    cat["str"] = ("pandas", "text", lambda vals: pd.Series(list(vals)), None)  # what pandas 3 infers for a list of str
    cat["string[python]"] = ("pandas", "text", _pd("string[python]"), None)
    cat["string[pyarrow]"] = ("pandas", "text", _pd("string[pyarrow]"), None)
    cat["ArrowDtype(string)"] = ("pandas", "text", _pd(pd.ArrowDtype(pa.string())), None)
    cat["category"] = ("pandas", "cat", _pd_cat(srt), srt)
    cat["category(unsorted)"] = ("pandas", "cat", _pd_cat(rot), rot)
    cat["category(ordered)"] = ("pandas", "cat", _pd_cat(rot2, ordered=True), rot2)
    cat["category(unused)"] = ("pandas", "cat", _pd_cat(unused), unused)
    cat["ArrowDtype(dictionary)"] = ("pandas", "cat", _pd_arrow_dict(rot), rot)
    for t in ["int8", "int16", "int32", "int64", "uint8", "uint16", "uint32", "uint64", "float16", "float32", "float64",
              "Int64", "Float64"]:
        cat[t] = ("pandas", "num", _pd(t), None)
    if thorough:
        for t in ["Int8", "Int16", "Int32", "UInt8", "UInt16", "UInt32", "UInt64", "Float32",
                  "int64[pyarrow]", "double[pyarrow]"]:
            cat[t] = ("pandas", "num", _pd(t), None)
    cat["bool"] = ("pandas", "bool", _pd("bool"), None)
    cat["boolean"] = ("pandas", "bool", _pd("boolean"), None)
    # ---- pyarrow tables (narwhals only)
    cat["pa.string"] = ("arrow", "text", _pa(pa.string()), None)
    cat["pa.large_string"] = ("arrow", "text", _pa(pa.large_string()), None)
    cat["pa.dictionary"] = ("arrow", "cat", _pa_dict(srt), srt)
    cat["pa.dictionary(unsorted)"] = ("arrow", "cat", _pa_dict(rot), rot)
    cat["pa.dictionary(unused)"] = ("arrow", "cat", _pa_dict(unused), unused)
    for t in ["int8", "int16", "int32", "int64", "uint8", "uint16", "uint32", "uint64", "float32", "float64"]:
        cat["pa." + t] = ("arrow", "num", _pa(getattr(pa, t)()), None)
    cat["pa.bool"] = ("arrow", "bool", _pa(pa.bool_()), None)
    return cat


def is_unsigned(name):
    return "uint" in name.lower()


def is_float(name):
    return "float" in name.lower() or "double" in name.lower()


def int_bits(name):
    for b in ("64", "32", "16", "8"):
        if b in name:
            return int(b)
    raise AssertionError(name)


F32_MAX, F32_TINY = 3.4028234663852886e38, 1.401298464324817e-45  # exactly representable in float32


def extreme_values(name):
    """the ends (and the sign-bit boundary) of the value range of a numeric dtype"""
    if is_float(name):
        if "16" in name:
            return [-65504.0, 5.960464477539063e-08, 65504.0]  # exactly representable in float16
        if "32" in name:
            return [-F32_MAX, F32_TINY, F32_MAX]
        return [-1e300, 5e-324, 1e300]
    b = int_bits(name)
    if is_unsigned(name):
        return [0, 2 ** (b - 1), 2 ** b - 1]
    return [-(2 ** (b - 1)), -1, 2 ** (b - 1) - 1]


def precision_boundary_values(name):
    """64-bit integers that float64 cannot represent (first ones beyond 2**53); None for other dtypes"""
    if is_float(name) or int_bits(name) != 64:
        return None
    if is_unsigned(name):
        return [0, 2 ** 53 + 1, 2 ** 53 + 3]
    return [-(2 ** 53 + 1), 0, 2 ** 53 + 1]


def can_hold_missing(name, klass):
    if klass in ("text", "cat"):
        return True
    if klass != "num":
        return False
    return is_float(name) or name[0] in "IUF" or name.startswith("pa.") or "[pyarrow]" in name


def insert_everywhere(order, item):
    return [order[:i] + [item] + order[i:] for i in range(len(order) + 1)]


def distinct_orders(rows):
    seen, out = set(), []
    for p in itertools.permutations(rows):
        if p not in seen:
            seen.add(p)
            out.append(list(p))
    return out


# '0 + X + a': no intercept, so the first column of the matrix is X's (integer / indicator typed), followed by a float
FORMULAS = ["X", "X + a", "X:a", "X:A", "C(X)", "0 + X + a"]
A_VALUES = [0.5, -2.0, 4.0, 3.0, 1.5]
B_VALUES = ["q", "p", "q", "p", "p"]  # text companion column 'A' (object dtype / arrow string); levels p < q


def build_frame(kind, xcol, n):
    a, A = A_VALUES[:n], B_VALUES[:n]
    if kind == "pandas":
        return pd.DataFrame({"X": xcol, "a": pd.Series(a, dtype="float64"), "A": pd.Series(A, dtype=object)})
    return pa.table({"X": xcol, "a": pa.array(a, type=pa.float64()), "A": pa.array(A, type=pa.string())})


def reference(formula, klass, xlevels, rows, efr):
    """-> (names or None, matrix)   names None = naming not demanded"""
    name = "C(X)" if formula == "C(X)" else "X"
    check_names = True
    if klass in ("text", "cat"):
        fx = R.Factor(name, "X", "cat", xlevels)
    elif formula == "C(X)":
        lv = sorted(set(r["X"] for r in rows))
        fx = R.Factor(name, "X", "cat", lv)
        check_names = False
    else:
        fx = R.Factor(name, "X", "num")
    fa = R.Factor("a", "a", "num")
    fA = R.Factor("A", "A", "cat", R.sorted_levels(r["A"] for r in rows))
    if formula == "0 + X + a":
        cols = R.design("f1+f2", fx, fa, full_rank=efr, intercept=False)
    elif formula in ("X", "C(X)"):
        cols = R.design("f1", fx, full_rank=efr)
    elif formula == "X + a":
        cols = R.design("f1+f2", fx, fa, full_rank=efr)
    elif formula == "X:a":
        cols = R.design("f1:f2", fx, fa, full_rank=efr)
    elif formula == "X:A":
        cols = R.design("f1:f2", fx, fA, full_rank=efr)
    else:
        raise AssertionError(formula)
    names, mat = R.evaluate(cols, rows)
    return (names if check_names else None), mat


DUNDER_SIG = "level-starting-with-double-underscore-dropped"


def names_dunder_level(column_name):
    return "[__" in column_name or "[T.__" in column_name


def as_number(v):
    """a matrix cell as an exact Python number: integers (any integer dtype, bool) stay ints, the rest is float"""
    if isinstance(v, (bool, np.bool_)):
        return int(v)
    if isinstance(v, numbers.Integral):
        return int(v)
    return float(v)


def cell_is_number(v):
    return isinstance(v, numbers.Real) and not isinstance(v, (str, bool, np.bool_))


def cell_is_bool(v):
    return isinstance(v, (bool, np.bool_))


def extract(m, out):
    """-> (status, column names or None, float matrix or None, info)
    status: 'ok' | 'object-numeric' | 'non-numeric'"""
    names = [str(c) for c in m.model_spec.column_names]
    obj = getattr(m, "__wrapped__", m)
    status, bad = "ok", None
    if isinstance(obj, pd.DataFrame):
        if [str(c) for c in obj.columns] != names:
            return "names-disagree", names, None, {"frame_columns": [str(c) for c in obj.columns], "spec_columns": names}
        for c in obj.columns:
            if pd.api.types.is_bool_dtype(obj[c].dtype):
                # True / False are truth values, not numbers (no clean build ever returns them: indicator columns
                # are 0/1 integers, boolean data comes back as 0/1 integers as well)
                return "boolean", names, None, {"column": str(c), "dtype": str(obj[c].dtype)}
            if not pd.api.types.is_numeric_dtype(obj[c].dtype):
                cells = list(obj[c])
                if all(cell_is_number(v) for v in cells):
                    status = "object-numeric"
                elif all(cell_is_number(v) or cell_is_bool(v) for v in cells):
                    return "boolean", names, None, {"column": str(c), "dtype": str(obj[c].dtype), "cells": [repr(v) for v in cells[:4]]}
                else:
                    return "non-numeric", names, None, {"column": str(c), "dtype": str(obj[c].dtype), "cells": [repr(v) for v in cells[:4]]}
        mat = [[as_number(v) for v in row] for row in obj.to_numpy(dtype=object).tolist()]
        return status, names, mat, {"dtypes": [str(d) for d in obj.dtypes]}
    if isinstance(obj, pa.Table):
        if list(obj.column_names) != names:
            return "names-disagree", names, None, {"frame_columns": list(obj.column_names), "spec_columns": names}
        for f in obj.schema:
            if pa.types.is_boolean(f.type):
                return "boolean", names, None, {"column": f.name, "dtype": str(f.type)}
            if not (pa.types.is_integer(f.type) or pa.types.is_floating(f.type)):
                return "non-numeric", names, None, {"column": f.name, "dtype": str(f.type)}
        cols = [obj.column(i).to_pylist() for i in range(obj.num_columns)]
        mat = [[as_number(cols[j][i]) for j in range(len(cols))] for i in range(obj.num_rows)]
        return status, names, mat, {"dtypes": [str(f.type) for f in obj.schema]}
    if sp.issparse(obj):
        arr = obj.toarray()
    else:
        arr = np.asarray(obj)
    if arr.dtype.kind == "b":
        return "boolean", names, None, {"dtype": str(arr.dtype)}
    if arr.dtype.kind not in "iuf":
        cells = [v for row in arr.tolist() for v in (row if isinstance(row, list) else [row])]
        if arr.dtype.kind == "O" and all(cell_is_number(v) for v in cells):
            status = "object-numeric"
        elif arr.dtype.kind == "O" and all(cell_is_number(v) or cell_is_bool(v) for v in cells):
            return "boolean", names, None, {"dtype": str(arr.dtype), "cells": [repr(v) for v in cells if cell_is_bool(v)][:4]}
        else:
            bad = [repr(v) for v in cells if not cell_is_number(v)][:4]
            return "non-numeric", names, None, {"dtype": str(arr.dtype), "cells": bad}
    if arr.ndim != 2:
        return "non-numeric", names, None, {"dtype": str(arr.dtype), "shape": list(arr.shape)}
    mat = [[as_number(v) for v in row] for row in arr.tolist()]
    return status, names, mat, {"dtype": str(arr.dtype)}


def close(a, b, exact=False):
    """two ints must be equal; `exact`: a wanted int must be met exactly whatever the type of the result (Python
    compares int and float exactly, so float(2**53) != 2**53 + 1); otherwise relative tolerance 1e-9"""
    if isinstance(a, int) and isinstance(b, int):
        return a == b
    if exact and isinstance(b, int):
        return a == b
    a, b = float(a), float(b)
    return abs(a - b) <= 1e-9 * max(1.0, abs(a), abs(b))


def repro(dname, kind, vals, formula, mat, out, efr):
    kw = "output=%r, ensure_full_rank=%r" % (out, efr) + (", materializer='narwhals'" if mat != "pandas" else "")
    return ("X = <column %s built from %r>; data = %s({'X': X, 'a': %r, 'A': %r}); formulaic.model_matrix(%r, data, %s)"
            % (dname, vals, "pandas.DataFrame" if kind == "pandas" else "pyarrow.table",
               A_VALUES[:len(vals)], B_VALUES[:len(vals)], formula, kw))


def drv_dtypes(c, ctx, col):
    from formulaic import model_matrix

    def violation(key, detail, sig):
        col.count("where[%s | dtype=%s mat=%s out=%s]" % (sig, dname, mat, out))
        col.violation(key, detail, sig=sig)

    cat = ctx["catalogue"]
    dname = c.pick(ctx["dtype_names"])
    kind, klass, build, declared = cat[dname]
    formula = c.pick(ctx.get("formulas", FORMULAS))
    mat = c.pick(["pandas", "narwhals"]) if kind == "pandas" else "narwhals"
    out = c.pick(["pandas", "numpy", "sparse"] + (["narwhals"] if mat == "narwhals" else []))
    efr = not c.flag()
    if "float16" in dname and formula == "C(X)":
        # pandas cannot build a float16 category index ("float16 indexes are not supported"); C() on a numeric
        # column is not what the property is about: unspecified
        col.count("unspecified:C(X)-on-float16")
        raise Skip()
    vals = c.pick(c.pick(ctx["rows_by_dtype"][dname]))  # choose the multiset, then one of its orderings
    n = len(vals)
    data = build_frame(kind, build(vals), n)
    # a missing cell (None) removes its row under the default na_action="drop"; what remains is coded as usual
    rows = [{"X": vals[i], "a": A_VALUES[i], "A": B_VALUES[i]} for i in range(n) if vals[i] is not None]
    present = [v for v in vals if v is not None]
    n = len(rows)
    key = ("dtype=%s frame=%s mat=%s formula=%s out=%s efr=%s distinct=%d rows=%r"
           % (dname, kind, mat, formula, out, efr, len(set(present)), vals))
    detail = {"dtype": dname, "class": klass, "frame": kind, "materializer": mat, "formula": formula, "output": out,
              "ensure_full_rank": efr, "X": vals, "repro": repro(dname, kind, vals, formula, mat, out, efr)}
    col.sample({k: detail[k] for k in ("dtype", "frame", "materializer", "formula", "output", "ensure_full_rank", "X")})
    if len(set(present)) >= 2:
        col.interesting()
    kw = {"output": out, "ensure_full_rank": efr}
    if mat == "narwhals":
        kw["materializer"] = "narwhals"
    try:
        m = model_matrix(formula, data, **kw)
    except Exception as e:  # noqa: BLE001 - nothing may be raised for these well-formed inputs
        detail["error"] = "%s: %s" % (type(e).__name__, str(e)[:300])
        violation(key, detail, sig="raises:" + type(e).__name__)
        return
    status, names, got, info = extract(m, out)
    detail["result_info"] = info
    detail["got_columns"] = names
    if status == "names-disagree":
        violation(key, detail, sig="frame-columns-differ-from-spec")
        return
    if status == "non-numeric":
        violation(key, detail, sig="non-numeric-cells")
        return
    if status == "boolean":
        violation(key, detail, sig="boolean-cells")
        return
    if status == "object-numeric":
        col.count("object-container-numeric-cells")
        col.count("object-container-numeric-cells[%s/%s/%s]" % (dname, mat, out))
    detail["got"] = got
    if len(got) != n:
        violation(key, detail, sig="wrong-row-count")
        return
    if klass == "bool":
        col.count("bool:cells-numeric-only")
        return
    xlevels = declared if klass == "cat" else (R.sorted_levels(present) if klass == "text" else None)
    want_names, want = reference(formula, klass, xlevels, rows, efr)
    if ("dictionary" in dname and not ARROW_DICTIONARY_ORDER_DEMANDED and want_names is not None
            and names != want_names):
        # The order of an (unordered) arrow dictionary is an encoding detail on which the documentation is silent:
        # accept the text rule (sorted levels that occur) as well, and count it.
        alt_names, alt = reference(formula, "text", R.sorted_levels(present), rows, efr)
        if names == alt_names:
            col.count("unspecified:arrow-dictionary-coded-like-text(sorted, unused dropped)")
            want_names, want = alt_names, alt
    detail["want_columns"], detail["want"] = want_names, want
    if want_names is not None and names != want_names:
        candidates = [want_names]
        if "dictionary" in dname and not ARROW_DICTIONARY_ORDER_DEMANDED:
            candidates.append(reference(formula, "text", R.sorted_levels(present), rows, efr)[0])
        if any(names == [x for x in cand if not names_dunder_level(x)] and names != cand for cand in candidates):
            # every expected column is there except exactly those of a level whose name starts with '__'
            violation(key, detail, sig=DUNDER_SIG)
            return
        violation(key, detail, sig="wrong-columns")
        return
    if want_names is None:
        col.count("names-not-demanded")
    if any(len(r) != len(w) for r, w in zip(got, want)):
        violation(key, detail, sig="wrong-column-count")
        return
    # Outputs that keep one dtype per column (pandas, narwhals) must hand an integer column through EXACTLY (the
    # pass-through column is the one named X); a numpy / sparse matrix has a single dtype, so integers beyond 2**53
    # legitimately round there when another column is float (tolerance), as do products with float columns.
    exact_cols = [out in ("pandas", "narwhals") and klass == "num" and nm == "X" for nm in names]
    if not all(close(g, w, exact=ex) for r, wr in zip(got, want) for g, w, ex in zip(r, wr, exact_cols)):
        violation(key, detail, sig="wrong-values")
        return
    col.count("agree:" + klass + (":missing-cell-dropped" if len(present) < len(vals) else ""))


def outcome_of(build):
    """-> ('ERR', exception class) | (status, names, matrix)"""
    try:
        m = build()
    except Exception as e:  # noqa: BLE001 - compared, not judged
        return ("ERR", type(e).__name__, str(e)[:200])
    status, names, got, info = extract(m, None)
    return (status, names, got)


def same_result(a, b):
    if a[0] != b[0]:
        return False
    if a[0] == "ERR":
        return a[1] == b[1]
    if a[1] != b[1] or (a[2] is None) != (b[2] is None):
        return False
    if a[2] is None:
        return True
    return len(a[2]) == len(b[2]) and all(len(r) == len(t) and all(close(x, y) for x, y in zip(r, t))
                                          for r, t in zip(a[2], b[2]))


def fitted_spec_on_other_representation(col, formula, out, efr, r1, r2, frames, cat, kw):
    """The spec FITTED on frame 1 is applied to frame 2, which holds the same text data in another representation
    (text dtype, category with another declared order / unused categories, arrow string ...).  The levels recorded at
    fit time (sorted for text, declared order for a categorical dtype) govern: every row of frame 2 must get its 1 in
    the column of the level it holds.  Kind-changing and numeric pairs belong to C09 / the other carriers: skipped."""
    from formulaic import model_matrix

    (d1, m1, k1, v1, f1), (d2, m2, k2, v2, f2) = frames
    catlike = ("text", "cat")
    if formula != "C(X)" and ((k1 == "num" and k2 in catlike) or (k1 in catlike and k2 == "num")):
        # the column changed its kind between fit and re-use: the recorded spec must refuse it (the C09 clause, checked
        # here for every dtype route of the C08 catalogue) -- in particular text must never reach the matrix
        col.interesting()
        key = "reuse :: %s carrier=fitted spec out=%s efr=%s first=%s/%s second=%s/%s" % (formula, out, efr, d1, m1, d2, m2)
        try:
            spec = model_matrix(formula, f1, **kw(m1)).model_spec
            m = spec.get_model_matrix(f2, materializer=m2)
        except Exception as e:  # noqa: BLE001
            if type(e).__name__ == "FactorEncodingError":
                col.count("agree:fitted-spec kind change refused %s->%s" % (k1, k2))
                return
            col.violation(key, {"formula": formula, "first": d1, "second": d2, "error": "%s: %s" % (type(e).__name__, str(e)[:300])},
                          sig="fitted-spec-kind-change:raises:" + type(e).__name__)
            return
        status, names, got, info = extract(m, out)
        col.violation(key, {"formula": formula, "output": out, "ensure_full_rank": efr,
                            "first": {"dtype": d1, "materializer": m1, "X": v1},
                            "second": {"dtype": d2, "materializer": m2, "X": v2},
                            "got_status": status, "got_columns": names, "got": got, "result_info": info,
                            "want": "FactorEncodingError"}, sig="fitted-spec-kind-change-no-error")
        return
    if k1 not in ("text", "cat") or k2 not in ("text", "cat") or "dictionary" in d1:
        col.count("fitted-spec carrier not applicable (kind changes / numeric / arrow dictionary at fit)")
        raise Skip()
    col.interesting()
    key = "reuse :: %s carrier=fitted spec out=%s efr=%s first=%s/%s second=%s/%s" % (formula, out, efr, d1, m1, d2, m2)
    detail = {"formula": formula, "carrier": "mm1.model_spec.get_model_matrix(frame 2)", "output": out,
              "ensure_full_rank": efr, "first": {"dtype": d1, "materializer": m1, "X": v1},
              "second": {"dtype": d2, "materializer": m2, "X": v2}}
    try:
        spec = model_matrix(formula, f1, **kw(m1)).model_spec
        m = spec.get_model_matrix(f2, materializer=m2)
    except Exception as e:  # noqa: BLE001
        detail["error"] = "%s: %s" % (type(e).__name__, str(e)[:300])
        col.violation(key, detail, sig="fitted-spec-on-other-representation:raises:" + type(e).__name__)
        return
    status, names, got, info = extract(m, out)
    declared1 = cat[d1][3]
    levels = declared1 if k1 == "cat" else R.sorted_levels(v1)
    rows = [{"X": v2[i], "a": A_VALUES[i], "A": B_VALUES[i]} for i in range(len(v2))]
    want_names, want = reference(formula, "cat", levels, rows, efr)
    detail.update({"fit_levels": levels, "got_columns": names, "got": got, "want_columns": want_names, "want": want,
                   "result_info": info})
    if status not in ("ok", "object-numeric"):
        col.violation(key, detail, sig="fitted-spec-on-other-representation:" + status)
    elif names != want_names:
        col.violation(key, detail, sig="fitted-spec-on-other-representation:wrong-columns")
    elif len(got) != len(want) or not all(len(r) == len(w) and all(close(g, x) for g, x in zip(r, w))
                                          for r, w in zip(got, want)):
        col.violation(key, detail, sig="fitted-spec-on-other-representation:wrong-values")
    else:
        col.count("agree:fitted-spec %s->%s" % (k1, k2))


CONTAINERS = ["dict of scalars", "dict of lists", "dict of numpy arrays", "numpy recarray"]
CONTAINER_X = {"text": ["y", "x", "z"], "int": [3, 1, 2], "float": [0.5, -1.25, 2.0], "bool": [True, False, True]}


def drv_containers(c, ctx, col):
    """Every input container the pandas materializer registers besides DataFrame (dict, numpy recarray): a dict of
    scalars (one row, text and numbers mixed), of lists, of numpy arrays, a recarray.  Same oracle as for a frame:
    text is dummy-coded (sorted levels), numbers pass through unchanged, every cell a number."""
    from formulaic import model_matrix

    container = c.pick(CONTAINERS)
    xkind = c.pick(sorted(CONTAINER_X))
    formula = c.pick(FORMULAS)
    out = c.pick(["pandas", "numpy", "sparse"])
    efr = not c.flag()
    n = 1 if container == "dict of scalars" else 3
    X, a, A = CONTAINER_X[xkind][:n], A_VALUES[:n], B_VALUES[:n]
    if container == "dict of scalars":
        data = {"X": X[0], "a": a[0], "A": A[0]}
    elif container == "dict of lists":
        data = {"X": list(X), "a": list(a), "A": list(A)}
    elif container == "dict of numpy arrays":
        data = {"X": np.array(X, dtype=object if xkind == "text" else None), "a": np.array(a), "A": np.array(A, dtype=object)}
    else:
        data = np.rec.fromarrays([np.array(X, dtype=object if xkind == "text" else None), np.array(a),
                                  np.array(A, dtype=object)], names="X,a,A")
    rows = [{"X": X[i], "a": a[i], "A": A[i]} for i in range(n)]
    key = "container :: %s X=%s %r formula=%s out=%s efr=%s" % (container, xkind, X, formula, out, efr)
    detail = {"container": container, "X": X, "a": a, "A": A, "formula": formula, "output": out, "ensure_full_rank": efr,
              "repro": "formulaic.model_matrix(%r, <%s with X=%r, a=%r, A=%r>, output=%r, ensure_full_rank=%r)"
                       % (formula, container, X, a, A, out, efr)}
    col.interesting()
    col.sample({k: detail[k] for k in ("container", "X", "formula", "output", "ensure_full_rank")})
    try:
        m = model_matrix(formula, data, output=out, ensure_full_rank=efr)
    except Exception as e:  # noqa: BLE001
        detail["error"] = "%s: %s" % (type(e).__name__, str(e)[:300])
        col.violation(key, detail, sig="container:raises:" + type(e).__name__)
        return
    status, names, got, info = extract(m, out)
    detail.update({"got_columns": names, "got": got, "result_info": info})
    if status not in ("ok", "object-numeric"):
        col.violation(key, detail, sig="container:" + ("boolean-cells" if status == "boolean" else "non-numeric-cells"))
        return
    if xkind == "bool":
        if len(got) != n:
            col.violation(key, detail, sig="container:wrong-row-count")
        else:
            col.count("bool:cells-numeric-only")
        return
    klass = "text" if xkind == "text" else "num"
    want_names, want = reference(formula, klass, R.sorted_levels(X) if klass == "text" else None, rows, efr)
    detail.update({"want_columns": want_names, "want": want})
    if want_names is not None and names != want_names:
        col.violation(key, detail, sig="container:wrong-columns")
    elif len(got) != len(want) or not all(len(r) == len(w) and all(close(g, x) for g, x in zip(r, w)) for r, w in zip(got, want)):
        col.violation(key, detail, sig="container:wrong-values")
    else:
        col.count("agree:" + container)


def drv_reuse(c, ctx, col):
    """History dimension: ONE Formula object (or one unfitted ModelSpec built from it) is materialized against frame 1
    and then frame 2, where the column X may change its dtype class; every result must equal the fresh single build
    (formula string re-parsed) of the same frame -- the verdict for a column must not depend on what the same
    Formula / Term / Factor objects were used for before."""
    from formulaic import Formula, ModelSpec, model_matrix

    cat = ctx["catalogue"]
    formula = c.pick(FORMULAS)
    carrier = c.pick(["Formula", "ModelSpec", "fitted spec"])
    out = c.pick(ctx["outputs"])
    efr = c.pick(ctx["efr"])
    r1 = c.pick(ctx["routes"])
    r2 = c.pick(ctx["routes"])
    frames = []
    for dname, mat in (r1, r2):
        kind, klass, build, declared = cat[dname]
        vals = ctx["rows_by_dtype"][dname][0][0]
        frames.append((dname, mat, klass, vals, build_frame(kind, build(vals), len(vals))))

    def kw(mat):
        k = {"output": out, "ensure_full_rank": efr}
        if mat == "narwhals":
            k["materializer"] = "narwhals"
        return k

    if carrier == "fitted spec":
        fitted_spec_on_other_representation(col, formula, out, efr, r1, r2, frames, cat, kw)
        return
    F = Formula(formula)
    S = ModelSpec(formula=F, output=out, ensure_full_rank=efr) if carrier == "ModelSpec" else None
    reused = []
    for dname, mat, klass, vals, data in frames:
        if carrier == "Formula":
            reused.append(outcome_of(lambda: model_matrix(F, data, **kw(mat))))
        else:
            reused.append(outcome_of(lambda: S.get_model_matrix(data, **({"materializer": "narwhals"} if mat == "narwhals" else {}))))
    fresh = [outcome_of(lambda: model_matrix(formula, data, **kw(mat))) for dname, mat, klass, vals, data in frames]
    if frames[0][2] != frames[1][2]:
        col.interesting()
    col.sample({"formula": formula, "carrier": carrier, "output": out, "ensure_full_rank": efr,
                "first": "%s via %s" % r1, "second": "%s via %s" % r2})
    for i in (0, 1):
        if not same_result(reused[i], fresh[i]):
            key = ("reuse :: %s carrier=%s out=%s efr=%s first=%s/%s second=%s/%s deviates at step %d"
                   % (formula, carrier, out, efr, r1[0], r1[1], r2[0], r2[1], i + 1))
            col.count("where[%s | %s -> %s]" % ("reused-formula-object-differs-from-fresh-build", frames[0][2], frames[1][2]))
            col.violation(key, {"formula": formula, "carrier": carrier, "output": out, "ensure_full_rank": efr,
                                "first": {"dtype": r1[0], "materializer": r1[1], "X": frames[0][3]},
                                "second": {"dtype": r2[0], "materializer": r2[1], "X": frames[1][3]},
                                "step": i + 1, "reused_object_gives": reused[i], "fresh_build_gives": fresh[i],
                                "repro": "F = formulaic.Formula(%r); %s applied to frame 1 (X %s = %r) then frame 2 (X %s = %r) "
                                         "vs formulaic.model_matrix(%r, frame)" % (
                                             formula, "formulaic.model_matrix(F, frame, ...)" if carrier == "Formula"
                                             else "S = formulaic.ModelSpec(formula=F, ...); S.get_model_matrix(frame)",
                                             r1[0], frames[0][3], r2[0], frames[1][3], formula)},
                          sig="reused-formula-object-differs-from-fresh-build")
            return
    col.count("agree:%s->%s" % (frames[0][2], frames[1][2]))


ROUTES_QUICK = [("object", "pandas"), ("str", "pandas"), ("category(unsorted)", "pandas"), ("category(unused)", "pandas"),
                ("int64", "pandas"),
                ("float64", "pandas"), ("bool", "pandas"), ("pa.string", "narwhals"), ("pa.int64", "narwhals")]
ROUTES_THOROUGH = ROUTES_QUICK + [("object", "narwhals"), ("category(ordered)", "narwhals"), ("string[pyarrow]", "pandas"),
                                  ("uint8", "pandas"), ("Int64", "pandas"), ("boolean", "narwhals"),
                                  ("pa.dictionary(unsorted)", "narwhals"), ("pa.float64", "narwhals"), ("pa.bool", "narwhals")]


def make_ctx(thorough, levels_list, only=None, missing=False):
    """one context per level alphabet; rows_by_dtype[dtype] = list of multisets, each a list of row orders.
    missing=True: every multiset gets one missing cell (None), for the dtypes that can hold one."""
    ctxs = []
    for levels in levels_list:
        cat = catalogue(levels, thorough)
        names = [k for k in cat if only is None or k in only]
        base = list(levels)
        text_multisets = [base]
        int_ms, uint_ms, float_ms = [[3, 1, 2]], [[3, 1, 2]], [[0.5, -1.25, 2.0]]
        bool_ms = [[True, False, True]]
        if not thorough:
            text_multisets += [base[:2], base[:1] * 2]  # every number of levels 1..3 also in the quick tier
        if thorough:
            text_multisets += [base + [base[0]], base[:2], base[:1] * 2]
            int_ms += [[-2, 0, 5, -2], [7, 7]]
            uint_ms += [[0, 200, 7, 0], [7, 7]]
            float_ms += [[3.0, 1.0, 2.0], [-0.0, 1e-3, 2.5, 1e-3]]
            bool_ms += [[True, True], [False, True, False, False]]
        rows_by_dtype = {}
        for k in names:
            kind, klass, _, _ = cat[k]
            if klass in ("text", "cat"):
                mss = text_multisets
            elif klass == "bool":
                mss = bool_ms
            else:
                mss = uint_ms if is_unsigned(k) else (float_ms if is_float(k) else int_ms)
                if not missing:
                    mss = mss + [extreme_values(k)]  # both tiers: the ends of the dtype's range
                    extremes_at = len(mss) - 1
                    if precision_boundary_values(k):
                        mss = mss + [precision_boundary_values(k)]
            if klass == "num" and is_float(k) and ("16" in k or "32" in k):
                # the data are what the dtype can hold: quantise the intended values (1e-3 is not a float16)
                q = np.float16 if "16" in k else np.float32
                mss = [[float(q(v)) for v in ms] for ms in mss]
            if not missing:
                if k != "object(NaN)":  # identical to "object" when nothing is missing
                    rows_by_dtype[k] = [distinct_orders(ms) for ms in mss]
                    if klass == "num" and not thorough:  # quick: the extreme values in two orders only
                        for at in range(extremes_at, len(mss)):
                            ev = mss[at]
                            rows_by_dtype[k][at] = [ev, [ev[2], ev[0], ev[1]]]
            elif can_hold_missing(k, klass):
                if thorough:
                    pools = [distinct_orders(ms + [None]) for ms in mss if len(ms) <= 3]
                    pools.append(distinct_orders([mss[0][0], None, None]))
                elif klass in ("text", "cat"):
                    b0 = mss[0]
                    pools = [insert_everywhere(b0, None) + insert_everywhere([b0[2], b0[0], b0[1]], None)]
                else:
                    pools = [insert_everywhere(mss[0], None)]
                rows_by_dtype[k] = pools
        ctxs.append({"catalogue": cat, "dtype_names": [k for k in names if k in rows_by_dtype],
                     "rows_by_dtype": rows_by_dtype})
    return ctxs


def selftest():
    R.selftest()
    # the catalogue really produces the dtypes it names (guards against silent coercion by a future pandas)
    cat = catalogue(LEVELS, True)
    expect = {"object": "object", "str": "str", "string[python]": "string", "string[pyarrow]": "string",
              "category": "category", "Int64": "Int64", "Float64": "Float64", "bool": "bool", "boolean": "boolean"}
    for k, want in expect.items():
        v = [True, False] if k.startswith("bool") else ([1, 2] if k in ("Int64", "Float64") else ["x", "y"])
        got = str(cat[k][2](v).dtype)
        if got != want:
            raise AssertionError("dtype catalogue entry %r builds %r" % (k, got))
    if getattr(cat["string[python]"][2](["x"]).dtype, "storage", None) != "python":
        raise AssertionError("string[python] storage")
    if getattr(cat["string[pyarrow]"][2](["x"]).dtype, "storage", None) != "pyarrow":
        raise AssertionError("string[pyarrow] storage")
    if not isinstance(cat["str"][2](["x"]).dtype, pd.StringDtype):
        raise AssertionError("pandas no longer infers a string dtype for a list of str")


CLASSES = [("text", ("text",)), ("categorical", ("cat",)), ("numeric", ("num", "bool"))]


def subchecks(tier, seed):
    """One sub-check per dtype class (so that the findings of one class cannot crowd the others out of the
    runner's per-sub-check violation list); the numeric class does not depend on the level alphabet and is therefore
    not repeated for the second alphabet."""
    selftest()
    thorough = tier != "quick"
    subs = []

    def add(name, thorough_scope, levels, klasses, rows, note=None, only=None, shard_depth=3, missing=False,
            formulas=None):
        cat = catalogue(levels, thorough_scope)
        names = [k for k in cat if cat[k][1] in klasses and (only is None or k in only)]
        ctx = make_ctx(thorough_scope, [levels], only=names, missing=missing)[0]
        if not ctx["dtype_names"]:
            return
        if formulas:
            ctx["formulas"] = formulas
        b = {"levels": levels, "rows": rows, "dtypes": ctx["dtype_names"], "formulas": formulas or FORMULAS}
        if note:
            b["note"] = note
        subs.append(Sub(name, drv_dtypes, ctx, shard_depth=shard_depth, bounds=b))

    subs.append(Sub("containers", drv_containers, {}, shard_depth=2,
                    bounds={"containers": CONTAINERS, "X": CONTAINER_X, "formulas": FORMULAS,
                            "outputs": ["pandas", "numpy", "sparse"], "ensure_full_rank": [True, False]}))

    def add_reuse(thorough_scope):
        routes = ROUTES_THOROUGH if thorough_scope else ROUTES_QUICK
        ctx = make_ctx(False, [LEVELS], only=sorted(set(d for d, _ in routes)))[0]
        ctx.update({"routes": routes, "outputs": ["pandas", "numpy", "sparse"] if thorough_scope else ["pandas", "sparse"],
                    "efr": [True, False] if thorough_scope else [True]})
        subs.append(Sub("formula-reuse", drv_reuse, ctx, shard_depth=5,
                        bounds={"formulas": FORMULAS, "carriers": ["one Formula object", "one unfitted ModelSpec built from it",
                                                              "the spec fitted on frame 1 (text/categorical pairs only)"],
                                "routes (dtype of X, materializer)": routes, "histories": "every ordered pair of routes",
                                "outputs": ctx["outputs"], "ensure_full_rank": ctx["efr"]}))

    if not thorough:
        for name, klasses in CLASSES:
            add(name, False, LEVELS, klasses, "3 rows (3 levels / 3 distinct numbers; numeric also the 3 extreme values "
                                              "of the dtype), every order; text/categorical also 2 levels and 1 level")
        for name, klasses in CLASSES:
            add("missing-" + name, False, LEVELS, klasses,
                "the 3-row column plus one missing cell, at every position (text/categorical: of two base orders)",
                missing=True)
        for name, klasses in CLASSES[:2]:
            add(name + "-dunder", False, LEVELS3, klasses, "3 rows, every order; one level name starts with '__'",
                formulas=["X", "X:A", "C(X)"])
        add_reuse(False)
        # VERIF_SEED-selected exhaustive slice of the thorough scope: one dtype of the thorough catalogue with the
        # thorough multisets (and the second alphabet)
        allnames = [k for k in catalogue(LEVELS2, True) if k != "object(NaN)"]
        pick = allnames[seed % len(allnames)]
        add("seed-slice", True, LEVELS2, ("text", "cat", "num", "bool"), "thorough multisets, every distinct order",
            note="VERIF_SEED-selected exhaustive slice of the thorough scope: dtype %s" % pick, only=[pick], shard_depth=4)
    else:
        rows = "multisets of 2-4 rows (1-3 levels / distinct numbers), every distinct order"
        for name, klasses in CLASSES:
            add(name, True, LEVELS, klasses, rows)
        for name, klasses in CLASSES[:2]:
            add(name + "-alphabet2", True, LEVELS2, klasses, rows)
        for name, klasses in CLASSES:
            add("missing-" + name, True, LEVELS, klasses,
                "multisets of <= 3 rows plus one missing cell (and one value with two missing cells), every distinct order",
                missing=True)
        for name, klasses in CLASSES[:2]:
            add(name + "-dunder", True, LEVELS3, klasses, rows + "; one level name starts with '__'")
        add_reuse(True)
    return subs
