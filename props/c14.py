"""C14 - any input string is parsed or rejected with the library's parsing error."""
import traceback

from mc.explorer import Skip
from mc.runner import Sub
from models import lexer as LX
from props.common import FLAG_SETS, Timeout, parser_for, with_timeout

from formulaic.errors import FormulaParsingError

RULE = (
    "Character level: every string up to the length bound over the stated alphabets (operators, brackets of all "
    "three kinds, all four quote characters, back-slash, white space, a name, digits, '.'), token level: every "
    "token string up to the bound over C01's alphabet plus '[' and ']', and operand-validation corners generated "
    "from a small grammar (every operator x every operand kind incl. empty sets, every literal kind, strings, '.', "
    "in five surrounding shapes); x intercept mode x feature-flag subsets (all 8 where '~', '|' or '[' occur) x "
    "available-variable context where '.' occurs; and histories on ONE parser object: constructed with a flag subset, "
    "optionally used, then re-configured by every sequence of up to 2 (thorough 3) set_feature_flags calls (on the parser "
    "or its operator resolver, subset as FeatureFlags value or set of strings, all 8 subsets), with or without parses in "
    "between, probing four formulas after the changes against a fresh parser with the flags in force; every flag subset "
    "in every accepted spelling (FeatureFlags value, lower/upper-case name sets, 'all'/'default'/'none') through every entry "
    "point (constructor, constructor with a pre-configured resolver, set_feature_flags on parser / resolver) with pickle and "
    "deepcopy round-trips as events; ~100 valid Python fragments with unusual callee / node shapes in 11 operand positions "
    "(both sides of '~'); every ordered selection of 2-4 back-quoted names that sanitize to one alias; 28 constructs repeated "
    "10/100/1000/3000 times (long inputs); every string of length <= 3 (thorough 4) over 17 delicate code points (NUL, lone "
    "surrogates, astral, BOM, NBSP, bidi).  Every parse runs the real DefaultFormulaParser.get_terms under a "
    "5 s watchdog.  Non-trivial = a distinct (string, configuration) that reaches the parser with at least two "
    "reference-lexer tokens or a quote/bracket context."
)
ASSUMPTIONS = [
    "small-scope hypothesis: an exception type that escapes for some input escapes for an input within the explored "
    "length / operator bounds (each validation site is reached by a short string)",
    "a plain SyntaxError is legitimate only when an embedded Python fragment -- as delimited by the independent "
    "reference lexer in models/lexer.py, or by formulaic's own tokenizer (the lexing itself is C15's subject) -- is "
    "not a valid Python expression after back-tick aliasing",
    "a string 'needs' a disabled operator if the reference lexer sees a '|' token, a '~' with tokens to its left at "
    "bracket depth 0 (TWOSIDED) or a '~' with tokens to its left directly inside '[' (MULTISTAGE); strings whose "
    "lexing the documentation does not pin down (back-slashes, glued quotes, ...) carry no such demand",
    "termination is checked by a 5 s wall-clock watchdog per parse (typical parse: 0.05 ms)",
]

CHARS24 = ["a", "1", "0", ".", " ", "+", "-", "*", "/", ":", "^", "~", "|", "(", ")", "[", "]", "{", "}", "`", "'", '"', "%", "\\"]
CHARS14 = ["a", "+", " ", "(", ")", "[", "]", "{", "}", "`", "'", '"', "%", "\\"]
TOKENS_Q = ["a", "b", "1", "0", "+", "-", "*", "/", ":", "**", "%in%", "~", "|", "(", ")", ".", "[", "]"]
TOKENS_T = TOKENS_Q + ["^", "2", "{a}", "`a`"]
ALL_FLAGS = ("TWOSIDED", "MULTIPART", "MULTISTAGE")
AVAIL = ["a", "b"]
WATCHDOG_S = 5.0
OPERAND_KINDS = ("name", "number", "dot", "qname", "brace", "call", "string")


# ---------------------------------------------------------------------------
# running the real parser and classifying the outcome

def _where(exc):
    """innermost formulaic function on the traceback (the raising function), e.g. 'operators.power.<genexpr>'"""
    name, tb = None, exc.__traceback__
    while tb is not None:
        code = tb.tb_frame.f_code
        if "/formulaic/" in code.co_filename:
            q = getattr(code, "co_qualname", code.co_name).replace(".<locals>", "")
            q = ".".join(q.split(".")[-3:]) if "<" in q else q.split(".")[-1]
            name = q
        tb = tb.tb_next
    return name or "?"


def _get_terms(s, icpt, flags, avail):
    ctx = {}
    if avail is not None:
        ctx["__formulaic_variables_available__"] = list(avail)
    return parser_for(icpt, flags).get_terms(s, context=ctx)


def run(s, icpt, flags, avail, watchdog=WATCHDOG_S):
    """('OK', None) | ('REJECT', exc name) | ('SYNTAXERROR', where) | ('TIMEOUT', None) | ('ESCAPE', 'Type@function', msg)"""
    try:
        with_timeout(watchdog, _get_terms, s, icpt, flags, avail)
    except FormulaParsingError as e:
        return ("REJECT", type(e).__name__)
    except Timeout:
        return ("TIMEOUT", None)
    except SyntaxError as e:
        return ("SYNTAXERROR", _where(e), str(e)[:80])
    except Exception as e:  # noqa: the point of the property
        return ("ESCAPE", "%s@%s" % (type(e).__name__, _where(e)), str(e)[:80])
    return ("OK", None)


def real_python_tokens(s):
    """the PYTHON tokens formulaic's own tokenizer produces before it stops"""
    from formulaic.parser.algos.tokenize import tokenize
    from formulaic.parser.types import Token
    out = []
    try:
        for t in tokenize(s):
            if t.kind is Token.Kind.PYTHON:
                out.append(t.token)
    except Exception:  # noqa
        pass
    return out


def syntaxerror_justification(s, lx):
    for t in lx.tokens:
        if t.is_python and (not t.complete or not LX.python_valid(t.text)):
            return "reference-lexer"
    if lx.ok and not lx.unspec:
        return None      # the lexing is pinned down and every fragment is valid Python: a SyntaxError has no excuse
    for frag in real_python_tokens(s):
        if not LX.python_valid(frag):
            return "real-tokenizer-only"
    return None


def needed_flags(lx):
    """feature flags without which the string must be rejected (empty if the lexing is not pinned down)"""
    if not lx.ok or lx.unspec:
        return set()
    need, stack = set(), []
    operands = 0  # operand tokens seen so far
    for t in lx.tokens:
        if t.kind == "open":
            stack.append((t.text, operands))
        elif t.kind == "close":
            if stack:
                stack.pop()
        elif t.kind == "op" and t.text == "|":
            need.add("MULTIPART")
        elif t.kind == "op" and t.text == "~":
            # binary use = some operand stands to its left in the same group ('( ) ~ a', '+ ~ a' have none)
            if not stack:
                if operands > 0:
                    need.add("TWOSIDED")
            elif stack[-1][0] == "[" and operands > stack[-1][1]:
                need.add("MULTISTAGE")
        elif t.kind in OPERAND_KINDS:
            operands += 1
    return need


def repro(s, icpt, flags, avail):
    return ("from formulaic.parser import DefaultFormulaParser; DefaultFormulaParser(include_intercept=%r, feature_flags=%r)"
            ".get_terms(%r, context=%r)" % (icpt, set(flags), s, {"__formulaic_variables_available__": avail} if avail is not None else {}))


def judge(col, tag, s, icpt, flags, avail, lx=None, watchdog=WATCHDOG_S, shown=None):
    """shown: a short Python expression that builds s (for very long inputs); used in key and repro instead of repr(s)"""
    lx = lx or LX.lex(s)
    got = run(s, icpt, flags, avail, watchdog)
    cfg = "icpt=%s flags=%s avail=%s" % (icpt, "+".join(flags) or "NONE", avail)
    key = "%s :: %s %s" % (tag, shown or repr(s), cfg)

    def detail(**extra):
        d = {"formula": s if shown is None else shown, "include_intercept": icpt, "feature_flags": list(flags), "available": avail,
             "outcome": got, "reference_tokens": repr(lx.tokens)[:400],
             "repro": repro(s, icpt, flags, avail) if shown is None else repro("@@", icpt, flags, avail).replace("'@@'", shown)}
        d.update(extra)
        return d

    if len(lx.tokens) >= 2 or any(t.kind not in ("name", "number") for t in lx.tokens):
        col.interesting()
    k = got[0]
    col.count("outcome-" + k.lower())
    if k == "TIMEOUT":
        col.violation(key, detail(), sig="no-termination-within-%gs" % watchdog)
    elif k == "ESCAPE":
        col.violation(key, detail(), sig=got[1])
    elif k == "SYNTAXERROR":
        why = syntaxerror_justification(s, lx)
        if why is None:
            col.violation(key, detail(), sig="SyntaxError@%s-without-invalid-python-fragment" % got[1])
        else:
            col.count("syntaxerror-justified-by-" + why)
    elif k == "OK":
        missing = needed_flags(lx) - set(flags)
        if missing:
            col.violation(key, detail(disabled_but_needed=sorted(missing)), sig="disabled-operator-accepted:" + "+".join(sorted(missing)))
    if k != "OK" and (needed_flags(lx) - set(flags)):
        col.count("disabled-operator-rejected")
    return got


# ---------------------------------------------------------------------------
# drivers

def drv_chars(c, ctx, col):
    """ctx: alphabet, L, Lmin, prefix (fixed leading chars), all_flags_upto, both_icpt_upto, flag_variation"""
    alpha, L = ctx["alphabet"], ctx["L"]
    chars = list(ctx.get("prefix", ())) + c.seq(alpha, L - len(ctx.get("prefix", ())), max(0, ctx.get("Lmin", 0) - len(ctx.get("prefix", ()))))
    s = "".join(chars)
    if len(chars) <= ctx["all_flags_upto"]:
        flag_sets = FLAG_SETS
    elif ctx["flag_variation"] and any(ch in s for ch in "~|["):
        flag_sets = [FLAG_SETS[0], (), ALL_FLAGS]
    else:
        flag_sets = [FLAG_SETS[0]]
    icpt = not c.flag() if len(chars) <= ctx["both_icpt_upto"] else True
    flags = c.pick(flag_sets) if len(flag_sets) > 1 else flag_sets[0]
    avail = c.pick([None, AVAIL]) if "." in s else None
    judge(col, ctx["tag"], s, icpt, flags, avail)
    col.sample({"formula": s, "include_intercept": icpt, "flags": list(flags), "available": avail})


def drv_tokens(c, ctx, col):
    """ctx: sigma, L, Lmin, both_icpt_upto, all_flags_upto (longer structural strings get default / NONE / ALL)"""
    tokens = c.seq(ctx["sigma"], ctx["L"], ctx.get("Lmin", 0))
    s = " ".join(tokens)
    icpt = not c.flag() if len(tokens) <= ctx["both_icpt_upto"] else True
    flags = FLAG_SETS[0]
    if any(t in ("~", "|", "[") for t in tokens):
        flags = c.pick(FLAG_SETS if len(tokens) <= ctx["all_flags_upto"] else [FLAG_SETS[0], (), ALL_FLAGS])
    avail = c.pick([None, AVAIL]) if "." in tokens else None
    judge(col, "tokens", s, icpt, flags, avail)
    col.sample({"formula": s, "include_intercept": icpt, "flags": list(flags), "available": avail})


# operand-validation corners -------------------------------------------------

OPS = ["+", "-", "*", "/", ":", "%in%", "**", "^", "|", "~"]
EMPTY = ["(a-a)", "(b-b)", "(-a)", "(0)", "(a:b-b:a)", "((a-a))", "(a+b-b-a)"]
PLAIN = ["a", "b", "(a+b)", "a:b", "1", "0", "(1)", "2", "2.5", "."]
LITERALS = ["0", "1", "2", "3", "00", "01", "4", "(0)", "(1)", "(2)", "((2))", "1.5", "2.0", "2.", ".5", "(1.5)", "1e3", "1_0", "0x2",
            "-1", "+2", "(-1)", "(+2)", "(1+1)", "(2-1)", "(2:a)", "{2}", "`2`", "f(2)", "b", "(b)", "(b-b)", "(a-a)", ".", "(.)", "..",
            "1.5.2", '"x"', "'2'", '""', "(\"2\")", "2:a", "(2):a"]
STRINGS = ['"x"', "'x'", '""', '"a b"', "'a+b'", '"1"', "(\"x\")", '"x":a', "`x`", "``", "{}", "{ }", "f()"]
SHAPES = ["%s", "y ~ %s", "%s | c", "(%s) + c", "c / (%s)"]
AVAILS3 = [None, [], ["a", "b", "c"]]


def drv_corners(c, ctx, col):
    family = c.pick(ctx["families"])
    op = c.pick(OPS) if family != "exponent" else None
    if family == "empty-left":
        l, r = c.pick(EMPTY), c.pick(PLAIN + EMPTY)
    elif family == "empty-right":
        l, r = c.pick(PLAIN), c.pick(EMPTY)
    elif family == "exponent":
        op = c.pick(["**", "^"])
        l, r = c.pick(["a", "(a+b)", "(a-a)", "1", "2", ".", '"x"', "a:b"]), c.pick(LITERALS)
    elif family == "string":
        if c.flag():
            l, r = c.pick(STRINGS), c.pick(["a", "1", '"y"', "(a-a)"])
        else:
            l, r = c.pick(["a", "1", "(a-a)"]), c.pick(STRINGS)
    else:  # "dot"
        l, r = c.pick([".", "a", "(.)", "(.-a)", "(a-a)", "1", "2"]), c.pick([".", "a", "(.)", "(.-a)", "2", "(a-a)"])
        if "." not in l + r:
            l = "."
    spaced = c.flag() if ctx["spacings"] == 2 else False
    shape = c.pick(SHAPES[:ctx["shapes"]])
    core = ("%s %s %s" if spaced else "%s%s%s") % (l, op, r)
    s = shape % core
    icpt = not c.flag()
    flags = FLAG_SETS[0]
    if family == "empty-left" and op in ("~", "|"):
        flags = c.pick(FLAG_SETS)
    lx = LX.lex(s)
    avail = c.pick(AVAILS3) if any(t.kind == "dot" for t in lx.tokens) else None
    judge(col, "corner/" + family, s, icpt, flags, avail, lx)
    col.sample({"formula": s, "family": family, "include_intercept": icpt, "available": avail})


UNARY_SHAPES = ["%s", "-%s", "+%s", "~%s", "(%s)", "[%s]", "a + %s", "%s + a", "y ~ %s", "%s ~ a", "%s | a", "a | %s",
                "[%s ~ a]", "[a ~ %s]", "[[a ~ b] ~ %s]", "[[a ~ b] + %s ~ c]", "[%s ~ [a ~ b]]", "y ~ [%s ~ a] + b", "[y ~ %s | a]",
                "[a | b ~ %s]", "[a ~ b] ~ %s", "%s ~ [a ~ b]"]


def drv_shapes(c, ctx, col):
    """every operand kind in every single-hole shape, incl. the multistage shapes, under all flag sets"""
    shape = c.pick(UNARY_SHAPES)
    x = c.pick(["a", "(a-a)", "0", "1", "2", ".", '"x"', "``", "{}", "f()", "(a|b)", "(a~b)", "[a~b]", "[[a~b]~c]", "a|b", ""])
    s = shape % x
    icpt = not c.flag()
    flags = c.pick(FLAG_SETS)
    lx = LX.lex(s)
    avail = c.pick([None, ["a", "b", "c"]]) if any(t.kind == "dot" for t in lx.tokens) else None
    judge(col, "shape", s, icpt, flags, avail, lx)
    col.sample({"formula": s, "include_intercept": icpt, "flags": list(flags)})


MS_OPERANDS = ["[a~b]", "[c~d]", "[a+b~c]", "[a~b|c]", "[a|b~c]", "[a~b+[c~d]]", "[[a~b]~c]", "[~a]", "[a~]", "[a]", "a", "1", "0", "(a-a)", "."]
MS_SHAPES = ["%s", "(%s)", "y ~ %s", "[%s ~ z]", "[z ~ %s]", "%s | z"]
MS_FLAGS = [ALL_FLAGS, ("MULTISTAGE",), ("TWOSIDED", "MULTISTAGE"), FLAG_SETS[0]]


def drv_multistage(c, ctx, col):
    """every operator between multistage groups / ordinary operands, in six surroundings"""
    op = c.pick(OPS)
    l, r = c.pick(MS_OPERANDS), c.pick(MS_OPERANDS)
    if "[" not in l + r:
        raise Skip()
    s = c.pick(MS_SHAPES) % ("%s %s %s" % (l, op, r))
    icpt = not c.flag()
    flags = c.pick(MS_FLAGS)
    avail = ["a", "b"] if "." in (l, r) else None
    judge(col, "multistage", s, icpt, flags, avail)
    col.sample({"formula": s, "include_intercept": icpt, "flags": list(flags)})


# histories of feature-flag changes on ONE parser object --------------------------

PROBES = ["y ~ x", "a | b", "[a ~ b]", "y ~ a | b"]
SPEC_FORMS = ["enum", "set", "SET", "names", "overlap1", "overlap2"]
TARGETS = ["parser", "resolver"]
COPIES = ["pickle", "deepcopy"]


def flag_spec(flags, form):
    """the same flag subset in every accepted spelling: a FeatureFlags value, a set of lower-/upper-case flag names,
    or a set that uses the convenience names ('all', 'default', 'none')"""
    from formulaic.parser import DefaultFormulaParser
    FF = DefaultFormulaParser.FeatureFlags
    if form == "set":
        return {f.lower() for f in flags}
    if form == "SET":
        return {f.upper() for f in flags}
    if form in ("overlap1", "overlap2"):
        # sets of names that OVERLAP (a convenience name together with flags it already contains): the meaning is the union
        fs = set(flags)
        extra = ["twosided", "multipart"][form == "overlap2"]
        if fs == set(ALL_FLAGS):
            return {"all", extra} if form == "overlap1" else {"default", "multistage", extra, "all"}
        if {"TWOSIDED", "MULTIPART"} <= fs:
            return {"default", extra}
        if fs:
            return {"none"} | {f.lower() for f in fs} | {sorted(fs)[0].upper()}   # the same flag in two spellings
        return {"none", "NONE"}
    if form == "names":
        fs = set(flags)
        if fs == set(ALL_FLAGS):
            return {"all"}
        if {"TWOSIDED", "MULTIPART"} <= fs:
            return {"default"} | {f.lower() for f in fs - {"TWOSIDED", "MULTIPART"}}
        return {"none"} | {f.lower() for f in fs}
    v = FF.NONE
    for f in flags:
        v |= getattr(FF, f)
    return v


def run_on(parser, s):
    """like run(), on a given parser object"""
    try:
        with_timeout(WATCHDOG_S, parser.get_terms, s)
    except FormulaParsingError as e:
        return ("REJECT", type(e).__name__)
    except Timeout:
        return ("TIMEOUT", None)
    except Exception as e:  # noqa
        return ("ESCAPE", "%s@%s" % (type(e).__name__, _where(e)), str(e)[:80])
    return ("OK", None)


def drv_flag_histories(c, ctx, col):
    """A parser object is constructed with one flag subset -- given in any accepted spelling, directly or together with a
    pre-configured DefaultOperatorResolver -- optionally used, and then taken through a history of events: set_feature_flags
    on the parser or directly on its operator resolver (subset in any spelling), or replacing the object by its pickle
    round-trip / deep copy; optionally parsing between the events.  After construction (histories of length 0) and after
    (almost) every event the probe formulas must behave exactly as on a fresh parser constructed in the plainest way with
    the flags now in force; in particular an operator that those flags disable must be rejected."""
    import copy
    import pickle

    from formulaic.parser import DefaultFormulaParser, DefaultOperatorResolver

    flags = c.pick(ctx["init_flags"])
    how = c.pick(ctx["init_forms"])          # spelling of the constructor argument, or ("resolver", f1, f2)

    def refused(what, e):
        col.violation("flag-history :: %s" % what, {"call": what, "error": "%s: %s" % (type(e).__name__, str(e)[:200]), "repro": what},
                      sig="valid-flag-specification-refused:" + type(e).__name__)

    if isinstance(how, tuple):
        hist = ["DefaultFormulaParser(operator_resolver=DefaultOperatorResolver(feature_flags=%r), feature_flags=%r)"
                % (flag_spec(flags, how[1]), flag_spec(flags, how[2]))]
        try:
            parser = DefaultFormulaParser(operator_resolver=DefaultOperatorResolver(feature_flags=flag_spec(flags, how[1])),
                                          feature_flags=flag_spec(flags, how[2]))
        except Exception as e:  # noqa
            return refused(hist[0], e)
    else:
        hist = ["DefaultFormulaParser(feature_flags=%r)" % (flag_spec(flags, how),)]
        try:
            parser = DefaultFormulaParser(feature_flags=flag_spec(flags, how))
        except Exception as e:  # noqa
            return refused(hist[0], e)
    n = ctx["min_depth"] + c.upto(ctx["depth"] - ctx["min_depth"])
    warm = c.flag() if n > 0 else False      # parse once before the first event (builds the cached operator table)
    if warm:
        for s in PROBES:
            run_on(parser, s)
        hist.append("parse each of %r" % (PROBES,))

    def probe():
        for s in PROBES:
            got = run_on(parser, s)
            col.interesting()
            need = needed_flags(LX.lex(s)) - set(flags)
            key = "flag-history :: %s ; then %r" % (" ; ".join(hist), s)
            detail = {"history": list(hist), "formula": s, "flags_in_force": list(flags), "outcome": got,
                      "repro": "p = " + " ; ".join(hist) + " ; p.get_terms(%r)" % s}
            if got[0] in ("ESCAPE", "TIMEOUT"):
                col.violation(key, detail, sig=got[1] or "no-termination-within-5s")
            elif got[0] == "OK" and need:
                col.violation(key, dict(detail, disabled_but_needed=sorted(need)),
                              sig="disabled-operator-accepted-on-%s-parser:%s" % ("reconfigured" if len(hist) > 1 else "constructed", "+".join(sorted(need))))
            else:
                fresh = run(s, True, tuple(flags), None)
                if fresh[0] != got[0]:
                    col.violation(key, dict(detail, fresh_parser_outcome=fresh),
                                  sig="%s-parser-differs-from-plainly-constructed-parser" % ("reconfigured" if len(hist) > 1 else "constructed"))
                elif need:
                    col.count("disabled-operator-rejected")
        hist.append("parse each of %r" % (PROBES,))

    if n == 0:
        probe()
    subsets = ctx["subsets"] if n <= 2 else ctx["subsets_deep"]
    for step in range(n):
        target = c.pick(TARGETS + COPIES)
        if target in COPIES:
            try:
                parser = pickle.loads(pickle.dumps(parser)) if target == "pickle" else copy.deepcopy(parser)
            except Exception as e:  # noqa
                col.violation("flag-history :: %s ; then %s" % (" ; ".join(hist), target), {"history": list(hist), "error": repr(e)},
                              sig="parser-cannot-be-copied:" + type(e).__name__)
                return
            hist.append("p = pickle.loads(pickle.dumps(p))" if target == "pickle" else "p = copy.deepcopy(p)")
        else:
            form, flags = c.pick(ctx["step_forms"]), c.pick(subsets)
            spec = flag_spec(flags, form)
            call = ("p.set_feature_flags(%r)" if target == "parser" else "p.operator_resolver.set_feature_flags(%r)") % (spec,)
            try:
                (parser if target == "parser" else parser.operator_resolver).set_feature_flags(spec)
            except Exception as e:  # noqa
                return refused(" ; ".join(hist + [call]), e)
            hist.append(call)
        if step < n - 1 and not c.flag():
            continue             # two events in a row without a parse in between
        probe()
    col.sample({"history": hist})


# several parser objects derived from one another ---------------------------------------------------------------

COPY_SUBSETS = [(), ALL_FLAGS, FLAG_SETS[0], ("MULTISTAGE",)]


def drv_flag_copies(c, ctx, col):
    """Parser objects are derived from one another -- copy.copy, copy.deepcopy, pickle round-trip,
    dataclasses.replace(p, feature_flags=F) -- and any of them is re-configured with set_feature_flags.  After every
    event EVERY object obtained so far must behave like a fresh parser constructed with that object's own flags."""
    import copy
    import dataclasses
    import pickle

    from formulaic.parser import DefaultFormulaParser

    subsets = ctx["subsets"]
    f0 = c.pick(ctx["init_flags"])
    objs = [DefaultFormulaParser(feature_flags=flag_spec(f0, "enum"))]
    own = [tuple(f0)]
    hist = ["p0 = DefaultFormulaParser(feature_flags=%r)" % (flag_spec(f0, "enum"),)]
    if c.flag():
        for s in PROBES:
            run_on(objs[0], s)
        hist.append("p0 parses %r" % (PROBES,))
    n = 1 + c.upto(ctx["depth"] - 1)
    for _ in range(n):
        k = c.choose(len(objs))
        ev = c.pick(["set", "copy", "deepcopy", "pickle", "replace"])
        new = "p%d" % len(objs)
        if ev == "set":
            f = c.pick(subsets)
            objs[k].set_feature_flags(flag_spec(f, "enum"))
            own[k] = tuple(f)
            hist.append("p%d.set_feature_flags(%r)" % (k, flag_spec(f, "enum")))
        elif ev == "replace":
            f, form = c.pick(subsets), c.pick(["enum", "set"])
            objs.append(dataclasses.replace(objs[k], feature_flags=flag_spec(f, form)))
            own.append(tuple(f))
            hist.append("%s = dataclasses.replace(p%d, feature_flags=%r)" % (new, k, flag_spec(f, form)))
        else:
            objs.append(copy.copy(objs[k]) if ev == "copy" else copy.deepcopy(objs[k]) if ev == "deepcopy"
                        else pickle.loads(pickle.dumps(objs[k])))
            own.append(own[k])
            hist.append("%s = %s" % (new, {"copy": "copy.copy(p%d)", "deepcopy": "copy.deepcopy(p%d)",
                                            "pickle": "pickle.loads(pickle.dumps(p%d))"}[ev] % k))
        for i, p in enumerate(objs):
            for s in PROBES:
                got = run_on(p, s)
                col.interesting()
                need = needed_flags(LX.lex(s)) - set(own[i])
                key = "flag-copies :: %s ; then p%d parses %r" % (" ; ".join(hist), i, s)
                detail = {"history": list(hist), "object": "p%d" % i, "its_flags": list(own[i]), "formula": s, "outcome": got,
                          "repro": " ; ".join(hist) + " ; p%d.get_terms(%r)" % (i, s)}
                if got[0] in ("ESCAPE", "TIMEOUT"):
                    col.violation(key, detail, sig=got[1] or "no-termination-within-5s")
                elif got[0] == "OK" and need:
                    col.violation(key, dict(detail, disabled_but_needed=sorted(need)),
                                  sig="disabled-operator-accepted-after-configuring-a-related-parser:" + "+".join(sorted(need)))
                elif run(s, True, own[i], None)[0] != got[0]:
                    col.violation(key, detail, sig="parser-differs-from-fresh-parser-after-configuring-a-related-parser")
                elif need:
                    col.count("disabled-operator-rejected")
    col.sample({"history": hist})


# valid Python fragments with unusual callee / node shapes, in every operand position ---------------------------

PY_SHAPES = [
    "f(a)[0](b)", "fs[0](a)", "f(a)(b)", "{f(a).g(b)}", "fs[0][1](a, b)", "m.fs[0](a)", "f(a)[0]", "{f(a).b}", "f(g(a))(b)",
    "{(lambda v: v)(a)}", "{(f or g)(a)}", "{(f if c else g)(a)}", "{[f][0](a)}", "{{'k': f}['k'](a)}", "{(f, g)[0](a)}",
    "{f(a)(b)(c)}", "{(f)(a)}", "{(not f)(a)}", "{(-f)(a)}", "{(f + g)(a)}", '{f"{a}"}', "{[v for v in a]}", "{{v: v for v in a}}",
    "{{v for v in a}}", "{(v for v in a)}", "{a[b:c, ...]}", "{a[::2]}", "{(y := a)}", "{lambda: a}", "{lambda v=a: v}",
    "{a if b else c}", "{a < b < c}", "{a and b or c}", "{not a}", "{-a}", "{~a}", "{a @ b}", "{(a, b)}", "{[*a]}", "{f(*a, **k)}",
    "{a.b.c}", "{a.b(c).d}", "{b'x'}", "{...}", "{None}", "{1j}", "{a[0].b[1]}", "{await a}", "{a is not b}", "{a not in b}",
]
PY_POSITIONS = ["%s", "%s ~ x", "%s + y ~ x", "y ~ %s", "%s ~ .", "y | %s ~ x", "%s | z ~ x", "[%s ~ x]", "y ~ [%s ~ z]", "%s:a ~ x",
                "(%s) ~ x"]


def drv_py_shapes(c, ctx, col):
    frag = c.pick(ctx["fragments"])
    pos = c.pick(PY_POSITIONS)
    s = pos % frag
    icpt = not c.flag()
    flags = ALL_FLAGS if "[" in pos else FLAG_SETS[0]
    avail = ["a", "b"] if "." in pos.replace("%s", "") else None
    judge(col, "py-shapes", s, icpt, flags, avail)
    col.sample({"formula": s, "include_intercept": icpt})


QF_CHARS = ["a", " ", ")", "]", "}", "(", "[", "{", "'", '"']
QF_TEMPLATES = ["f(`%s`)", "x[`%s`]", "{`%s` + 1}", "y ~ log(`%s`) + b", "C(`%s`, Treatment)", "f(g[`%s`])", "{f(`%s`)[`%s`]}", "f(x, [`%s`], {1: `%s`})",
                "f(`%s`)(`%s`)"]


def drv_quoted_in_fragment(c, ctx, col):
    """a back-quoted name containing bracket closers / openers / quote characters inside each kind of Python fragment"""
    name = "".join(c.seq(QF_CHARS, ctx["L"], 1))
    tmpl = c.pick(QF_TEMPLATES)
    s = tmpl.replace("%s", name)
    icpt = not c.flag()
    judge(col, "quoted-in-fragment", s, icpt, FLAG_SETS[0], None)
    col.sample({"formula": s})


# several back-quoted names that sanitize to the same Python alias ------------------------------------------------

COLLIDING = [["a b", "a+b", "a-b", "a:b"], ["x 1", "x.1", "x-1", "x+1"]]
COLLISION_WATCHDOG_S = 1.0


def drv_alias_collisions(c, ctx, col):
    fam = c.pick(COLLIDING)
    k = 2 + c.upto(2)
    names, pool = [], list(fam)
    for _ in range(k):                        # every ordered selection of k distinct names
        names.append(pool.pop(c.choose(len(pool))))
    if k == 2 and c.flag():
        names = names + [names[0]]            # ... optionally mentioning the first one again
    form = c.pick(["f(%s)", "{%s}"])
    args = (", " if form.startswith("f(") else " + ").join("`%s`" % n for n in names)
    s = form % args
    judge(col, "alias-collisions", s, True, FLAG_SETS[0], None, watchdog=COLLISION_WATCHDOG_S)
    col.sample({"formula": s})


# long inputs (a different axis from the length-bounded enumerations) ---------------------------------------------

LONG_COUNTS = [10, 30, 100, 300, 1000, 3000]
LONG_WATCHDOG_S = 30.0
#   name, python expression in n that builds the formula, largest n used
LONG_CONSTRUCTS = [
    ("distinct names joined by +", "'+'.join('a%d' % i for i in range(n))", 3000),
    ("one name joined by +", "'+'.join(['a'] * n)", 3000),
    ("names joined by -", "'-'.join('a%d' % i for i in range(n))", 3000),
    ("names joined by :", "':'.join('a%d' % i for i in range(n))", 1000),
    ("names nested with /", "'/'.join('a%d' % i for i in range(n))", 100),
    ("parts joined by |", "'|'.join('a%d' % i for i in range(n))", 1000),
    ("nested parentheses", "'(' * n + 'a' + ')' * n", 3000),
    ("nested square brackets", "'[' * n + 'a' + ']' * n", 3000),
    ("unclosed parentheses", "'(' * n + 'a'", 3000),
    ("unopened parentheses", "'a' + ')' * n", 3000),
    ("nested stages", "'[a~' * n + 'z' + ']' * n", 1000),
    ("nested stages with sums", "'[a+b~c+' * n + 'z' + ']' * n", 1000),
    ("two-sided formula with nested stages", "'y ~ x + ' + '[a~' * n + 'z' + ']' * n", 1000),
    ("brackets around a stage", "'[' * n + 'a ~ b' + ']' * n", 3000),
    ("stage inside nested parentheses", "'(' * n + '[a ~ b]' + ')' * n", 3000),
    ("chain of **", "'a' + '**2' * n", 3000),
    ("chain of ^ in parentheses", "'(' * n + 'a' + '^2)' * n", 3000),
    ("one name joined by :", "':'.join(['a'] * n)", 3000),
    ("one name nested with /", "'/'.join(['a'] * n)", 3000),
    ("one name joined by %in%", "' %in% '.join(['a'] * n)", 3000),
    ("one name joined by *", "'*'.join(['a'] * n)", 3000),
    ("right-nested parentheses with +", "'(a+' * n + 'z' + ')' * n", 3000),
    ("left-nested parentheses with +", "'(' * n + 'z' + '+a)' * n", 3000),
    ("chain of ~", "'~'.join(['a'] * n)", 3000),
    ("nested unary minus in parentheses", "'-(' * n + 'a' + ')' * n", 3000),
    ("nested calls", "'f(' * n + 'a' + ')' * n", 3000),
    ("nested subscripts", "'a' + '[0]' * n", 3000),
    ("call with a long sum", "'f(' + '+'.join(['a'] * n) + ')'", 3000),
    ("braces with a long sum", "'{' + '+'.join(['a'] * n) + '}'", 3000),
    ("call with many arguments", "'f(' + ','.join(['a'] * n) + ')'", 3000),
    ("call with many back-quoted names", "'f(' + ','.join('`a %d`' % i for i in range(n)) + ')'", 1000),
    ("nested braces", "'{' * n + 'a' + '}' * n", 3000),
    ("run of signs", "'a ' + '+-' * n + ' b'", 3000),
    ("leading run of minus signs", "'-' * n + 'a'", 3000),
    ("run of operators", "'a ' + '*:/' * n + ' b'", 3000),
    ("long name", "'a' * n", 3000),
    ("long number", "'1' * n + ':a'", 3000),
    ("long exponent", "'(a+b)**' + '9' * (n // 100 + 1)", 3000),
    ("long back-quoted name", "'`' + 'a b' * n + '`'", 3000),
    ("long string literal", "'f(\"' + 'a)' * n + '\")'", 3000),
    ("many back-quoted operands", "'+'.join('`a %d`' % i for i in range(n))", 3000),
    ("long white space", "'a' + ' \\t\\n' * n + '+ b'", 3000),
    ("unterminated quote after a long prefix", "'a+' * n + '`b'", 3000),
]


def drv_long(c, ctx, col):
    name, expr, nmax = c.pick(LONG_CONSTRUCTS)
    n = c.pick(LONG_COUNTS)
    if n > nmax:
        raise Skip()
    s = eval(expr, {"n": n})
    icpt = not c.flag()
    flags = ALL_FLAGS if "[" in s else FLAG_SETS[0]
    judge(col, "long/%s" % name, s, icpt, flags, None, watchdog=LONG_WATCHDOG_S, shown="(lambda n: %s)(%d)" % (expr, n))
    col.sample({"construct": name, "n": n, "length": len(s)})


# code points that need care when text is handed to other layers ----------------------------------------------------

CODEPOINTS = ["a", "+", "(", ")", "{", "}", "`", "'", "\x00", "\ud800", "\udfff", "\U0001f600", "\u00a0", "\x85", "\ufeff", "\u0301", "\u202e"]


def drv_codepoints(c, ctx, col):
    s = "".join(c.seq(CODEPOINTS, ctx["L"], 1))
    icpt = not c.flag() if len(s) <= 2 else True
    judge(col, "codepoints", s, icpt, FLAG_SETS[0], None, shown=ascii(s))
    col.sample({"formula": ascii(s)})


# ---------------------------------------------------------------------------

def selftest():
    lx = LX.lex('f(x, "a)b") + `a b`:{c + "}"} %in% (d]')
    kinds = [(t.kind, t.text) for t in lx.tokens]
    want = [("call", 'f(x, "a)b")'), ("op", "+"), ("qname", "a b"), ("op", ":"), ("brace", 'c + "}"'), ("qop", "in"),
            ("open", "("), ("name", "d"), ("close", "]")]
    if kinds != want or not lx.ok:
        raise AssertionError("reference lexer self-test failed: %r" % (kinds,))
    assert LX.python_valid("f(`a b`, 'x')") and not LX.python_valid("f(x, \"a)") and not LX.python_valid(" ")
    assert needed_flags(LX.lex("a ~ b | c")) == {"TWOSIDED", "MULTIPART"} and needed_flags(LX.lex("~ a")) == set()
    assert needed_flags(LX.lex("y ~ [a ~ b]")) == {"TWOSIDED", "MULTISTAGE"} and needed_flags(LX.lex("`a~b` + {c|d}")) == set()


def subchecks(tier, seed):
    selftest()
    quick = tier == "quick"
    fams = ["empty-left", "empty-right", "exponent", "string", "dot"]
    a24, a14 = "".join(CHARS24), "".join(CHARS14)
    subs = [
        Sub("chars24", drv_chars, {"alphabet": CHARS24, "L": 4, "all_flags_upto": 3, "both_icpt_upto": 3 if quick else 4,
                                   "flag_variation": True, "tag": "chars24"}, shard_depth=3,
            bounds={"alphabet": a24, "max_length": 4, "all_8_flag_sets_and_both_intercept_modes_up_to_length": 3,
                    "length_4": "default flags; plus NONE and ALL if the string contains ~ | [; "
                                + ("intercept on" if quick else "both intercept modes")}),
        Sub("tokens", drv_tokens, {"sigma": TOKENS_Q if quick else TOKENS_T, "L": 4, "both_icpt_upto": 3 if quick else 4, "all_flags_upto": 4},
            shard_depth=3, bounds={"alphabet": TOKENS_Q if quick else TOKENS_T, "max_tokens": 4,
                                   "flags": "all 8 subsets when ~ | [ occur", "intercept": "both up to 3 tokens" if quick else "both"}),
    ] + [
        Sub("corners-" + fam, drv_corners, {"families": [fam], "shapes": 5, "spacings": 2}, shard_depth=2,
            bounds={"operators": OPS, "shapes": SHAPES, "spacings": ["a+b", "a + b"],
                    "operands": {"empty-left": [EMPTY, PLAIN + EMPTY], "empty-right": [PLAIN, EMPTY], "exponent": LITERALS,
                                 "string": STRINGS, "dot": "'.' in 7 x 6 operand forms"}[fam]})
        for fam in fams
    ] + [
        Sub("shapes", drv_shapes, {}, shard_depth=1, bounds={"shapes": UNARY_SHAPES}),
        Sub("multistage", drv_multistage, {}, shard_depth=1,
            bounds={"operators": OPS, "operands": MS_OPERANDS, "shapes": MS_SHAPES, "flag_sets": [list(f) for f in MS_FLAGS]}),
    ]
    res_forms = [("resolver", f1, f2) for f1 in SPEC_FORMS for f2 in SPEC_FORMS]
    if quick:
        res_forms = [("resolver", "enum", "set"), ("resolver", "set", "enum"), ("resolver", "enum", "enum"), ("resolver", "names", "SET")]
    subs.append(Sub("flag-configs", drv_flag_histories,
                    {"init_flags": FLAG_SETS, "init_forms": SPEC_FORMS + res_forms, "min_depth": 0, "depth": 1,
                     "step_forms": SPEC_FORMS, "subsets": FLAG_SETS, "subsets_deep": FLAG_SETS}, shard_depth=3,
                    bounds={"constructed_with": "all 8 subsets x {FeatureFlags value, set of lower-case names, set of upper-case names, "
                                                "set using 'all'/'default'/'none', two sets of OVERLAPPING names such as {'default','twosided'}} given to DefaultFormulaParser(feature_flags=...), and "
                                                + ("4" if quick else "all 16") + " spelling pairs of DefaultFormulaParser(operator_resolver=DefaultOperatorResolver("
                                                "feature_flags=S), feature_flags=S)",
                            "events": "0..1",
                            "each_event": "set_feature_flags on {parser, resolver} x 4 spellings x 8 subsets, or pickle round-trip, or deepcopy",
                            "parse_before_first_event": [False, True], "probe_formulas": PROBES}))
    subs.append(Sub("flag-histories", drv_flag_histories,
                    {"init_flags": [ALL_FLAGS, (), FLAG_SETS[0]] if quick else FLAG_SETS, "init_forms": ["enum"],
                     "min_depth": 2, "depth": 2 if quick else 3, "step_forms": ["enum", "set"], "subsets": FLAG_SETS,
                     "subsets_deep": [ALL_FLAGS, ()]}, shard_depth=6,
                    bounds={"constructed_with": "ALL, NONE, DEFAULT" if quick else "all 8 subsets (as FeatureFlags value; the other spellings are in flag-configs)",
                            "parse_before_first_event": [False, True], "events": "2" if quick else "2..3",
                            "each_event": "set_feature_flags on {parser, parser.operator_resolver} x {FeatureFlags value, set of str} x "
                                          "all 8 subsets (histories of 3 events: the subsets ALL and NONE), or pickle round-trip, or deepcopy",
                            "parse_between_events": [False, True], "probe_formulas": PROBES}))
    from props.c15 import PY_EXPRS
    frags = PY_SHAPES + ["{%s}" % e for e, _ in PY_EXPRS] + [e for e, bare in PY_EXPRS if bare]
    subs.append(Sub("flag-copies", drv_flag_copies,
                    {"init_flags": [(), ALL_FLAGS, FLAG_SETS[0]] if quick else FLAG_SETS, "depth": 2 if quick else 3,
                     "subsets": COPY_SUBSETS if quick else COPY_SUBSETS + [("TWOSIDED",), ("MULTIPART",)]}, shard_depth=4,
                    bounds={"first_parser": "NONE, ALL, DEFAULT" if quick else "all 8 subsets", "used_before": [False, True],
                            "events": "1..2" if quick else "1..3",
                            "each_event": "on any object obtained so far: set_feature_flags(F) | copy.copy | copy.deepcopy | pickle "
                                          "round-trip | dataclasses.replace(p, feature_flags=F as value or set)",
                            "F": [list(f) for f in (COPY_SUBSETS if quick else COPY_SUBSETS + [("TWOSIDED",), ("MULTIPART",)])],
                            "after_every_event": "every object x 4 probe formulas vs a fresh parser with that object's flags"}))
    subs.append(Sub("py-shapes", drv_py_shapes, {"fragments": frags}, shard_depth=1,
                    bounds={"fragments": "%d valid Python fragments (unusual callees: subscript, call result, lambda, boolean/conditional "
                                         "expression, container element; every expression node type; C15's pool in brace and call form)" % len(frags),
                            "positions": PY_POSITIONS, "intercept": "both"}))
    subs.append(Sub("quoted-in-fragment", drv_quoted_in_fragment, {"L": 2 if quick else 3}, shard_depth=2,
                    bounds={"name_alphabet": QF_CHARS, "max_length": 2 if quick else 3, "templates": QF_TEMPLATES, "intercept": "both"}))
    subs.append(Sub("alias-collisions", drv_alias_collisions, {}, shard_depth=2,
                    bounds={"families": COLLIDING, "names_per_fragment": "every ordered selection of 2, 3, 4 distinct names, optionally "
                                                                          "repeating the first (pairs)", "forms": ["f(..)", "{.. + ..}"],
                            "watchdog_s": COLLISION_WATCHDOG_S}))
    subs.append(Sub("long-inputs", drv_long, {}, shard_depth=2,
                    bounds={"repetitions": LONG_COUNTS, "constructs": [(nm, ex, mx) for nm, ex, mx in LONG_CONSTRUCTS],
                            "watchdog_s": LONG_WATCHDOG_S}))
    subs.append(Sub("codepoints", drv_codepoints, {"L": 3 if quick else 4}, shard_depth=2,
                    bounds={"alphabet": [ascii(ch) for ch in CODEPOINTS], "max_length": 3 if quick else 4}))
    if quick:
        subs.append(Sub("chars14", drv_chars, {"alphabet": CHARS14, "L": 5, "all_flags_upto": 0, "both_icpt_upto": 4,
                                               "flag_variation": False, "tag": "chars14"},
                        shard_depth=3, bounds={"alphabet": a14, "max_length": 5, "intercept": "both up to length 4"}))
        pre = [CHARS14[seed % 14], CHARS14[(seed // 14) % 14]]
        subs.append(Sub("chars14-seed-slice", drv_chars, {"alphabet": CHARS14, "prefix": pre, "L": 6, "Lmin": 6, "all_flags_upto": 0,
                                                          "both_icpt_upto": 0, "flag_variation": False, "tag": "chars14"}, shard_depth=2,
                        bounds={"alphabet": a14, "length": 6, "first_two_chars": "".join(pre),
                                "note": "VERIF_SEED-selected exhaustive slice of the thorough scope"}))
    else:
        subs.append(Sub("chars14", drv_chars, {"alphabet": CHARS14, "L": 6, "all_flags_upto": 0, "both_icpt_upto": 5,
                                               "flag_variation": False, "tag": "chars14"},
                        shard_depth=4, bounds={"alphabet": a14, "max_length": 6, "intercept": "both up to length 5"}))
        subs.append(Sub("chars24-5", drv_chars, {"alphabet": CHARS24, "L": 5, "Lmin": 5, "all_flags_upto": 0, "both_icpt_upto": 0,
                                                 "flag_variation": False, "tag": "chars24"},
                        shard_depth=4, bounds={"alphabet": a24, "length": 5, "intercept": "on", "flags": "default"}))
        sig5 = ["a", "1", "0", "+", "-", "*", "/", ":", "**", "~", "|", "(", ")", ".", "[", "]"]
        subs.append(Sub("tokens-5", drv_tokens, {"sigma": sig5, "L": 5, "Lmin": 5, "both_icpt_upto": 0, "all_flags_upto": 0}, shard_depth=3,
                        bounds={"alphabet": sig5, "tokens": 5, "intercept": "on", "flags": "default, NONE, ALL when ~ | [ occur"}))
    return subs
