"""C14 - any input string is parsed or rejected with the library's parsing error."""
import traceback

from mc.explorer import Skip
from mc.runner import Sub
from models import lexer as LX
from props.common import FLAG_SETS, Timeout, parser_for, with_timeout

from formulaic.errors import FormulaParsingError

RULE = (
    "Character level: every string up to the length bound over the stated alphabets (operators, brackets of all "
    "three kinds, all four quote characters, back-slash, white space, a name, digits, '.'), token level: every "
    "token string up to the bound over C01's alphabet plus '[' and ']', and operand-validation corners generated "
    "from a small grammar (every operator x every operand kind incl. empty sets, every literal kind, strings, '.', "
    "in five surrounding shapes); x intercept mode x feature-flag subsets (all 8 where '~', '|' or '[' occur) x "
    "available-variable context where '.' occurs; and histories on ONE parser object: constructed with a flag subset, "
    "optionally used, then re-configured by every sequence of up to 2 (thorough 3) set_feature_flags calls (on the parser "
    "or its operator resolver, subset as FeatureFlags value or set of strings, all 8 subsets), with or without parses in "
    "between, probing four formulas after the changes against a fresh parser with the flags in force.  Every parse runs the real DefaultFormulaParser.get_terms under a "
    "5 s watchdog.  Non-trivial = a distinct (string, configuration) that reaches the parser with at least two "
    "reference-lexer tokens or a quote/bracket context."
)
ASSUMPTIONS = [
    "small-scope hypothesis: an exception type that escapes for some input escapes for an input within the explored "
    "length / operator bounds (each validation site is reached by a short string)",
    "a plain SyntaxError is legitimate only when an embedded Python fragment -- as delimited by the independent "
    "reference lexer in models/lexer.py, or by formulaic's own tokenizer (the lexing itself is C15's subject) -- is "
    "not a valid Python expression after back-tick aliasing",
    "a string 'needs' a disabled operator if the reference lexer sees a '|' token, a '~' with tokens to its left at "
    "bracket depth 0 (TWOSIDED) or a '~' with tokens to its left directly inside '[' (MULTISTAGE); strings whose "
    "lexing the documentation does not pin down (back-slashes, glued quotes, ...) carry no such demand",
    "termination is checked by a 5 s wall-clock watchdog per parse (typical parse: 0.05 ms)",
]

CHARS24 = ["a", "1", "0", ".", " ", "+", "-", "*", "/", ":", "^", "~", "|", "(", ")", "[", "]", "{", "}", "`", "'", '"', "%", "\\"]
CHARS14 = ["a", "+", " ", "(", ")", "[", "]", "{", "}", "`", "'", '"', "%", "\\"]
TOKENS_Q = ["a", "b", "1", "0", "+", "-", "*", "/", ":", "**", "%in%", "~", "|", "(", ")", ".", "[", "]"]
TOKENS_T = TOKENS_Q + ["^", "2", "{a}", "`a`"]
ALL_FLAGS = ("TWOSIDED", "MULTIPART", "MULTISTAGE")
AVAIL = ["a", "b"]
WATCHDOG_S = 5.0
OPERAND_KINDS = ("name", "number", "dot", "qname", "brace", "call", "string")


# ---------------------------------------------------------------------------
# running the real parser and classifying the outcome

def _where(exc):
    """innermost formulaic function on the traceback (the raising function), e.g. 'operators.power.<genexpr>'"""
    name, tb = None, exc.__traceback__
    while tb is not None:
        code = tb.tb_frame.f_code
        if "/formulaic/" in code.co_filename:
            q = getattr(code, "co_qualname", code.co_name).replace(".<locals>", "")
            q = ".".join(q.split(".")[-3:]) if "<" in q else q.split(".")[-1]
            name = q
        tb = tb.tb_next
    return name or "?"


def _get_terms(s, icpt, flags, avail):
    ctx = {}
    if avail is not None:
        ctx["__formulaic_variables_available__"] = list(avail)
    return parser_for(icpt, flags).get_terms(s, context=ctx)


def run(s, icpt, flags, avail):
    """('OK', None) | ('REJECT', exc name) | ('SYNTAXERROR', where) | ('TIMEOUT', None) | ('ESCAPE', 'Type@function', msg)"""
    try:
        with_timeout(WATCHDOG_S, _get_terms, s, icpt, flags, avail)
    except FormulaParsingError as e:
        return ("REJECT", type(e).__name__)
    except Timeout:
        return ("TIMEOUT", None)
    except SyntaxError as e:
        return ("SYNTAXERROR", _where(e), str(e)[:80])
    except Exception as e:  # noqa: the point of the property
        return ("ESCAPE", "%s@%s" % (type(e).__name__, _where(e)), str(e)[:80])
    return ("OK", None)


def real_python_tokens(s):
    """the PYTHON tokens formulaic's own tokenizer produces before it stops"""
    from formulaic.parser.algos.tokenize import tokenize
    from formulaic.parser.types import Token
    out = []
    try:
        for t in tokenize(s):
            if t.kind is Token.Kind.PYTHON:
                out.append(t.token)
    except Exception:  # noqa
        pass
    return out


def syntaxerror_justification(s, lx):
    for t in lx.tokens:
        if t.is_python and (not t.complete or not LX.python_valid(t.text)):
            return "reference-lexer"
    for frag in real_python_tokens(s):
        if not LX.python_valid(frag):
            return "real-tokenizer-only"
    return None


def needed_flags(lx):
    """feature flags without which the string must be rejected (empty if the lexing is not pinned down)"""
    if not lx.ok or lx.unspec:
        return set()
    need, stack = set(), []
    operands = 0  # operand tokens seen so far
    for t in lx.tokens:
        if t.kind == "open":
            stack.append((t.text, operands))
        elif t.kind == "close":
            if stack:
                stack.pop()
        elif t.kind == "op" and t.text == "|":
            need.add("MULTIPART")
        elif t.kind == "op" and t.text == "~":
            # binary use = some operand stands to its left in the same group ('( ) ~ a', '+ ~ a' have none)
            if not stack:
                if operands > 0:
                    need.add("TWOSIDED")
            elif stack[-1][0] == "[" and operands > stack[-1][1]:
                need.add("MULTISTAGE")
        elif t.kind in OPERAND_KINDS:
            operands += 1
    return need


def repro(s, icpt, flags, avail):
    return ("from formulaic.parser import DefaultFormulaParser; DefaultFormulaParser(include_intercept=%r, feature_flags=%r)"
            ".get_terms(%r, context=%r)" % (icpt, set(flags), s, {"__formulaic_variables_available__": avail} if avail is not None else {}))


def judge(col, tag, s, icpt, flags, avail, lx=None):
    lx = lx or LX.lex(s)
    got = run(s, icpt, flags, avail)
    cfg = "icpt=%s flags=%s avail=%s" % (icpt, "+".join(flags) or "NONE", avail)
    key = "%s :: %r %s" % (tag, s, cfg)

    def detail(**extra):
        d = {"formula": s, "include_intercept": icpt, "feature_flags": list(flags), "available": avail,
             "outcome": got, "reference_tokens": repr(lx.tokens), "repro": repro(s, icpt, flags, avail)}
        d.update(extra)
        return d

    if len(lx.tokens) >= 2 or any(t.kind not in ("name", "number") for t in lx.tokens):
        col.interesting()
    k = got[0]
    col.count("outcome-" + k.lower())
    if k == "TIMEOUT":
        col.violation(key, detail(), sig="no-termination-within-5s")
    elif k == "ESCAPE":
        col.violation(key, detail(), sig=got[1])
    elif k == "SYNTAXERROR":
        why = syntaxerror_justification(s, lx)
        if why is None:
            col.violation(key, detail(), sig="SyntaxError@%s-without-invalid-python-fragment" % got[1])
        else:
            col.count("syntaxerror-justified-by-" + why)
    elif k == "OK":
        missing = needed_flags(lx) - set(flags)
        if missing:
            col.violation(key, detail(disabled_but_needed=sorted(missing)), sig="disabled-operator-accepted:" + "+".join(sorted(missing)))
    if k != "OK" and (needed_flags(lx) - set(flags)):
        col.count("disabled-operator-rejected")
    return got


# ---------------------------------------------------------------------------
# drivers

def drv_chars(c, ctx, col):
    """ctx: alphabet, L, Lmin, prefix (fixed leading chars), all_flags_upto, both_icpt_upto, flag_variation"""
    alpha, L = ctx["alphabet"], ctx["L"]
    chars = list(ctx.get("prefix", ())) + c.seq(alpha, L - len(ctx.get("prefix", ())), max(0, ctx.get("Lmin", 0) - len(ctx.get("prefix", ()))))
    s = "".join(chars)
    if len(chars) <= ctx["all_flags_upto"]:
        flag_sets = FLAG_SETS
    elif ctx["flag_variation"] and any(ch in s for ch in "~|["):
        flag_sets = [FLAG_SETS[0], (), ALL_FLAGS]
    else:
        flag_sets = [FLAG_SETS[0]]
    icpt = not c.flag() if len(chars) <= ctx["both_icpt_upto"] else True
    flags = c.pick(flag_sets) if len(flag_sets) > 1 else flag_sets[0]
    avail = c.pick([None, AVAIL]) if "." in s else None
    judge(col, ctx["tag"], s, icpt, flags, avail)
    col.sample({"formula": s, "include_intercept": icpt, "flags": list(flags), "available": avail})


def drv_tokens(c, ctx, col):
    """ctx: sigma, L, Lmin, both_icpt_upto, all_flags_upto (longer structural strings get default / NONE / ALL)"""
    tokens = c.seq(ctx["sigma"], ctx["L"], ctx.get("Lmin", 0))
    s = " ".join(tokens)
    icpt = not c.flag() if len(tokens) <= ctx["both_icpt_upto"] else True
    flags = FLAG_SETS[0]
    if any(t in ("~", "|", "[") for t in tokens):
        flags = c.pick(FLAG_SETS if len(tokens) <= ctx["all_flags_upto"] else [FLAG_SETS[0], (), ALL_FLAGS])
    avail = c.pick([None, AVAIL]) if "." in tokens else None
    judge(col, "tokens", s, icpt, flags, avail)
    col.sample({"formula": s, "include_intercept": icpt, "flags": list(flags), "available": avail})


# operand-validation corners -------------------------------------------------

OPS = ["+", "-", "*", "/", ":", "%in%", "**", "^", "|", "~"]
EMPTY = ["(a-a)", "(b-b)", "(-a)", "(0)", "(a:b-b:a)", "((a-a))", "(a+b-b-a)"]
PLAIN = ["a", "b", "(a+b)", "a:b", "1", "0", "(1)", "2", "2.5", "."]
LITERALS = ["0", "1", "2", "3", "00", "01", "4", "(0)", "(1)", "(2)", "((2))", "1.5", "2.0", "2.", ".5", "(1.5)", "1e3", "1_0", "0x2",
            "-1", "+2", "(-1)", "(+2)", "(1+1)", "(2-1)", "(2:a)", "{2}", "`2`", "f(2)", "b", "(b)", "(b-b)", "(a-a)", ".", "(.)", "..",
            "1.5.2", '"x"', "'2'", '""', "(\"2\")", "2:a", "(2):a"]
STRINGS = ['"x"', "'x'", '""', '"a b"', "'a+b'", '"1"', "(\"x\")", '"x":a', "`x`", "``", "{}", "{ }", "f()"]
SHAPES = ["%s", "y ~ %s", "%s | c", "(%s) + c", "c / (%s)"]
AVAILS3 = [None, [], ["a", "b", "c"]]


def drv_corners(c, ctx, col):
    family = c.pick(ctx["families"])
    op = c.pick(OPS) if family != "exponent" else None
    if family == "empty-left":
        l, r = c.pick(EMPTY), c.pick(PLAIN + EMPTY)
    elif family == "empty-right":
        l, r = c.pick(PLAIN), c.pick(EMPTY)
    elif family == "exponent":
        op = c.pick(["**", "^"])
        l, r = c.pick(["a", "(a+b)", "(a-a)", "1", "2", ".", '"x"', "a:b"]), c.pick(LITERALS)
    elif family == "string":
        if c.flag():
            l, r = c.pick(STRINGS), c.pick(["a", "1", '"y"', "(a-a)"])
        else:
            l, r = c.pick(["a", "1", "(a-a)"]), c.pick(STRINGS)
    else:  # "dot"
        l, r = c.pick([".", "a", "(.)", "(.-a)", "(a-a)", "1", "2"]), c.pick([".", "a", "(.)", "(.-a)", "2", "(a-a)"])
        if "." not in l + r:
            l = "."
    spaced = c.flag() if ctx["spacings"] == 2 else False
    shape = c.pick(SHAPES[:ctx["shapes"]])
    core = ("%s %s %s" if spaced else "%s%s%s") % (l, op, r)
    s = shape % core
    icpt = not c.flag()
    flags = FLAG_SETS[0]
    if family == "empty-left" and op in ("~", "|"):
        flags = c.pick(FLAG_SETS)
    lx = LX.lex(s)
    avail = c.pick(AVAILS3) if any(t.kind == "dot" for t in lx.tokens) else None
    judge(col, "corner/" + family, s, icpt, flags, avail, lx)
    col.sample({"formula": s, "family": family, "include_intercept": icpt, "available": avail})


UNARY_SHAPES = ["%s", "-%s", "+%s", "~%s", "(%s)", "[%s]", "a + %s", "%s + a", "y ~ %s", "%s ~ a", "%s | a", "a | %s",
                "[%s ~ a]", "[a ~ %s]", "[[a ~ b] ~ %s]", "[[a ~ b] + %s ~ c]", "[%s ~ [a ~ b]]", "y ~ [%s ~ a] + b", "[y ~ %s | a]",
                "[a | b ~ %s]", "[a ~ b] ~ %s", "%s ~ [a ~ b]"]


def drv_shapes(c, ctx, col):
    """every operand kind in every single-hole shape, incl. the multistage shapes, under all flag sets"""
    shape = c.pick(UNARY_SHAPES)
    x = c.pick(["a", "(a-a)", "0", "1", "2", ".", '"x"', "``", "{}", "f()", "(a|b)", "(a~b)", "[a~b]", "[[a~b]~c]", "a|b", ""])
    s = shape % x
    icpt = not c.flag()
    flags = c.pick(FLAG_SETS)
    lx = LX.lex(s)
    avail = c.pick([None, ["a", "b", "c"]]) if any(t.kind == "dot" for t in lx.tokens) else None
    judge(col, "shape", s, icpt, flags, avail, lx)
    col.sample({"formula": s, "include_intercept": icpt, "flags": list(flags)})


MS_OPERANDS = ["[a~b]", "[c~d]", "[a+b~c]", "[a~b|c]", "[a|b~c]", "[a~b+[c~d]]", "[[a~b]~c]", "[~a]", "[a~]", "[a]", "a", "1", "0", "(a-a)", "."]
MS_SHAPES = ["%s", "(%s)", "y ~ %s", "[%s ~ z]", "[z ~ %s]", "%s | z"]
MS_FLAGS = [ALL_FLAGS, ("MULTISTAGE",), ("TWOSIDED", "MULTISTAGE"), FLAG_SETS[0]]


def drv_multistage(c, ctx, col):
    """every operator between multistage groups / ordinary operands, in six surroundings"""
    op = c.pick(OPS)
    l, r = c.pick(MS_OPERANDS), c.pick(MS_OPERANDS)
    if "[" not in l + r:
        raise Skip()
    s = c.pick(MS_SHAPES) % ("%s %s %s" % (l, op, r))
    icpt = not c.flag()
    flags = c.pick(MS_FLAGS)
    avail = ["a", "b"] if "." in (l, r) else None
    judge(col, "multistage", s, icpt, flags, avail)
    col.sample({"formula": s, "include_intercept": icpt, "flags": list(flags)})


# histories of feature-flag changes on ONE parser object --------------------------

PROBES = ["y ~ x", "a | b", "[a ~ b]", "y ~ a | b"]
SPEC_FORMS = ["enum", "set"]
TARGETS = ["parser", "resolver"]


def flag_spec(flags, form):
    """the same flag subset as a FeatureFlags value or as a set of (lower-case) strings"""
    from formulaic.parser import DefaultFormulaParser
    if form == "set":
        return {f.lower() for f in flags}
    v = DefaultFormulaParser.FeatureFlags.NONE
    for f in flags:
        v |= getattr(DefaultFormulaParser.FeatureFlags, f)
    return v


def run_on(parser, s):
    """like run(), on a given parser object"""
    try:
        with_timeout(WATCHDOG_S, parser.get_terms, s)
    except FormulaParsingError as e:
        return ("REJECT", type(e).__name__)
    except Timeout:
        return ("TIMEOUT", None)
    except Exception as e:  # noqa
        return ("ESCAPE", "%s@%s" % (type(e).__name__, _where(e)), str(e)[:80])
    return ("OK", None)


def drv_flag_histories(c, ctx, col):
    """A parser object is constructed with one flag subset, optionally used, and then re-configured by a history of
    set_feature_flags calls -- on the parser or directly on its operator resolver, with the subset given as a
    FeatureFlags value or as a set of strings -- optionally parsing between the calls.  After (almost) every step the
    probe formulas must behave exactly as on a fresh parser constructed with the flags now in force; in particular
    an operator that those flags disable must be rejected."""
    from formulaic.parser import DefaultFormulaParser

    init = c.pick(ctx["init_flags"])
    init_form = c.pick(ctx["init_forms"])
    warm = c.flag()          # parse once before the first change (builds the cached operator table)
    n = 1 + c.upto(ctx["depth"] - 1)
    parser = DefaultFormulaParser(feature_flags=flag_spec(init, init_form))
    hist = ["DefaultFormulaParser(feature_flags=%r)" % (flag_spec(init, init_form),)]
    if warm:
        for s in PROBES:
            run_on(parser, s)
        hist.append("parse each of %r" % (PROBES,))
    subsets = ctx["subsets"] if n <= 2 else ctx["subsets_deep"]
    for step in range(n):
        target, form, flags = c.pick(TARGETS), c.pick(SPEC_FORMS), c.pick(subsets)
        spec = flag_spec(flags, form)
        if target == "parser":
            parser.set_feature_flags(spec)
            hist.append("p.set_feature_flags(%r)" % (spec,))
        else:
            parser.operator_resolver.set_feature_flags(spec)
            hist.append("p.operator_resolver.set_feature_flags(%r)" % (spec,))
        last = step == n - 1
        if not last and not c.flag():
            continue             # two changes in a row without a parse in between
        for s in PROBES:
            got = run_on(parser, s)
            col.interesting()
            need = needed_flags(LX.lex(s)) - set(flags)
            key = "flag-history :: %s ; then %r" % (" ; ".join(hist), s)
            detail = {"history": list(hist), "formula": s, "flags_in_force": list(flags), "outcome": got,
                      "repro": "p = " + " ; ".join(hist) + " ; p.get_terms(%r)" % s}
            if got[0] in ("ESCAPE", "TIMEOUT"):
                col.violation(key, detail, sig=got[1] or "no-termination-within-5s")
            elif got[0] == "OK" and need:
                col.violation(key, dict(detail, disabled_but_needed=sorted(need)),
                              sig="disabled-operator-accepted-on-reconfigured-parser:" + "+".join(sorted(need)))
            else:
                fresh = run(s, True, tuple(flags), None)
                if fresh[0] != got[0]:
                    col.violation(key, dict(detail, fresh_parser_outcome=fresh), sig="reconfigured-parser-differs-from-fresh-parser")
                elif need:
                    col.count("disabled-operator-rejected")
        hist.append("parse each of %r" % (PROBES,))
    col.sample({"history": hist})


# ---------------------------------------------------------------------------

def selftest():
    lx = LX.lex('f(x, "a)b") + `a b`:{c + "}"} %in% (d]')
    kinds = [(t.kind, t.text) for t in lx.tokens]
    want = [("call", 'f(x, "a)b")'), ("op", "+"), ("qname", "a b"), ("op", ":"), ("brace", 'c + "}"'), ("qop", "in"),
            ("open", "("), ("name", "d"), ("close", "]")]
    if kinds != want or not lx.ok:
        raise AssertionError("reference lexer self-test failed: %r" % (kinds,))
    assert LX.python_valid("f(`a b`, 'x')") and not LX.python_valid("f(x, \"a)") and not LX.python_valid(" ")
    assert needed_flags(LX.lex("a ~ b | c")) == {"TWOSIDED", "MULTIPART"} and needed_flags(LX.lex("~ a")) == set()
    assert needed_flags(LX.lex("y ~ [a ~ b]")) == {"TWOSIDED", "MULTISTAGE"} and needed_flags(LX.lex("`a~b` + {c|d}")) == set()


def subchecks(tier, seed):
    selftest()
    quick = tier == "quick"
    fams = ["empty-left", "empty-right", "exponent", "string", "dot"]
    a24, a14 = "".join(CHARS24), "".join(CHARS14)
    subs = [
        Sub("chars24", drv_chars, {"alphabet": CHARS24, "L": 4, "all_flags_upto": 3, "both_icpt_upto": 3 if quick else 4,
                                   "flag_variation": True, "tag": "chars24"}, shard_depth=3,
            bounds={"alphabet": a24, "max_length": 4, "all_8_flag_sets_and_both_intercept_modes_up_to_length": 3,
                    "length_4": "default flags; plus NONE and ALL if the string contains ~ | [; "
                                + ("intercept on" if quick else "both intercept modes")}),
        Sub("tokens", drv_tokens, {"sigma": TOKENS_Q if quick else TOKENS_T, "L": 4, "both_icpt_upto": 3 if quick else 4, "all_flags_upto": 4},
            shard_depth=3, bounds={"alphabet": TOKENS_Q if quick else TOKENS_T, "max_tokens": 4,
                                   "flags": "all 8 subsets when ~ | [ occur", "intercept": "both up to 3 tokens" if quick else "both"}),
    ] + [
        Sub("corners-" + fam, drv_corners, {"families": [fam], "shapes": 5, "spacings": 2}, shard_depth=2,
            bounds={"operators": OPS, "shapes": SHAPES, "spacings": ["a+b", "a + b"],
                    "operands": {"empty-left": [EMPTY, PLAIN + EMPTY], "empty-right": [PLAIN, EMPTY], "exponent": LITERALS,
                                 "string": STRINGS, "dot": "'.' in 7 x 6 operand forms"}[fam]})
        for fam in fams
    ] + [
        Sub("shapes", drv_shapes, {}, shard_depth=1, bounds={"shapes": UNARY_SHAPES}),
        Sub("multistage", drv_multistage, {}, shard_depth=1,
            bounds={"operators": OPS, "operands": MS_OPERANDS, "shapes": MS_SHAPES, "flag_sets": [list(f) for f in MS_FLAGS]}),
    ]
    subs.append(Sub("flag-histories", drv_flag_histories,
                    {"init_flags": [ALL_FLAGS, (), FLAG_SETS[0]] if quick else FLAG_SETS, "init_forms": ["enum"] if quick else SPEC_FORMS,
                     "depth": 2 if quick else 3, "subsets": FLAG_SETS, "subsets_deep": [ALL_FLAGS, ()]},
                    shard_depth=4,
                    bounds={"constructed_with": "ALL, NONE, DEFAULT" if quick else "all 8 subsets, as FeatureFlags value and as set of strings",
                            "parse_before_first_change": [False, True], "changes": "1..2" if quick else "1..3",
                            "each_change": "set_feature_flags on {parser, parser.operator_resolver} x {FeatureFlags value, set of str} x "
                                           "all 8 subsets (histories of 3 changes: the subsets ALL and NONE)",
                            "parse_between_changes": [False, True], "probe_formulas": PROBES}))
    if quick:
        subs.append(Sub("chars14", drv_chars, {"alphabet": CHARS14, "L": 5, "all_flags_upto": 0, "both_icpt_upto": 4,
                                               "flag_variation": False, "tag": "chars14"},
                        shard_depth=3, bounds={"alphabet": a14, "max_length": 5, "intercept": "both up to length 4"}))
        pre = [CHARS14[seed % 14], CHARS14[(seed // 14) % 14]]
        subs.append(Sub("chars14-seed-slice", drv_chars, {"alphabet": CHARS14, "prefix": pre, "L": 6, "Lmin": 6, "all_flags_upto": 0,
                                                          "both_icpt_upto": 0, "flag_variation": False, "tag": "chars14"}, shard_depth=2,
                        bounds={"alphabet": a14, "length": 6, "first_two_chars": "".join(pre),
                                "note": "VERIF_SEED-selected exhaustive slice of the thorough scope"}))
    else:
        subs.append(Sub("chars14", drv_chars, {"alphabet": CHARS14, "L": 6, "all_flags_upto": 0, "both_icpt_upto": 5,
                                               "flag_variation": False, "tag": "chars14"},
                        shard_depth=4, bounds={"alphabet": a14, "max_length": 6, "intercept": "both up to length 5"}))
        subs.append(Sub("chars24-5", drv_chars, {"alphabet": CHARS24, "L": 5, "Lmin": 5, "all_flags_upto": 0, "both_icpt_upto": 0,
                                                 "flag_variation": False, "tag": "chars24"},
                        shard_depth=4, bounds={"alphabet": a24, "length": 5, "intercept": "on", "flags": "default"}))
        sig5 = ["a", "1", "0", "+", "-", "*", "/", ":", "**", "~", "|", "(", ")", ".", "[", "]"]
        subs.append(Sub("tokens-5", drv_tokens, {"sigma": sig5, "L": 5, "Lmin": 5, "both_icpt_upto": 0, "all_flags_upto": 0}, shard_depth=3,
                        bounds={"alphabet": sig5, "tokens": 5, "intercept": "on", "flags": "default, NONE, ALL when ~ | [ occur"}))
    return subs
