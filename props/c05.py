"""C05 - output types, entry points and materializers agree with one another."""
import numpy as np
import pandas as pd
import pyarrow as pa

from mc.explorer import Skip
from mc.runner import Sub
from props.common import dense

from formulaic import Formula, ModelSpec, model_matrix
from formulaic.materializers import FormulaMaterializer, NarwhalsMaterializer, PandasMaterializer

RULE = (
    "For every (formula, frame): the full product output {pandas, numpy, sparse} x entry point {model_matrix, "
    "Formula.get_model_matrix, ModelSpec.from_spec(...).get_model_matrix, <Materializer>(data).get_model_matrix, reuse of the "
    "produced spec} x materializer {pandas, narwhals on the pandas frame, narwhals on a pyarrow table} x na_action {drop, ignore} is "
    "built by the real code and compared (values, shape, column names from the spec) with the pandas/pandas/model_matrix variant "
    "of the same na_action.  Non-trivial = the variant differs from the baseline variant in at least one dimension and the matrix "
    "has at least two columns."
)
ASSUMPTIONS = [
    "polars is not installed; narwhals is exercised on pandas and pyarrow inputs only",
    "bool columns are excluded (the two materializers classify them differently and the property does not say which is right)",
    "index labels are not compared (the property speaks of numbers, column order and names)",
]

FORMULAS = [
    "a", "A", "a + b", "a + A", "a:A", "A:a", "A:B", "B:A", "A + B + A:B", "a:b", "{a+b}", "{a+b}:A", "2.5:a", "A:2.5:a",
    "a + b + a:b + A:a", "0 + A", "0 + a:A", "A + a:A", "B + A:B:a",
    "center(a)", "scale(b)", "poly(a, 2)", "bs(a, df=4)", "C(A, contr.sum)", "C(A, contr.treatment('z')) + a", "C(B, contr.helmert):a",
    "y ~ a + A", "y ~ a | A", "log(a) + A",
    "0 + A + a", "0 + n + a", "n + b", "0 + n:A + b",
    "3:A:B", "0 + 3:A:B", "a + 2:A:B", "2.5:a:A:B", "0 + 2:A",
    "a + I(3)", "I(2):a + A",  # factors that evaluate to a constant
    "k + a", "0 + k:A",  # 32-bit integers that float32 cannot hold
    # contrasts with non-default options (each has its own dense and sparse code path)
    "C(A, contr.diff(backward=False)) + a", "a + a:C(A, contr.diff(backward=False))", "C(A, contr.helmert(reverse=False, scale=True))",
    "C(A, contr.poly(scores=[1, 2, 4])) + b", "C(A, contr.SAS('x')):a", "C(A, contr.custom([[1, 0], [0, 1], [-1, -1]]))",
]


def frames():
    clean = pd.DataFrame({
        "y": [1.0, 2.0, 3.0, 4.0, 5.0, 6.0],
        "a": [2.0, 3.0, 5.0, 7.0, 11.0, 13.0],
        "n": [3, 1, 4, 1, 5, 9],
        "k": np.array([1700000077, 1600000001, 3, 2000000011, 16777217, 5], dtype="int32"),  # beyond the float32 grid
        "b": [1.5, -2.5, 3.25, 0.5, 4.75, 6.125],
        "A": pd.Series(list("xyzxyz"), dtype=object),
        "B": pd.Series(list("uuvvuv"), dtype=object),
    })
    nulls = clean.copy()
    nulls.loc[1, "a"] = np.nan
    nulls.loc[4, "A"] = None
    nulls.loc[5, "b"] = np.nan
    shuffled = nulls.copy()
    shuffled.index = [4, 2, 5, 0, 1, 3]
    catdt = clean.copy()
    # categorical dtypes with a declared order that is not the sorted one, and with a declared level that never occurs
    catdt["A"] = pd.Categorical(list(clean["A"]), categories=["z", "x", "w", "y"])
    catdt["B"] = pd.Categorical(list(clean["B"]), categories=["v", "u"], ordered=True)
    # nullable extension dtypes holding pandas.NA (integer and boolean kinds), next to an ordinary NaN
    nullable = clean.copy()
    nullable["n"] = pd.array([3, pd.NA, 4, 1, 5, 9], dtype="Int64")
    nullable["b"] = pd.array([1.5, -2.5, 3.25, pd.NA, 4.75, 6.125], dtype="Float64")
    return {"clean": clean, "nulls": nulls, "nulls-shuffled-index": shuffled, "categorical-dtype": catdt, "nullable-dtypes": nullable}


def to_arrow(df):
    return pa.Table.from_pandas(df, preserve_index=False)



def parts(mm):
    from formulaic.utils.structured import Structured
    if isinstance(mm, Structured):
        return list(mm._flatten())
    return [mm]


ENTRIES = ["model_matrix", "Formula.get_model_matrix", "ModelSpec.from_spec.get_model_matrix", "Materializer(data).get_model_matrix", "reuse-spec",
           "model_matrix(spec, **overrides)", "model_matrix(matrix, **overrides)", "spec.get_model_matrix(**overrides)",
           "Materializer(data) used twice (other output, other formula first)", "registry picks the materializer"]
MATS = ["pandas", "narwhals/pandas", "narwhals/arrow", "pandas/dict", "pandas/recarray"]


def build(formula, df, entry, mat, output, na_action):
    data = to_arrow(df) if mat == "narwhals/arrow" else df
    if mat == "pandas/dict":
        data = {c_: df[c_].to_numpy() if df[c_].dtype.kind in "fiu" else list(df[c_]) for c_ in df.columns}  # a plain dict of columns
    elif mat == "pandas/recarray":
        data = df.to_records(index=False)
    opts = {"output": output, "na_action": na_action}
    mname = "pandas" if mat.startswith("pandas") else "narwhals"
    if entry == "Materializer(data).get_model_matrix":
        cls = PandasMaterializer if mat.startswith("pandas") else NarwhalsMaterializer
        return cls(data).get_model_matrix(formula, **opts)
    if entry == "Materializer(data) used twice (other output, other formula first)":
        # one materializer object serves several calls: an earlier call with another output type and another formula (sharing factors) must leave no trace
        cls = PandasMaterializer if mat.startswith("pandas") else NarwhalsMaterializer
        m = cls(data)
        other = {"pandas": "sparse", "numpy": "pandas", "sparse": "numpy"}[output]
        try:
            m.get_model_matrix("a + A", output=other, na_action=na_action)
            m.get_model_matrix(formula, output=other, na_action=na_action)
        except Exception:  # noqa - the warm-up calls are not the subject
            pass
        return m.get_model_matrix(formula, **opts)
    if entry == "registry picks the materializer":
        return model_matrix(formula, data, **opts)
    if mat != "narwhals/arrow":
        opts["materializer"] = mname  # on an arrow table the registry must pick narwhals by itself
    if entry == "model_matrix":
        return model_matrix(formula, data, **opts)
    if entry == "Formula.get_model_matrix":
        return Formula(formula).get_model_matrix(data, **opts)
    if entry == "ModelSpec.from_spec.get_model_matrix":
        return ModelSpec.from_spec(formula, **opts).get_model_matrix(data)
    if entry == "reuse-spec":
        first = model_matrix(formula, data, **opts)
        return first.model_spec.get_model_matrix(data)
    if entry in ("model_matrix(spec, **overrides)", "model_matrix(matrix, **overrides)", "spec.get_model_matrix(**overrides)"):
        # the spec is produced with OTHER options (another output type, the other null policy); the overrides must win
        other = dict(opts, output={"pandas": "numpy", "numpy": "sparse", "sparse": "pandas"}[output])
        first = model_matrix(formula, data, **other)
        if entry == "model_matrix(spec, **overrides)":
            return model_matrix(first.model_spec, data, **opts)
        if entry == "model_matrix(matrix, **overrides)":
            return model_matrix(first, data, **opts)
        return first.model_spec.get_model_matrix(data, **opts)
    raise AssertionError(entry)


def drv(c, ctx, col):
    formula = c.pick(ctx["formulas"])
    fname = c.pick(ctx["frames"])
    na_action = c.pick(["drop", "ignore"])
    output = c.pick(["pandas", "numpy", "sparse"])
    entry = c.pick(ENTRIES)
    mat = c.pick(MATS)
    df = ctx["frame_objs"][fname]
    if fname == "nullable-dtypes" and na_action == "ignore":
        raise Skip()  # pandas.NA cells kept in the matrix: their representation per output type is not specified
    if fname.startswith("nulls") and na_action == "ignore" and any(t in formula for t in ("poly(", "bs(", "center(", "scale(")):
        raise Skip()  # stateful numeric transforms on data with unhandled nulls: behaviour not specified
    if entry == "registry picks the materializer" and mat == "narwhals/pandas":
        raise Skip()  # (a pandas frame is registered for the pandas materializer: same execution as mat == "pandas")
    if mat in ("pandas/dict", "pandas/recarray") and fname != "clean":
        raise Skip()  # plain containers: exercised on the clean frame only (None / categorical cells have no recarray representation)
    if fname == "categorical-dtype" and mat == "narwhals/arrow":
        # a pandas categorical becomes an arrow dictionary column; narwhals hands those over as plain text (sorted levels, unused
        # entries dropped).  Whether an arrow dictionary's order is a "declared order" is not documented: classed unspecified (as in C08).
        col.count("unspecified:arrow-dictionary-order")
        raise Skip()
    key = "%r frame=%s na_action=%s output=%s entry=%s materializer=%s" % (formula, fname, na_action, output, entry, mat)
    detail = {"formula": formula, "frame": fname, "na_action": na_action, "output": output, "entry": entry, "materializer": mat}
    try:
        base = model_matrix(formula, df, output="pandas", na_action=na_action, materializer="pandas")
    except Exception as e:  # noqa
        col.count("baseline-raised:" + type(e).__name__)
        raise Skip()
    try:
        got = build(formula, df, entry, mat, output, na_action)
    except Exception as e:  # noqa
        col.violation(key, dict(detail, error="%s: %s" % (type(e).__name__, str(e)[:300])), sig="variant-raised:%s:%s" % (mat, type(e).__name__))
        return
    bp, gp = parts(base), parts(got)
    if len(bp) != len(gp):
        col.violation(key, dict(detail, parts=len(gp), expected=len(bp)), sig="structure-differs")
        return
    for j, (b, g) in enumerate(zip(bp, gp)):
        B, G = dense(b), dense(g)
        if (entry, mat, output) != ("model_matrix", "pandas", "pandas") and B.shape[1] >= 2:
            col.interesting()
        inner = getattr(g, "__wrapped__", g)
        kind = "pandas" if isinstance(inner, pd.DataFrame) else "sparse" if hasattr(inner, "toarray") else "numpy" if isinstance(inner, np.ndarray) else type(inner).__name__
        if kind != output:
            col.violation(key, dict(detail, part=j, container=kind, requested=output), sig="wrong-output-container:" + entry)
            return
        bn, gn = list(b.model_spec.column_names), list(g.model_spec.column_names)
        if bn != gn:
            col.violation(key, dict(detail, part=j, names=gn, baseline_names=bn), sig="column-names-differ:" + mat)
            return
        if output == "pandas" and list(g.columns) != gn:
            col.violation(key, dict(detail, part=j, labels=list(g.columns), names=gn), sig="labels-differ-from-spec:" + mat)
            return
        if B.shape != G.shape or not np.allclose(B, G, rtol=1e-12, atol=1e-12, equal_nan=True):
            col.violation(key, dict(detail, part=j, got=G.tolist(), baseline=B.tolist()),
                          sig="values-differ:%s:%s:%s" % (mat, output, "nulls" if fname.startswith("nulls") else "clean"))
            return
    col.sample(detail)


# ---------------------------------------------------------------------------
# specs obtained by ModelSpec.subset(): the same spec through every entry point that accepts a spec

SUBSET_PARENTS = ["a + A + B:a", "A + a:A + b", "A + B + A:B", "0 + A + B + a", "a + C(A, contr.sum) + a:C(A, contr.sum)", "2.5:a + A:B + b"]
SUBSET_ENTRIES = ["spec.get_model_matrix(data)", "spec.get_model_matrix(data, output=)", "model_matrix(spec, data, output=)", "Materializer(data).get_model_matrix(spec, output=)",
                  "spec.update(output=).get_model_matrix(data)", "model_matrix(spec.update(output=), data)"]


def drv_subset(c, ctx, col):
    formula = c.pick(SUBSET_PARENTS)
    fname = c.pick(ctx["frames"])
    df = ctx["frame_objs"][fname]
    parent_out = c.pick(["pandas", "numpy", "sparse"])
    output = c.pick(["pandas", "numpy", "sparse"])
    entry = c.pick(SUBSET_ENTRIES)
    try:
        parent = model_matrix(formula, df, output=parent_out)
    except Exception as e:  # noqa
        col.count("baseline-raised:" + type(e).__name__)
        raise Skip()
    pspec = parent.model_spec
    terms = list(pspec.terms)
    keep = c.subset(list(range(len(terms))))
    if not keep or len(keep) == len(terms):
        raise Skip()
    key = "subset of %r keeping %s frame=%s parent_output=%s output=%s entry=%s" % (formula, [str(terms[i]) for i in keep], fname, parent_out, output, entry)
    detail = {"formula": formula, "kept_terms": [str(terms[i]) for i in keep], "frame": fname, "parent_output": parent_out, "output": output, "entry": entry}
    # reference: the parent's own columns for the kept terms (the numbers every entry point must reproduce)
    P = dense(parent)
    idx = [j for i in keep for j in pspec.term_indices[terms[i]]]
    want, want_names = P[:, idx], [pspec.column_names[j] for j in idx]
    try:
        sub = pspec.subset([terms[i] for i in keep])
        if entry == "spec.get_model_matrix(data)":
            got, output = sub.get_model_matrix(df), parent_out
        elif entry == "spec.get_model_matrix(data, output=)":
            got = sub.get_model_matrix(df, output=output)
        elif entry == "model_matrix(spec, data, output=)":
            got = model_matrix(sub, df, output=output)
        elif entry == "Materializer(data).get_model_matrix(spec, output=)":
            got = PandasMaterializer(df).get_model_matrix(sub, output=output)
        elif entry == "spec.update(output=).get_model_matrix(data)":
            got = sub.update(output=output).get_model_matrix(df)
        else:
            got = model_matrix(sub.update(output=output), df)
    except Exception as e:  # noqa
        col.violation(key, dict(detail, error="%s: %s" % (type(e).__name__, str(e)[:300])), sig="subset-variant-raised:" + type(e).__name__)
        return
    col.interesting()
    G = dense(got)
    inner = getattr(got, "__wrapped__", got)
    kind = "pandas" if isinstance(inner, pd.DataFrame) else "sparse" if hasattr(inner, "toarray") else "numpy" if isinstance(inner, np.ndarray) else type(inner).__name__
    if kind != output:
        col.violation(key, dict(detail, container=kind, requested=output), sig="subset:wrong-output-container")
        return
    names = list(got.model_spec.column_names)
    if names != want_names:
        col.violation(key, dict(detail, names=names, parent_names=want_names), sig="subset:column-names-differ")
        return
    if G.shape != want.shape or not np.allclose(G, want, rtol=1e-12, atol=1e-12, equal_nan=True):
        col.violation(key, dict(detail, got=G.tolist(), parent_columns=want.tolist()), sig="subset:values-differ")
        return
    col.sample(detail)


def subchecks(tier, seed):
    fr = frames()
    quick = tier == "quick"
    fs = FORMULAS
    return [Sub("variants", drv, {"formulas": fs, "frames": ["clean", "nulls", "categorical-dtype"] if quick else ["clean", "nulls", "nulls-shuffled-index", "categorical-dtype"], "frame_objs": fr}, shard_depth=3,
                bounds={"formulas": fs, "frames": ["clean (6 rows)", "nulls (3 null cells)"], "variants_per_pair": 144}),
            Sub("variants-nullable-dtypes", drv, {"formulas": ["0 + n + a", "n + b", "0 + n:A + b", "a + A", "b:A"], "frames": ["nullable-dtypes"], "frame_objs": fr}, shard_depth=3,
                bounds={"formulas": ["0 + n + a", "n + b", "0 + n:A + b", "a + A", "b:A"], "frame": "Int64 / Float64 columns holding pandas.NA", "variants_per_pair": "as in 'variants'"}),
            # (frames without nulls only: a subset spec evaluates fewer factors and therefore legitimately drops fewer rows than its parent)
            Sub("subset-spec-variants", drv_subset, {"frames": ["clean", "categorical-dtype"], "frame_objs": fr},
                shard_depth=3, bounds={"parent_formulas": SUBSET_PARENTS, "kept_terms": "every non-empty proper subset of the parent's terms", "entries": SUBSET_ENTRIES,
                                       "outputs": "3 (parent) x 3 (requested)"})]
