"""C15 - lexing is whitespace-insensitive, quote-faithful and normalises Python code."""
import ast
import io
import re
import tokenize as pytokenize

from mc.explorer import Skip
from mc.runner import Sub
from models import lexer as LX
from models import wilkinson as W
from props.common import FLAG_SETS, parser_for, terms_to_plain

from formulaic.errors import FormulaicError, FormulaParsingError

RULE = (
    "(a) every reference-accepted token sentence up to the bound (C01's alphabet; plus grammar-generated sentences with "
    "back-ticked names, brace and call fragments and decimals as leaves) x every placement of {nothing, one space, "
    "tab+newline} at every token boundary where the reference lexer says the neighbours stay separate tokens "
    "({space, tab+newline} elsewhere), plus leading/trailing white space; (b) every name up to the length bound over 17 "
    "characters (operators, all bracket kinds, both quotes, %, ~, |, space, a non-ASCII letter, back-slash) back-ticked "
    "alone, as an operand of + : *, and inside call / brace Python fragments, parsed and materialized against a frame "
    "holding that column; (c) 55 Python expressions x every subset of their own token boundaries receiving a space (all "
    "single and pairwise insertions beyond 10 boundaries) x quote style x redundant parentheses, in brace and call form; "
    "(b') all Python keywords and every string up to length 2 (thorough 3) over 12 identifier-like characters (superscript "
    "digit, vulgar fraction, ligature, micro sign, full-width letter, combining accent, CJK, Arabic-Indic digit) as names, "
    "same forms, with the NFKC-folded name as a decoy column; (c') every string literal whose body is a sequence of up to 3 "
    "(thorough 4) atoms out of {letter, space, back-ticked word(s), lone back-tick, escaped own quote, other quote, escaped "
    "back-slash, ')', '}'} in both quote styles in five call/brace templates: literal contents (ast constants) must be "
    "preserved by parsing and received unchanged by the called function at materialization; "
    "(a') each of the 29 characters matched by \\s in the BMP alone at each boundary (and at all) of 13 sentences; (b'') 22 "
    "names that read like numeric literals in all seven forms, parsed and materialized without implicit intercept; "
    "(b3) 11 names made of / containing dots; (c3) every string literal of up to 2 (thorough 3) atoms as an argument inside "
    "stateful calls (center, scale, bs, C/Treatment), parsed, evaluated and re-applied through the fitted spec; "
    "(d) every string of C14's character enumerations that tokenizes.  Non-trivial = a variant that differs from the "
    "baseline rendering (a, c), a name containing a non-word character (b), a string with >= 2 tokens (d)."
)
ASSUMPTIONS = [
    "small-scope hypothesis: the tokenizer is a character-level state machine whose behaviour at a boundary depends on "
    "the two neighbouring token classes and the quote-context stack, all of which occur within the explored bounds",
    "which neighbours may be written without white space is decided by the independent reference lexer "
    "(models/lexer.py): conservative, i.e. 'nothing' is only tried where the documentation clearly keeps the tokens apart",
    "back-quoted names have no escapes: a back-slash inside back-ticks is an ordinary character of the name (as the rest of "
    "the code base, which matches `[^`]*`, already assumed; fixed in the tokenizer by 7acefaa)",
    "two Python fragments 'denote the same factor' iff the factor expressions are equal strings (Factor identity) and "
    "'normalised' means ast-equal to the original with back-ticked names as variables",
    "spans: only 'ordered, disjoint, inside the source, delimiting the text' is demanded; whether the span of a quoted "
    "token includes its delimiters is left open",
]

WS = ["", " ", "\t\n"]
AVAIL = ["a", "b", "c"]


# ---------------------------------------------------------------------------
# shared helpers

def get_terms(s, icpt=True, flags=FLAG_SETS[0], avail=None):
    ctx = {}
    if avail is not None:
        ctx["__formulaic_variables_available__"] = list(avail)
    return parser_for(icpt, flags).get_terms(s, context=ctx)


def parse_plain(s, icpt=True, avail=None):
    """('OK', nested term strings) | ('REJECT', exc) | ('ESCAPE', exc: msg)"""
    try:
        return ("OK", terms_to_plain(get_terms(s, icpt, avail=avail)))
    except FormulaParsingError as e:
        return ("REJECT", type(e).__name__)
    except Exception as e:  # noqa
        return ("ESCAPE", "%s: %s" % (type(e).__name__, str(e)[:80]))


_BASE = {}


def cached(key, fn):
    """one-entry memo of a pure function (the DFS keeps the same sentence for consecutive executions)"""
    if _BASE.get("k") != key:
        _BASE["k"], _BASE["v"] = key, fn()
    return _BASE["v"]


# ---------------------------------------------------------------------------
# (a) white space at token boundaries

def place(c, tokens, lead_trail, ws=None):
    """choose a white-space placement; returns the rendered string"""
    ws = ws or WS
    lt = [LX.lex_one(t) for t in tokens]
    out = []
    for i, t in enumerate(tokens):
        out.append(t)
        if i + 1 < len(tokens):
            out.append(c.pick(ws[1:] if LX.merges(lt[i], lt[i + 1]) else ws))
    lead, trail = c.pick(lead_trail)
    return lead + "".join(out) + trail


LT_FULL = [(l, t) for l in WS for t in WS]
LT_SHORT = [("", ""), (" ", "\t\n"), ("\t\n", " ")]


def check_ws(col, tag, tokens, variant, icpt, avail):
    base = " ".join(tokens)
    g0 = cached((base, icpt, tuple(avail or ())), lambda: parse_plain(base, icpt, avail))
    if g0[0] != "OK":
        col.count("baseline-not-accepted(C01's subject)")
        return
    if variant == base:
        col.count("baseline")
        return
    col.interesting()
    g1 = parse_plain(variant, icpt, avail)
    if g1 != g0:
        col.violation("%s :: %r vs %r icpt=%s" % (tag, variant, base, icpt),
                      {"variant": variant, "single_space_rendering": base, "include_intercept": icpt, "available": avail,
                       "got_variant": g1, "got_single_space": g0,
                       "repro": "DefaultFormulaParser(include_intercept=%r).get_terms(%r) vs .get_terms(%r)" % (icpt, variant, base)},
                      sig="whitespace-changes-parse")


def drv_ws_tokens(c, ctx, col):
    tokens = c.seq(ctx["sigma"], ctx["L"], ctx.get("Lmin", 0))
    avail = AVAIL if "." in tokens else None
    try:
        W.reference(tokens, include_intercept=True, avail=avail)
    except (W.Reject, W.Unspec):
        raise Skip()
    icpt = not c.flag() if len(tokens) <= ctx["both_icpt_upto"] else True
    variant = place(c, tokens, LT_FULL if len(tokens) <= 3 else (LT_SHORT if len(tokens) <= 4 else [("", "")]))
    check_ws(col, "ws-tokens", tokens, variant, icpt, avail)
    col.sample({"tokens": tokens, "variant": variant, "include_intercept": icpt})


# every character that the regular-expression class \\s matches in the Basic Multilingual Plane (enumerated at start-up)
WS_ALL = [chr(i) for i in range(0x10000) if re.match(r"\s", chr(i))]
WS_SENTENCES = [["y", "~", "a", "+", "b"], ["a", ":", "b", "-", "1"], ["a", "*", "(", "b", "+", "c", ")"], ["a", "**", "2"], ["b", "%in%", "a"],
                ["(", "a", "+", "b", ")", "/", "c"], ["`x y`", "+", "f(a)", "+", "{a+b}"], ["y", "~", "a", "|", "b"], [".", "-", "a"],
                ["0", "+", "a"], ["2.5", ":", "a"], ["~", "a"], ["a"]]


def drv_ws_unicode(c, ctx, col):
    """one white-space character of the full \\s class at one token boundary (or at all of them); single spaces elsewhere"""
    tokens = c.pick(WS_SENTENCES)
    w = c.pick(WS_ALL)
    nb = len(tokens) + 1                      # boundaries incl. before the first and after the last token
    where = c.upto(nb)                        # nb = every boundary
    out = []
    for i in range(nb):
        inner = 0 < i < len(tokens)
        here = where == nb or where == i
        sep = (w if here else (" " if inner else ""))
        out.append(sep)
        if i < len(tokens):
            out.append(tokens[i])
    variant = "".join(out)
    avail = AVAIL if "." in tokens else None
    try:
        W.reference(tokens, include_intercept=True, avail=avail)
    except (W.Reject, W.Unspec):
        raise AssertionError("harness: sentence %r is not reference-accepted" % (tokens,))
    check_ws(col, "ws-unicode U+%04X" % ord(w), tokens, variant, True, avail)
    col.sample({"tokens": tokens, "white_space": "U+%04X" % ord(w), "variant": ascii(variant)})


BIN = ["+", "-", ":", "*", "/", "%in%", "**"]


def gen_tree(c, k, leaves):
    if k == 0:
        return c.pick(leaves)
    op = c.pick(BIN)
    if op == "**":
        return (op, gen_tree(c, k - 1, leaves), "2")
    kl = c.upto(k - 1)
    return (op, gen_tree(c, kl, leaves), gen_tree(c, k - 1 - kl, leaves))


def render(t, parent=None, side=None):
    if isinstance(t, str):
        return [t]
    op, l, r = t
    inner = render(l, op, "L") + [op] + render(r, op, "R")
    if parent is None:
        return inner
    p, pp = W.PREC[op], W.PREC[parent]
    need = p < pp or (p == pp and ((parent in W.RIGHT and side == "L") or (parent not in W.RIGHT and side == "R")))
    return (["("] + inner + [")"]) if need else inner


def drv_ws_grammar(c, ctx, col):
    k = ctx["kmin"] + c.upto(ctx["k"] - ctx["kmin"])
    tree = gen_tree(c, k, ctx["leaves"])
    tokens = render(tree)
    shape = c.choose(ctx.get("shapes", 3))
    if shape == 1:
        tokens = ["y", "~"] + tokens
    elif shape == 2:
        tokens = tokens + ["|", "b"]
    try:
        W.reference(tokens, include_intercept=True, avail=None)
    except (W.Reject, W.Unspec):
        raise Skip()
    variant = place(c, tokens, LT_SHORT if ctx.get("lead_trail", True) else [("", "")], ctx.get("ws"))
    check_ws(col, "ws-grammar", tokens, variant, True, None)
    col.sample({"tokens": tokens, "variant": variant})


# ---------------------------------------------------------------------------
# (b) back-ticked names

NAME_CHARS = ["a", " ", "+", ":", "(", ")", "[", "]", "{", "}", "'", '"', "|", "~", "%", "\\", "é"]
VALS = [1.5, 2.5, 4.0]
ZZ = [3.0, 5.0, 7.0]
#         formula template            lookup factors      python expression   expected non-intercept columns
NAME_FORMS = [
    ("alone", "`%s`", lambda n: [[n]], None, lambda v, z: [v]),
    ("plus", "`%s` + zz", lambda n: [[n], ["zz"]], None, lambda v, z: [v, z]),
    ("colon", "zz:`%s`", lambda n: [["zz", n]], None, lambda v, z: [[a * b for a, b in zip(v, z)]]),
    ("star", "`%s`*zz", lambda n: [[n], ["zz"], [n, "zz"]], None, lambda v, z: [v, z, [a * b for a, b in zip(v, z)]]),
    ("call", "double(`%s`)", None, "double(`%s`)", lambda v, z: [[2 * a for a in v]]),
    ("brace", "{`%s` + 1}", None, "`%s` + 1", lambda v, z: [[a + 1 for a in v]]),
    ("brace-twice", "{`%s` * `%s`}", None, "`%s` * `%s`", lambda v, z: [[a * a for a in v]]),
]


def drv_names(c, ctx, col):
    name = "".join(c.seq(NAME_CHARS, ctx["L"], 1))
    form = c.pick(NAME_FORMS if len(name) < ctx["L"] or ctx["L"] < 3 else ctx["forms_longest"])
    if re.search(r"\W", name):
        col.interesting()
    check_name(col, name, form)


# names that are (or look like) Python identifiers but cannot be written as such ------------------------------
SPECIAL_CHARS = ["a", "_", "1", "\u00b2", "\u00bd", "\ufb01", "\u00b5", "\u00aa", "\uff41", "\u0301", "\u4e2d", "\u0661"]
#                 a    _    1    superscript 2, one half (alphanumeric, not identifier characters), fi ligature, micro sign,
#                 feminine ordinal, full-width a (identifiers that NFKC-normalise to something else), combining acute
#                 (e + it = decomposed e-acute), a CJK letter, an Arabic-Indic digit (both fine in identifiers)


def special_names(L):
    import itertools
    import keyword
    out = list(keyword.kwlist) + [k for k in getattr(keyword, "softkwlist", []) if k not in keyword.kwlist]
    for n in range(1, L + 1):
        for tup in itertools.product(SPECIAL_CHARS, repeat=n):
            out.append("".join(tup))
    return out


def drv_names_special(c, ctx, col):
    names = ctx["names"]
    name = names[c.choose(len(names))]
    form = c.pick(NAME_FORMS if len(name) < ctx["L"] or name.isascii() else ctx["forms_longest"])
    if re.fullmatch(r"[0-9]+", name):
        col.count("skipped:numeric-literal-name(K2 under C01)")
        raise Skip()
    col.interesting()
    check_name(col, name, form)


NUMERIC_NAMES = ["0", "1", "2", "00", "01", "10", "2.5", "0.0", ".5", "1.", "1e3", "1E-2", "0x1", "1_0", "1j", "-1", "+0", "1 ", " 0", "0 0",
                 "\u0661", "\uff10"]


def drv_names_numeric(c, ctx, col):
    """names that read like numeric literals; parsed and materialized WITHOUT the implicit intercept so that the known
    conflation of a name equal to a literal present in the same formula (K2 under C01) is not reported a second time"""
    name = c.pick(NUMERIC_NAMES)
    form = c.pick(NAME_FORMS)
    col.interesting()
    check_name(col, name, form, no_intercept=True)


DOT_NAMES = [".", "..", "a.", ".a", "a.b", " .", ". ", "a .", "1.", ".1", "._"]


def drv_names_dots(c, ctx, col):
    """column names made of / containing dots: a back-quoted name is a name, never the '.' wildcard.
    Plus the empty name: the library's rule is "back-quoted variable names must not be empty" (3890fe1, a54ee9e), so every
    form must be rejected with the parsing error -- in particular it must not vanish from the formula without a trace."""
    name = c.pick(DOT_NAMES + [""])
    form = c.pick(NAME_FORMS)
    col.interesting()
    if name == "":
        fname, tmpl = form[0], form[1]
        formula = tmpl.replace("%s", "")
        try:
            terms = get_terms(formula, icpt=False)
        except FormulaParsingError:
            col.count("empty-name-rejected")
            return
        except Exception as e:  # noqa
            col.violation("names/%s :: %r" % (fname, formula), {"formula": formula, "error": repr(e)}, sig="empty-backticked-name-not-rejected")
            return
        col.violation("names/%s :: %r" % (fname, formula),
                      {"formula": formula, "got_terms": terms_to_plain(terms), "want": "FormulaParsingError (back-quoted names must not be empty)",
                       "repro": "DefaultFormulaParser(include_intercept=False).get_terms(%r)" % formula},
                      sig="empty-backticked-name-not-rejected")
        return
    check_name(col, name, form, no_intercept=True)


def check_name(col, name, form, no_intercept=False):
    import unicodedata

    import pandas as pd
    from formulaic import model_matrix

    fname, tmpl, lookups, pyexpr, expect = form
    formula = tmpl.replace("%s", name)
    key = "names/%s :: %r" % (fname, formula)
    col.sample({"name": name, "formula": formula})

    # 1. parsed: the name is taken verbatim
    try:
        terms = get_terms(formula, icpt=False)
        got = [[(f.expr, f.eval_method.value) for f in t.factors] for t in terms.root]
    except Exception as e:  # noqa
        col.violation(key, {"formula": formula, "name": name, "error": "%s: %s" % (type(e).__name__, str(e)[:200]),
                            "repro": "DefaultFormulaParser(include_intercept=False).get_terms(%r)" % formula},
                      sig=name_sig(name, fname, "quoted-name-not-parsed"))
        return
    if lookups is not None:
        want = [[(f, "lookup") for f in t] for t in lookups(name)]
        ok = got == want
    else:
        want = pyexpr.replace("%s", name)
        ok = (len(got) == 1 and len(got[0]) == 1 and got[0][0][1] == "python"
              and LX.python_ast(got[0][0][0]) is not None and LX.python_ast(got[0][0][0]) == LX.python_ast(want))
    if not ok:
        col.violation(key, {"formula": formula, "name": name, "got_factors": got, "want": want,
                            "repro": "DefaultFormulaParser(include_intercept=False).get_terms(%r)" % formula},
                      sig=name_sig(name, fname, "quoted-name-not-verbatim"))
        return

    # 1b. the recorded span of the quoted name delimits it in the formula string
    if lookups is not None:
        from formulaic.parser.algos.tokenize import tokenize
        toks = [t for t in tokenize(formula) if t.kind is not None and t.kind.value == "name" and t.token == name]
        spans_ok = bool(toks) and all(isinstance(t.source_start, int) and isinstance(t.source_end, int)
                                      and name in formula[t.source_start:t.source_end + 1]
                                      and formula[t.source_start:t.source_end + 1].strip("`") == name for t in toks)
        if not spans_ok:
            col.violation(key, {"formula": formula, "name": name, "tokens": [(t.token, t.source_start, t.source_end) for t in tokenize(formula)],
                                "repro": "[(t.token, t.source_start, t.source_end) for t in tokenize(%r)]" % formula},
                          sig=name_sig(name, fname, "quoted-name-span-does-not-delimit-it"))
            return

    # 2. materialized: the factor picks that column
    data = {name: VALS, "zz": ZZ, "other": [9.0, 8.0, 7.0]}
    folded = unicodedata.normalize("NFKC", name)
    if folded not in data:
        data[folded] = [-1.0, -2.0, -3.0]   # a different column that the name must not be confused with
    df = pd.DataFrame(data)
    try:
        if no_intercept:
            from formulaic import Formula
            mm = Formula(formula, _parser=parser_for(False)).get_model_matrix(df, context={"double": lambda x: 2 * x})
        else:
            mm = model_matrix(formula, df, context={"double": lambda x: 2 * x})
        cols = [[round(float(x), 9) for x in mm.iloc[:, j]] for j in range(mm.shape[1]) if mm.columns[j] != "Intercept"]
    except Exception as e:  # noqa
        col.violation(key, {"formula": formula, "name": name, "columns_in_data": list(data),
                            "error": "%s: %s" % (type(e).__name__, str(e)[:300]),
                            "repro": "model_matrix(%r, pandas.DataFrame({%r: [1.5, 2.5, 4.0], 'zz': [3., 5., 7.]}), context={'double': lambda x: 2 * x})" % (formula, name)},
                      sig=name_sig(name, fname, "quoted-name-not-materialized"))
        return
    wantcols = [[round(float(x), 9) for x in v] for v in expect(VALS, ZZ)]
    if sorted(cols) != sorted(wantcols):
        col.violation(key, {"formula": formula, "name": name, "got_columns": cols, "want_columns": wantcols, "columns_in_data": list(data),
                            "repro": "model_matrix(%r, pandas.DataFrame({%r: [1.5, 2.5, 4.0], 'zz': [3., 5., 7.]}), context={'double': lambda x: 2 * x})" % (formula, name)},
                      sig=name_sig(name, fname, "quoted-name-wrong-column"))


def name_sig(name, form, symptom):
    """group by symptom, the kind of form (plain operand / inside Python code) and the character class responsible"""
    import keyword
    import unicodedata
    where = "in-python-fragment" if form in ("call", "brace", "brace-twice") else "as-operand"
    if name == "." and where == "as-operand":
        return "backticked-dot-read-as-wildcard-operator"
    if re.fullmatch(r"\s*[-+]?(\d[\d_]*\.?\d*|\.\d+)([eE][-+]?\d+)?j?\s*|0x[0-9a-f]+|\d+ \d+", name):
        return "%s:%s[name-reads-like-a-numeric-literal]" % (symptom, where)
    # one signature per class of name that cannot be spelled as a Python identifier although it looks like one
    if where == "in-python-fragment":
        if keyword.iskeyword(name):
            return "backticked-name-in-python-fragment:python-keyword"
        if any(re.match(r"\w", ch) and not ("a" + ch).isidentifier() for ch in name):
            return "backticked-name-in-python-fragment:alphanumeric-character-not-valid-in-identifiers"
        if unicodedata.normalize("NFKC", name) != name:
            return "backticked-name-in-python-fragment:identifier-changed-by-NFKC-normalisation"
    feats = []
    if "'" in name or '"' in name:
        feats.append("quote")
    if not name.strip():
        feats.append("blank")
    return "%s:%s%s" % (symptom, where, ("[" + "+".join(feats) + "]") if feats else "")


# ---------------------------------------------------------------------------
# (c) Python fragments and their re-formattings

#  expression, usable in bare call form (one <word>(...) / <word>[...] token)
PY_EXPRS = [
    ("f(x)", True), ("f(x, y)", True), ("f(x, \"a b\")", True), ("f(x, \"a)b\")", True), ("f(x, \"a(b\")", True),
    ("f(x, \"a]b\")", True), ("f(\"[\", x)", True), ("f(\"{\")", True), ("f(\"}\")", True), ("f(x, 'it\"s')", True),
    ("f(x, \"it's\")", True), ("f(x, \"a+b~c|d:e\")", True), ("f(x, \"`\")", True), ("f(g(x), h(y, z))", True),
    ("f(x)[0]", True), ("x[0]", True), ("x[\"a\"]", True), ("x[1:2]", True), ("d[\"k\"][\"j\"]", True),
    ("f(x, k=1)", True), ("f(x, key=\"v\", other=[1, 2])", True), ("f(*args, **kw)", True), ("np.log(x)", True),
    ("a.b.c(x, 1)", True), ("f(x if y else z)", True), ("f(lambda t: t + 1, x)", True), ("f(`a b`)", True),
    ("f(`a b`, `c+d`)", True), ("f(`a b c`, `a b`)", True), ("f(`a b`, `a+b`)", True), ("f([1, 2], (3, 4))", True),
    ("f({1: 2})", True), ("f({1, 2})", True), ("f(x ** 2, -y)", True), ("f(not x, y > 1)", True), ("f(x == \"a\")", True),
    ("f(1e3, 0x10)", True), ("f(x, \"é\")", True), ("f(\"a\\\"b\")", True), ("f(x)(y)", True), ("f(f\"{x}\")", True),
    ("x if y else z", False), ("x + y", False), ("(x + y) * 2", False), ("x[0] + y.z", False), ("[t for t in x]", False),
    ("{k: v for k, v in x}", False), ("not x", False), ("x if y else \"a}b\"", False), ("`a b` + `c`", False),
    ("{1: 2}[x]", False), ("lambda: x", False), ("exp(`x`)", True), ("f(`a`, max, b)", True), ("`x` + exp(y)", False),
    ("x in `a b`", False), ("`a b` if x else 0", False), ("not `a b`", False), ("[v * 2 for v in `a b`]", False),
    ("`a b` and x or `c d`", False), ("x if `a b` else `c d`", False), ("`a b` is not None", False), ("lambda v: v in `a b`", False),
    ("`a b` in `c d`", False), ("f(x in `a b`, not `c d`)", True), ("f(`a b` if `c` else `d e`)", True), ("f(v for v in `a b` if v)", True),
    ("f(x, TQa bTQ)".replace("TQ", "'" * 3), True), ('f(x, """a b""")', True), ("f(x, TQa'bTQ)".replace("TQ", "'" * 3), True),
    ('f(x, """a"b""")', True), ("f(x, TQa\"bTQ)".replace("TQ", "'" * 3), True),
]
OPCH = set("+-*/%@&|^~<>=!.:")


def py_tokens(expr):
    """Python tokens of the expression with back-ticked names treated as identifiers -> list of token strings
    (back-ticks restored) and the white space originally present between neighbours"""
    src, names = LX.alias_backticks(expr)
    src = src.strip()
    toks, fdepth, fstart = [], 0, None
    for t in pytokenize.generate_tokens(io.StringIO(src).readline):
        if t.type in (pytokenize.NEWLINE, pytokenize.NL, pytokenize.ENDMARKER, pytokenize.INDENT, pytokenize.DEDENT):
            continue
        # an f-string is one atom (Python >= 3.12 tokenizes its parts separately)
        if t.type == getattr(pytokenize, "FSTRING_START", -1):
            if fdepth == 0:
                fstart = t.start[1]
            fdepth += 1
            continue
        if t.type == getattr(pytokenize, "FSTRING_END", -1):
            fdepth -= 1
            if fdepth == 0:
                toks.append((pytokenize.STRING, src[fstart:t.end[1]], fstart, t.end[1]))
            continue
        if fdepth:
            continue
        toks.append((t.type, t.string, t.start[1], t.end[1]))
    strings, gaps = [], []
    for i, (ty, st, a, b) in enumerate(toks):
        strings.append(("`%s`" % names[st]) if st in names else st)
        if i + 1 < len(toks):
            gaps.append(toks[i + 1][2] > b)
    kinds = [ty for ty, _, _, _ in toks]
    return strings, kinds, gaps


def needs_space(l, r, had_space):
    """must the two Python tokens stay separated in the minimal rendering?"""
    if not had_space:
        return False
    a, b = l[-1], r[0]
    wordish = lambda ch: ch.isalnum() or ch in "_\"'"   # (a back-tick delimits itself: x in`a b` is fine)
    if wordish(a) and wordish(b):
        return True
    if a in OPCH and b in OPCH:
        return True
    if (a.isdigit() and b == ".") or (a == "." and b.isdigit()):
        return True
    return False


class PyCase:
    def __init__(self, expr, bare_ok):
        self.expr, self.bare_ok = expr, bare_ok
        self._variants = {}
        self.toks, self.kinds, gaps = py_tokens(expr)
        self.fixed = [needs_space(self.toks[i], self.toks[i + 1], gaps[i]) for i in range(len(gaps))]
        depth, self.depth_at = 0, []   # bracket depth at the boundary after token i
        for t in self.toks[:-1]:
            if t in ("(", "[", "{"):
                depth += 1
            elif t in (")", "]", "}"):
                depth -= 1
            self.depth_at.append(depth)
        self.strings = [t for t, k in zip(self.toks, self.kinds) if k == pytokenize.STRING]
        self.ast = LX.python_ast(expr)
        feats = []
        if any(ch in s[1:-1] for s in self.strings for ch in "()[]{}`"):
            feats.append("bracket-or-backtick-inside-string-literal")
        if any(s[:3] in ("'" * 3, '"' * 3) and s[0] in s[3:-3] for s in self.strings):
            feats.append("triple-quoted-literal-containing-its-own-quote-character")
        self.feats_common = feats
        d, top_brace = 0, False
        for t in self.toks:
            if t == "{" and d == 0:
                top_brace = True
            if t in ("(", "[", "{"):
                d += 1
            if t in (")", "]", "}"):
                d -= 1
        self.top_brace = top_brace
        self.n_backticked = len({t for t in self.toks if t.startswith("`")})

    def free(self, form):
        """boundaries that may receive a space in this form"""
        out = []
        for i in range(len(self.toks) - 1):
            if self.fixed[i]:
                continue
            if form == "bare" and self.depth_at[i] < 1:
                continue
            out.append(i)
        return out

    def render(self, spaces, toks=None):
        toks = toks or self.toks
        out = []
        for i, t in enumerate(toks):
            out.append(t)
            if i + 1 < len(toks) and (self.fixed[i] or i in spaces):
                out.append(" ")
        return "".join(out)

    def swapped(self):
        """all string literals written with the other quote character (where that needs no escaping)"""
        out, changed = [], False
        for t, k in zip(self.toks, self.kinds):
            if k == pytokenize.STRING and t[0] in "'\"" and t[0] == t[-1] and len(t) >= 2 and not t.startswith(t[0] * 3):
                body, other = t[1:-1], ("'" if t[0] == '"' else '"')
                if "'" not in body and '"' not in body and "\\" not in body:
                    out.append(other + body + other)
                    changed = True
                    continue
            out.append(t)
        return out if changed else None

    def variant_case(self, kind, form):
        """the same expression with the other quote style / with redundant parentheses, as a PyCase of its own"""
        k = (kind, form)
        if k not in self._variants:
            if kind == "quotes":
                toks = self.swapped()
            elif form == "brace":
                toks = ["("] + self.toks + [")"]
            else:
                toks = wrap_first_argument(self)
            if toks is None:
                self._variants[k] = None
            else:
                src = "".join(t + (" " if i + 1 < len(toks) and needs_space(t, toks[i + 1], True) else "") for i, t in enumerate(toks))
                vc = PyCase(src, self.bare_ok)
                if vc.ast != self.ast:
                    raise AssertionError("rewriting %r as %r changes its meaning" % (self.expr, src))
                self._variants[k] = vc
        return self._variants[k]

    def sig(self, form, symptom, baseline_fails=True):
        if not baseline_fails:   # only a re-formatting fails: name the symptom, not a feature of the expression
            return "python-fragment:" + symptom
        if self.feats_common:
            return "python-fragment:" + self.feats_common[0]
        if form == "brace" and self.top_brace:
            return "python-fragment:brace-directly-inside-brace-fragment"
        if self.n_backticked >= 1 and symptom == "not-ast-equivalent":
            return "python-fragment:backticked-names-not-restored-faithfully"
        return "python-fragment:" + symptom


_CASES = {}


def pycase(i):
    if i not in _CASES:
        _CASES[i] = PyCase(*PY_EXPRS[i])
    return _CASES[i]


def factor_of(formula):
    """('OK', expr) | ('REJECT'|'ESCAPE'|'SHAPE', description)"""
    try:
        terms = get_terms(formula, icpt=False)
    except FormulaParsingError as e:
        return ("REJECT", "%s: %s" % (type(e).__name__, str(e).split("\n")[0][:120]))
    except Exception as e:  # noqa
        return ("ESCAPE", "%s: %s" % (type(e).__name__, str(e)[:120]))
    fs = [[(f.expr, f.eval_method.value) for f in t.factors] for t in terms.root] if hasattr(terms, "root") else None
    if not fs or len(fs) != 1 or len(fs[0]) != 1 or fs[0][0][1] != "python":
        return ("SHAPE", repr(terms_to_plain(terms)))
    return ("OK", fs[0][0][0])


def drv_python(c, ctx, col):
    idx = c.choose(len(PY_EXPRS))
    case = pycase(idx)
    form = c.pick(["brace", "bare"])
    if form == "bare" and not case.bare_ok:
        raise Skip()
    kind = c.pick(["spacing", "quotes", "parens"])
    # the token list that is re-spaced: the expression itself, its quote-swapped or its parenthesised rewriting
    if kind == "spacing":
        shown = case
    elif kind == "quotes":
        shown = case.variant_case("quotes", form)
    else:
        shown = case.variant_case("parens", form)
    if shown is None:
        raise Skip()
    free = shown.free(form)
    nb = len(free) + (2 if form == "brace" else 0)   # brace form: also just inside the braces
    if kind != "spacing":
        chosen = list(range(nb)) if c.flag() else []
    elif nb <= ctx["subset_bound"]:
        chosen = [j for j in range(nb) if c.flag()]
    else:
        i = c.upto(nb)           # 0 = none (or all), else boundary i-1 and optionally a second one
        chosen = []
        if i > 0:
            chosen = sorted({i - 1, i - 1 + c.upto(nb - i)})
        elif c.flag():
            chosen = list(range(nb))
    body = shown.render({free[j] for j in chosen if j < len(free)})
    if form == "brace":
        variant = "{" + (" " if len(free) in chosen else "") + body + (" " if len(free) + 1 in chosen else "") + "}"
        base = "{" + case.render(set()) + "}"
    else:
        variant, base = body, case.render(set())
    g0 = cached(("py", idx, form), lambda: factor_of(base))
    g1 = g0 if variant == base else factor_of(variant)
    if variant != base:
        col.interesting()
    key = "python/%s/%s :: %r (baseline %r)" % (form, kind, variant, base)
    detail = lambda **k: dict({"expression": case.expr, "variant": variant, "baseline": base, "got_variant": g1, "got_baseline": g0,
                               "repro": "DefaultFormulaParser(include_intercept=False).get_terms(%r)" % variant}, **k)
    col.sample({"expression": case.expr, "variant": variant})
    base_ok = g0[0] == "OK" and LX.python_ast(g0[1]) == case.ast
    if not base_ok and variant != base:
        # the expression already fails in its plainest rendering: that is reported once (on the baseline), not per variant
        col.count("variant-of-an-already-failing-baseline")
        return
    if g1[0] != "OK":
        col.violation(key, detail(), sig=case.sig(form, "valid-fragment-" + {"REJECT": "rejected", "ESCAPE": "raises", "SHAPE": "not-one-factor"}[g1[0]], variant == base))
        return
    if LX.python_ast(g1[1]) != case.ast:
        col.violation(key, detail(want_ast_of=case.expr), sig=case.sig(form, "not-ast-equivalent", variant == base))
        return
    if g0[0] == "OK" and g1[1] != g0[1]:
        col.violation(key, detail(), sig=case.sig(form, "variants-differ", variant == base))


# string literals inside Python fragments --------------------------------------------------------------------------

#  pieces of a literal's body; q = the literal's own quote character, Q = the other one
LIT_ATOMS = ["a", " ", "`x`", "`a b`", "`", "\\q", "Q", "\\\\", ")", "}"]
LIT_TEMPLATES = [
    ("lab(x, %s)", True),                      # materialized: lab receives the literal
    ("lab(%s, `a b`)", False),
    ("{lab(%s) + `a b`}", False),
    ("lab(%s, '`x`')", False),                 # a later literal that contains back-quotes
    ("{lab(x, %s) + lab(`a b`, \"`x`\")}", True),
]


#  stateful callees: the literal travels through the generated code that threads transform state
STATEFUL_TEMPLATES = ["center(lab(x, %s))", "scale(lab(x, %s))", "bs(lab(x, %s), df=4, extrapolation='clip')", "C(g, Treatment(%s))", "{center(lab(x, %s)) + 1}",
                      "center(lab(`a b`, %s))"]


def drv_py_strings_stateful(c, ctx, col):
    """string literals (quotes, back-slashes, back-ticks, brackets inside) as arguments within STATEFUL transforms:
    parsed content preserved, evaluated (the callee receives the content), and the fitted spec re-applied to new data"""
    import numpy as np
    import pandas as pd
    from formulaic import model_matrix

    q = c.pick(["'", '"'])
    Q = '"' if q == "'" else "'"
    body = "".join(a.replace("q", q).replace("Q", Q) if a in ("\\q", "Q") else a for a in c.seq(LIT_ATOMS, ctx["L"]))
    lit = q + body + q
    content = ast.literal_eval(lit)
    tmpl = c.pick(STATEFUL_TEMPLATES)
    formula = tmpl % lit
    inner = formula[1:-1] if formula.startswith("{") else formula
    if "\\" in body or "'" in body or '"' in body:
        col.interesting()
    key = "py-strings-stateful :: %r" % formula
    col.sample({"formula": formula, "literal_content": content})
    detail = {"formula": formula, "literal": lit, "literal_content": content,
              "repro": "model_matrix(%r, DataFrame({'x': [1.5, 2.5, 4.0, 6.0, 7.5], 'a b': ..., 'g': [%r, 'zz-other', ...]}), "
                       "context={'lab': lambda x, s: x})" % (formula, content)}
    got = factor_of(formula)
    if got[0] != "OK" or string_constants(got[1]) != string_constants(inner) or LX.python_ast(got[1]) != LX.python_ast(inner):
        col.violation(key, dict(detail, got=got), sig="string-literal-in-stateful-call:not-parsed-verbatim")
        return
    seen = []

    def lab(x, s):
        seen.append(s)
        return x

    xs = [1.5, 2.5, 4.0, 6.0, 7.5]
    g = [content, "zz-other", content, "zz-other", "zz-other"]
    df = pd.DataFrame({"x": xs, "a b": [v + 1 for v in xs], "g": pd.Series(g, dtype=object)})
    try:
        mm = model_matrix(formula, df, context={"lab": lab})
        df2 = df.assign(x=df["x"] + 10, **{"a b": df["a b"] + 10})
        mm2 = mm.model_spec.get_model_matrix(df2, context={"lab": lab})
    except Exception as e:  # noqa
        col.violation(key, dict(detail, error="%s: %s" % (type(e).__name__, str(e)[:300])), sig="string-literal-in-stateful-call:not-evaluated")
        return
    if "lab(" in formula and set(seen) != {content}:
        col.violation(key, dict(detail, literals_received=seen), sig="string-literal-in-stateful-call:content-changed")
        return
    cols = [mm.iloc[:, j].to_numpy(dtype=float) for j in range(mm.shape[1]) if mm.columns[j] != "Intercept"]
    cols2 = [mm2.iloc[:, j].to_numpy(dtype=float) for j in range(mm2.shape[1]) if mm2.columns[j] != "Intercept"]
    src = np.array([v + 1 for v in xs] if "`a b`" in formula else xs)
    ok = True
    if tmpl.startswith(("center(", "{center(")):
        off = 1.0 if tmpl.startswith("{") else 0.0
        ok = (len(cols) == 1 and np.allclose(cols[0], src - src.mean() + off)
              and len(cols2) == 1 and np.allclose(cols2[0], src + 10 - src.mean() + off))      # state (the mean) is re-used
    elif tmpl.startswith("scale("):
        ok = len(cols) == 1 and np.allclose(cols[0], (src - src.mean()) / src.std(ddof=1)) and \
            len(cols2) == 1 and np.allclose(cols2[0], (src + 10 - src.mean()) / src.std(ddof=1))
    elif tmpl.startswith("C("):
        ind = np.array([0.0 if v == content else 1.0 for v in g])
        ok = len(cols) == 1 and np.allclose(cols[0], ind) and len(cols2) == 1 and np.allclose(cols2[0], ind)
    else:  # bs: a basis of 4 columns whose rows sum to one minus the dropped part; only shape and finiteness
        ok = len(cols) == 4 and all(np.isfinite(v).all() for v in cols) and len(cols2) == 4
    if not ok:
        col.violation(key, dict(detail, got_columns=[v.tolist() for v in cols], got_columns_on_new_data=[v.tolist() for v in cols2]),
                      sig="string-literal-in-stateful-call:wrong-values")


def string_constants(code):
    """contents of all string literals of a Python expression, in order (back-ticked names aliased first)"""
    src, _ = LX.alias_backticks(code)
    if src is None:
        return None
    try:
        tree = ast.parse(src.strip(), mode="eval")
    except SyntaxError:
        return None
    return [n.value for n in ast.walk(tree) if isinstance(n, ast.Constant) and isinstance(n.value, str)]


def lit_sig(formula, symptom, triple_lone=False):
    """one signature per known root cause"""
    if triple_lone:
        return "string-literal-in-python-fragment:triple-quoted-literal-containing-a-lone-quote-of-its-own-kind"
    if re.search(r"\\\\[\"']", formula):
        return "string-literal-in-python-fragment:escaped-backslash-before-a-quote"
    return "string-literal-in-python-fragment:" + symptom


def drv_py_strings(c, ctx, col):
    q = c.pick(["'", '"', "'''", '"""'])          # single- and triple-quoted literals
    q1 = q[0]
    Q = '"' if q1 == "'" else "'"
    atoms = LIT_ATOMS + (["q1"] if len(q) == 3 else [])   # inside a triple-quoted literal a lone quote of its own kind is legal
    chosen = c.seq(atoms, ctx["L"])
    triple_lone = "q1" in chosen
    body = "".join({"\\q": "\\" + q1, "Q": Q, "q1": q1}.get(a, a) for a in chosen)
    lit = q + body + q
    tmpl, materialize = c.pick(LIT_TEMPLATES)
    formula = tmpl % lit
    inner = formula[1:-1] if formula.startswith("{") else formula
    want_ast, want_strings = LX.python_ast(inner), string_constants(inner)
    if want_ast is None:
        if len(q) == 3 and "q1" in atoms:
            col.count("skipped:not-a-valid-triple-quoted-literal")   # e.g. the body ends in a lone quote of its own kind
            raise Skip()
        raise AssertionError("harness: %r is not valid Python" % inner)
    if "\\" in body or "`" in body:
        col.interesting()
    key = "py-strings :: %r" % formula
    col.sample({"formula": formula, "literal_content": ast.literal_eval(lit)})
    got = factor_of(formula)
    detail = {"formula": formula, "literal": lit, "literal_content": ast.literal_eval(lit), "got": got,
              "repro": "DefaultFormulaParser(include_intercept=False).get_terms(%r)" % formula}
    if got[0] != "OK":
        col.violation(key, detail, sig=lit_sig(formula, "not-parsed", triple_lone))
        return
    got_strings = string_constants(got[1])
    if got_strings != want_strings:
        col.violation(key, dict(detail, got_literal_contents=got_strings, want_literal_contents=want_strings),
                      sig=lit_sig(formula, "content-changed", triple_lone))
        return
    if LX.python_ast(got[1]) != want_ast:
        col.violation(key, detail, sig=lit_sig(formula, "not-ast-equivalent", triple_lone))
        return
    if not materialize:
        return
    # evaluated: the function receives exactly the literal's content
    import pandas as pd
    from formulaic import model_matrix
    seen = []

    def lab(x, s):
        seen.append(s)
        return x

    try:
        model_matrix(formula, pd.DataFrame({"x": VALS, "a b": ZZ}), context={"lab": lab})
    except Exception as e:  # noqa
        col.violation(key, dict(detail, error="%s: %s" % (type(e).__name__, str(e)[:300])), sig=lit_sig(formula, "not-evaluated", triple_lone))
        return
    want_seen = [ast.literal_eval(lit)] + (["`x`"] if "lab(`a b`" in formula else [])
    if sorted(set(seen)) != sorted(set(want_seen)):
        col.violation(key, dict(detail, literals_received=seen, literals_expected=want_seen,
                                repro="model_matrix(%r, DataFrame({'x': ..., 'a b': ...}), context={'lab': lambda x, s: (print(repr(s)), x)[1]})" % formula),
                      sig=lit_sig(formula, "content-changed", triple_lone))


# evaluated fragments whose callee / attribute base is not a plain name ---------------------------------------------

#   expression, usable in bare (call-style) form
EVAL_EXPRS = [
    ("(a + b).abs()", False), ("(a - a.mean()).abs()", False), ("a[0].real", False), ("fs[0](a)", True), ("np.abs(a - b).max()", False),
    ("g(a)(b)", True), ("(a * 2).clip(0, 3)", False), ("a.abs().max()", False), ("(lambda v: v + 1)(a)", False), ("[a, b][0]", False),
    ("{'k': a}['k']", False), ("(a if True else b)", False), ("np.where(a > b, a, b)", True), ("(-a).abs()", False), ("d['k'](a)", True),
    ("ns.f(a)", True), ("ns.fs[0](a)", True), ("(`a b` + b).abs()", False), ("fs[1](a - b)", True), ("(a + b).abs().clip(0, 2).round()", False),
    ("a.abs().values[::-1]", False), ("(a.abs() + b.abs()).pow(2)", False), ("np.abs(a)[::-1]", True), ("g(a)(b).abs()", False),
    ("(a, b)[1]", False), ("a.to_numpy().real", False), ("(a @ b) * a", False), ("fs[0](a)[0]", True), ("g(`a b`)(fs[0](b))", True),
    ("(a + b).abs().max() - (a - b).abs().min()", False), ("fs[0](`a b` - a.mean()).max()", False), ("(a > 0).astype(float).mean()", False),
    ("np.abs(a - b)", True), ("a.abs()", True), ("a + b", False),
    # a back-quoted name written directly against a keyword / word operator
    ("np.array([v * 2 for v in`a b`])", True), ("`a b`if True else b", False), ("b if False else`a b`", False), ("0 or`a b`", False), ("1 and`a b`", False),
    ("`a b`is not None", False), ("np.array([v in`a b`.values for v in a.abs() + 2.5], dtype=float)", False), ("(lambda v: v)(b)if False else`a b`", False),
    ("np.where([not v for v in`a b`> 4], a, b)", True), ("g(1 if`a b`is None else`a b`)(b)", True),
]
EVAL_POSITIONS = ["%s", "%s + b", "b + %s", "%s:b", "y ~ %s", "%s - 1"]
EVAL_A, EVAL_B, EVAL_AB, EVAL_Y = [1.5, -2.5, 4.0, -0.5], [2.0, 1.0, -3.0, 0.5], [3.0, 4.0, 5.0, 6.0], [0.0, 1.0, 0.0, 1.0]


def drv_py_eval(c, ctx, col):
    import numpy as np
    import pandas as pd
    from formulaic import model_matrix

    expr, bare_ok = c.pick(EVAL_EXPRS)
    bare = c.flag()
    if bare and not bare_ok:
        raise Skip()
    pos = c.pick(EVAL_POSITIONS)
    frag = expr if bare else "{" + expr + "}"
    formula = pos % frag
    df = pd.DataFrame({"a": EVAL_A, "b": EVAL_B, "a b": EVAL_AB, "y": EVAL_Y})
    ns = type("NS", (), {"f": staticmethod(np.abs), "fs": [np.abs]})()
    env = {"fs": [np.abs, np.sign], "g": lambda u: (lambda v: u * v), "d": {"k": np.abs}, "ns": ns}
    # the value computed by plain Python / pandas
    plain = dict(env, np=np, a=df["a"], b=df["b"], ab__=df["a b"])
    want = np.broadcast_to(np.asarray(eval(expr.replace("`a b`", " ab__ "), plain), dtype=float), (4,))
    bcol = np.array(EVAL_B)
    expect = {"%s": [want], "%s + b": [want, bcol], "b + %s": [want, bcol], "%s:b": [want * bcol], "y ~ %s": [want], "%s - 1": [want]}[pos]
    col.interesting()
    key = "py-eval :: %r" % formula
    col.sample({"formula": formula})
    detail = {"formula": formula, "expression": expr, "want_columns": [v.tolist() for v in expect],
              "repro": "model_matrix(%r, DataFrame({'a': %r, 'b': %r, 'a b': %r, 'y': %r}), context={'fs': [np.abs, np.sign], "
                       "'g': lambda u: (lambda v: u * v), 'd': {'k': np.abs}, 'ns': <object with f=np.abs, fs=[np.abs]>})"
                       % (formula, EVAL_A, EVAL_B, EVAL_AB, EVAL_Y)}
    try:
        mm = model_matrix(formula, df, context=env)
        rhs = mm.rhs if pos.startswith("y ~") else mm
        again = rhs.model_spec.get_model_matrix(df, context=env)
    except Exception as e:  # noqa
        col.violation(key, dict(detail, error="%s: %s" % (type(e).__name__, str(e)[:300])), sig="valid-fragment-not-evaluated:" + type(e).__name__)
        return
    # the data columns the fragment reads are reported as required (a materializer may hand over only those)
    src, names = LX.alias_backticks(expr)
    tree = ast.parse(src.strip(), mode="eval")
    bases = {id(n.value) for n in ast.walk(tree) if isinstance(n, ast.Attribute)}   # `a` in a.abs(): K3 of C17, not judged here
    used = {names.get(n.id, n.id) for n in ast.walk(tree) if isinstance(n, ast.Name) and id(n) not in bases} & {"a", "b", "a b"}
    reported = {str(v) for v in rhs.model_spec.required_variables}
    if not used <= reported:
        col.violation(key, dict(detail, columns_read=sorted(used), required_variables_reported=sorted(reported)),
                      sig="columns-read-by-fragment-not-reported-as-required")
        return
    for which, m in (("", rhs), ("-on-reapplying-the-spec", again)):
        cols = [m.iloc[:, j].to_numpy(dtype=float) for j in range(m.shape[1]) if m.columns[j] != "Intercept"]
        ok = len(cols) == len(expect) and all(any(np.allclose(v, w) for v in cols) for w in expect)
        if not ok:
            col.violation(key, dict(detail, got_columns=[v.tolist() for v in cols]), sig="fragment-evaluates-to-wrong-values" + which)
            return


def wrap_first_argument(case):
    """tokens with the first positional argument / subscript of the first bracket wrapped in parentheses"""
    toks = case.toks
    try:
        o = next(i for i, t in enumerate(toks) if t in ("(", "["))
    except StopIteration:
        return None
    depth, j = 0, o + 1
    while j < len(toks):
        t = toks[j]
        if depth == 0 and t in (",", ")", "]"):
            break
        if t in ("(", "[", "{"):
            depth += 1
        if t in (")", "]", "}"):
            depth -= 1
        j += 1
    arg = toks[o + 1:j]
    d, top = 0, []
    for t in arg:
        if t in (")", "]", "}"):
            d -= 1
        if d == 0:
            top.append(t)
        if t in ("(", "[", "{"):
            d += 1
    if not arg or arg[0] in ("*", "**") or (len(arg) >= 2 and arg[1] == "=") or ":" in top or "for" in top:
        return None
    return toks[:o + 1] + ["("] + arg + [")"] + toks[j:]


# ---------------------------------------------------------------------------
# (d) spans

def drv_spans(c, ctx, col):
    from formulaic.parser.algos.tokenize import tokenize

    s = "".join(c.seq(ctx["alphabet"], ctx["L"], ctx.get("Lmin", 0)))
    try:
        toks = list(tokenize(s))
    except FormulaParsingError:
        col.count("does-not-tokenize")
        toks = None
    except Exception as e:  # noqa  (C14's subject)
        col.count("tokenizer-raises-" + type(e).__name__)
        toks = None
    key = "spans :: %r" % s
    if toks is not None:
        if len(toks) >= 2:
            col.interesting()
        col.sample({"source": s, "tokens": [(t.token, t.source_start, t.source_end) for t in toks]})
        prev = -1
        for t in toks:
            st, en = t.source_start, t.source_end
            info = {"source": s, "token": t.token, "kind": t.kind.value if t.kind else None, "source_start": st, "source_end": en,
                    "all_tokens": [(x.token, x.source_start, x.source_end) for x in toks],
                    "repro": "[(t.token, t.source_start, t.source_end) for t in tokenize(%r)]" % s}
            if not (isinstance(st, int) and isinstance(en, int) and 0 <= st <= en < len(s)):
                col.violation(key, info, sig="span-outside-source")
                break
            stale = isinstance(st, int) and s[st:st + 2] in ("{}", "``", "%%") and bool(t.token)
            if st <= prev:
                col.violation(key, info, sig="span-starts-at-preceding-empty-quotes" if stale else "spans-overlap-or-out-of-order")
                break
            prev = en
            piece = s[st:en + 1]
            if piece[0] in "`{%":  # a quoted token: the span starts at the opening delimiter
                if t.token not in piece:
                    col.violation(key, info, sig="span-starts-at-preceding-empty-quotes" if stale else "quoted-span-does-not-contain-text")
                    break
            elif "".join(piece.split()) != "".join(t.token.split()):
                col.violation(key, info, sig="span-does-not-delimit-text")
                break
    # the highlighted context of a parsing error is the source with two markers inserted
    if len(s) > ctx.get("context_upto", 99):
        return
    try:
        get_terms(s)
    except FormulaParsingError as e:
        msg = str(e)
        if "⧛" in msg:
            shown = re.sub(r"\x1b\[[0-9;]*m", "", msg.split("\n\n", 1)[-1] if "\n\n" in msg else msg)
            if s.strip() and shown.replace("⧛", "").replace("⧚", "") != s and not shown.replace("⧛", "").replace("⧚", "").endswith(s):
                col.violation("error-context :: %r" % s, {"source": s, "message": msg, "repro": "DefaultFormulaParser().get_terms(%r)" % s},
                              sig="error-context-is-not-the-source")
            col.count("error-contexts-checked")
    except Exception:  # noqa  (C14's subject)
        pass


# ---------------------------------------------------------------------------

def selftest():
    for i in range(len(PY_EXPRS)):
        case = pycase(i)
        if case.ast is None:
            raise AssertionError("not a valid Python expression: %r" % case.expr)
        for spaces in (set(), set(range(len(case.toks)))):
            if LX.python_ast(case.render(spaces)) != case.ast:
                raise AssertionError("re-spacing changes the Python meaning of %r: %r" % (case.expr, case.render(spaces)))
        for form in ("brace", "bare") if case.bare_ok else ("brace",):
            for kind in ("quotes", "parens"):
                case.variant_case(kind, form)  # raises if the rewriting is not equivalent
    a, b, star, par, name = (LX.lex_one(t) for t in ("a", "b", "*", "(", "`x y`"))
    assert LX.merges(a, b) and LX.merges(star, star) and LX.merges(a, par) and not LX.merges(a, star) and not LX.merges(star, par)
    assert not LX.merges(star, name) and not LX.merges(name, star)


def subchecks(tier, seed):
    from props.c01 import SIGMA_Q
    from props.c14 import CHARS14, CHARS24

    selftest()
    quick = tier == "quick"
    leaves_all = ["a", "`x y`", "f(a)", "{a+b}", "2.5", "1"]
    subs = [
        Sub("ws-tokens", drv_ws_tokens, {"sigma": SIGMA_Q, "L": 4, "both_icpt_upto": 3}, shard_depth=3,
            bounds={"alphabet": SIGMA_Q, "max_tokens": 4, "white_space": ["", " ", "\\t\\n"]}),
        Sub("ws-grammar", drv_ws_grammar, {"k": 1, "kmin": 0, "leaves": leaves_all}, shard_depth=3,
            bounds={"max_binary_operators": 1, "leaves": leaves_all, "shapes": ["T", "y ~ T", "T | b"]}),
        Sub("ws-grammar-2", drv_ws_grammar, {"k": 2, "kmin": 2, "leaves": ["`x y`", "f(a)"] if quick else leaves_all[:4], "ws": WS[:2],
                                             "lead_trail": False}, shard_depth=4,
            bounds={"binary_operators": 2, "leaves": ["`x y`", "f(a)"] if quick else leaves_all[:4], "white_space": ["", " "]}),
        Sub("names", drv_names, {"L": 3 if quick else 4, "forms_longest": [f for f in NAME_FORMS if f[0] in ("alone", "star", "call", "brace-twice")]},
            shard_depth=3, bounds={"alphabet": NAME_CHARS, "max_length": 3 if quick else 4, "forms": [f[1] for f in NAME_FORMS],
                                   "forms_at_the_maximal_length": ["`%s`", "`%s`*zz", "double(`%s`)", "{`%s` * `%s`}"]}),
        Sub("ws-unicode", drv_ws_unicode, {}, shard_depth=2,
            bounds={"white_space": ["U+%04X" % ord(w) for w in WS_ALL], "sentences": [" ".join(t) for t in WS_SENTENCES],
                    "placement": "the character alone at one boundary (incl. leading / trailing), single spaces elsewhere; and at every boundary"}),
        Sub("names-numeric", drv_names_numeric, {}, shard_depth=1,
            bounds={"names": NUMERIC_NAMES, "forms": [f[1] for f in NAME_FORMS], "parser": "include_intercept=False (see K2 of C01)"}),
        Sub("names-dots", drv_names_dots, {}, shard_depth=1,
            bounds={"names": DOT_NAMES, "forms": [f[1] for f in NAME_FORMS], "parser": "include_intercept=False"}),
        Sub("py-strings-stateful", drv_py_strings_stateful, {"L": 2 if quick else 3}, shard_depth=3,
            bounds={"literal_body_atoms": LIT_ATOMS, "max_atoms": 2 if quick else 3, "quotes": ["'", '"'], "templates": STATEFUL_TEMPLATES,
                    "checks": "parsed content, evaluation, values, re-application of the fitted spec to new data"}),
        Sub("py-eval", drv_py_eval, {}, shard_depth=1,
            bounds={"expressions": [e for e, _ in EVAL_EXPRS], "forms": ["{E}", "E (call-style, where it is one token)"],
                    "positions": EVAL_POSITIONS, "oracle": "columns equal the value of the expression computed by plain Python / pandas; "
                                                            "same after re-applying the fitted spec"}),
        Sub("names-special", drv_names_special, {"names": special_names(2 if quick else 3), "L": 2 if quick else 3,
                                                 "forms_longest": [f for f in NAME_FORMS if f[0] in ("alone", "call", "brace-twice")]},
            shard_depth=1, bounds={"names": "all Python keywords and soft keywords; every string of length <= %d over %r"
                                            % (2 if quick else 3, SPECIAL_CHARS), "forms": [f[1] for f in NAME_FORMS]}),
        Sub("py-strings", drv_py_strings, {"L": 3 if quick else 4}, shard_depth=3,
            bounds={"literal_body_atoms": LIT_ATOMS, "max_atoms": 3 if quick else 4, "quotes": ["'", '"', "'''", '"""'],
                    "extra_atom_in_triple_quoted_literals": "a lone quote of the literal's own kind",
                    "templates": [t for t, _ in LIT_TEMPLATES]}),
        Sub("python", drv_python, {"subset_bound": 8 if quick else 10}, shard_depth=2,
            bounds={"expressions": len(PY_EXPRS), "all_subsets_of_boundaries_up_to": 8 if quick else 10,
                    "beyond": "all single and pairwise insertions, none, all"}),
        Sub("spans24", drv_spans, {"alphabet": CHARS24, "L": 4}, shard_depth=3, bounds={"alphabet": "".join(CHARS24), "max_length": 4}),
        Sub("spans14", drv_spans, {"alphabet": CHARS14, "L": 5 if quick else 6, "context_upto": 4 if quick else 5},
            shard_depth=3 if quick else 4,
            bounds={"alphabet": "".join(CHARS14), "max_length": 5 if quick else 6, "error_context_checked_up_to_length": 4 if quick else 5}),
    ]
    if quick:
        first = SIGMA_Q[seed % len(SIGMA_Q)]
        subs.append(Sub("ws-tokens-seed-slice", drv_ws_tokens_slice, {"sigma": SIGMA_Q, "first": first, "L": 5}, shard_depth=3,
                        bounds={"alphabet": SIGMA_Q, "tokens": 5, "first_token": first, "white_space": ["", " "],
                                "note": "VERIF_SEED-selected exhaustive slice of the thorough scope"}))
    else:
        subs.append(Sub("ws-tokens-5", drv_ws_tokens, {"sigma": SIGMA_Q, "L": 5, "Lmin": 5, "both_icpt_upto": 0}, shard_depth=3,
                        bounds={"alphabet": SIGMA_Q, "tokens": 5, "leading_trailing_white_space": "none"}))
        subs.append(Sub("ws-grammar-3", drv_ws_grammar, {"k": 3, "kmin": 3, "leaves": ["a"], "lead_trail": False, "ws": WS[:2], "shapes": 1},
                        shard_depth=4, bounds={"binary_operators": 3, "leaves": ["a"], "max_tokens": 9, "white_space": ["", " "], "shapes": ["T"]}))
    return subs


def drv_ws_tokens_slice(c, ctx, col):
    tokens = [ctx["first"]] + c.seq(ctx["sigma"], ctx["L"] - 1, ctx["L"] - 1)
    avail = AVAIL if "." in tokens else None
    try:
        W.reference(tokens, include_intercept=True, avail=avail)
    except (W.Reject, W.Unspec):
        raise Skip()
    variant = place(c, tokens, [("", "")], WS[:2])
    check_ws(col, "ws-tokens", tokens, variant, True, avail)
    col.sample({"tokens": tokens, "variant": variant})
