"""C20 - formula differentiation is the term-wise partial derivative (default, non-sympy path)."""
import itertools

import numpy

from mc.explorer import HarnessError, Skip
from mc.runner import Sub
from models import calculus_ref as CR

RULE = (
    "Every ordered list of distinct terms up to the length bound, each term a product of distinct factors from "
    "{a, b, c, log(a)} of degree <= 3, with and without intercept, kept in written order (_ordering='none') and in the "
    "default degree order, as a simple formula and as the right-hand side of 'y ~ ...' / 'a ~ ...'; x every tuple of "
    "differentiation variables over {a, b, c, d} with repetition up to the length bound; through Formula.differentiate, "
    "successive single-variable calls and ModelSpec(s).differentiate.  Numeric: the differentiated formula is "
    "materialized by the real code on a 4-row frame with a, b, c in general position, ensure_full_rank on and off, "
    "through Formula.get_model_matrix, an unfitted ModelSpec, model_matrix() and ModelSpecs; each non-zero derivative "
    "term's column, located through model_spec.term_indices, is compared with the exact forward difference "
    "[the same over the factor alphabet {a, N, c} for every N among the 26 names of formulaic's transform namespace used "
    "as a plain column (scale, lag, log, C, np, ...), 5 other identifiers, 2 back-quoted names, and 4 names used both as "
    "a column and as a function N(a) in the same formula; and over 17 degenerate frames: each of a, b, c in turn all zero "
    "(float, int), constant 1, int dtype, partly zero, plus all-int and all-zero frames; over terms with a literal "
    "numeric factor (2:a, a:2.5:b, ...); and, for specs fitted on a training frame with the stateful factors center(a) "
    "and scale(a), ModelSpec.differentiate materialized on the training frame and on other data] "
    "(h = 1 and h = 1/2) of the product of the original term's factor columns.  Non-trivial = at least one term "
    "whose derivative the property specifies and wrt non-empty; counted once per (formula, ordering, wrt, path, rank)."
)
ASSUMPTIONS = [
    "sympy is not installed in /venv, so only use_sympy=False is explored; use_sympy=True is not reached",
    "without sympy a variable that occurs inside a function factor (log(a) w.r.t. a) cannot be differentiated; the "
    "implementation documents exact string matching (differentiate_term docstring); such terms are UNSPECIFIED unless "
    "another wrt variable is absent from the term (then the derivative is zero regardless)",
    "zero derivative terms need not materialize to any column (the statement only covers non-zero derivative terms)",
    "small-scope hypothesis: differentiate_term treats each term and each wrt variable independently; nothing first "
    "fails beyond 4 terms of degree 3 and 3 wrt variables",
    "forward differences are exact for terms multilinear in the shifted columns (small integer data, h = 1, 1/2); "
    "columns are compared with relative tolerance 1e-9 because log(a) factors are floating point",
]

FACTORS = ["a", "b", "c", "log(a)"]
TERMS_ALL = [c for r in (1, 2, 3) for c in itertools.combinations(FACTORS, r)]           # 14 terms
TERMS_PLAIN = [t for t in TERMS_ALL if "log(a)" not in t]                                  # 7 terms
WRT_VARS = ["a", "b", "c", "d"]
DATA = {"a": [2.0, 3.0, 5.0, 7.0], "b": [11.0, 13.0, 19.0, 17.0], "c": [0.5, 29.0, -4.0, 6.0], "y": [1.0, 2.0, 3.0, 4.0]}

_DF = []
_FCACHE = {}


_FRAMES = {}


def frame(data=None):
    data = DATA if data is None else data
    key = id(data)
    if key not in _FRAMES:
        import pandas

        _FRAMES[key] = (data, pandas.DataFrame(data))  # keep `data` alive so the id stays unique
    return _FRAMES[key][1]


def frame_like(data):
    """an uncached frame (for data dicts built inside a driver)"""
    import pandas

    return pandas.DataFrame(data)


def printed_term(t, ctx):
    """how formulaic prints a written term (back-quoted names lose their quotes)"""
    pr = ctx.get("printed") or {}
    return ":".join(pr.get(f, f) for f in t)


def formula_for(s, ordering):
    """parsed formulas are shared between executions (parsing dominates the cost); a cached object that no longer holds the
    terms it was built with (something mutated it in an earlier execution) is discarded, so every execution starts from a
    correct formula and the execution that mutates it is the one that reports it"""
    from formulaic import Formula

    key = (s, ordering)
    hit = _FCACHE.get(key)
    if hit is not None:
        f, snapshot = hit
        try:
            intact = {k: side_terms(v) for k, v in sides_of(f).items()} == snapshot
        except Exception:
            intact = False
        if intact:
            return f
    if len(_FCACHE) > 2000:
        _FCACHE.clear()
    f = Formula(s, _ordering=ordering)
    _FCACHE[key] = (f, {k: side_terms(v) for k, v in sides_of(f).items()})
    return f


def choose_formula(c, ctx):
    """-> (formula string, written rhs terms incl. intercept position-free)"""
    pool = ctx["terms"]
    n = ctx.get("nmin", 0) + c.upto(ctx["n"] - ctx.get("nmin", 0))
    remaining = list(pool)
    terms = []
    if ctx.get("first") is not None:  # VERIF_SEED slice: the first written term is fixed
        terms.append(ctx["first"])
        remaining.remove(ctx["first"])
        n -= 1
    for _ in range(n):
        terms.append(remaining.pop(c.choose(len(remaining))))
    if ctx.get("literal") is not None:
        # the parser rejects two terms that differ only in their numerical scaling ("Term already seen with a different
        # numerical scaling"): such lists are not formulas
        cores = [frozenset(f for f in t if f != ctx["literal"]) for t in terms]
        if len(set(cores)) != len(cores):
            raise Skip()
    if ctx.get("reverse_factors") and c.flag():
        terms = [tuple(reversed(t)) for t in terms]
    icpt = c.pick(ctx.get("icpts", [True, False]))
    rhs = " + ".join(":".join(t) for t in terms)
    if not icpt:
        rhs = ("0 + " + rhs) if rhs else "0"
    elif not rhs:
        rhs = "1"
    return rhs, terms, icpt


def choose_wrt(c, ctx):
    return tuple(c.seq(ctx.get("wrt_vars", WRT_VARS), ctx["wrt"], ctx.get("wrt_min", 0)))


def side_terms(f):
    """SimpleFormula -> list of term strings"""
    return [str(t) for t in f]


def sides_of(F):
    """{'root': SimpleFormula} or {'lhs':..., 'rhs':...}"""
    from formulaic.formula import SimpleFormula

    if isinstance(F, SimpleFormula):
        return {"root": F}
    return dict(F._structure)


def expected_terms(orig_terms, wrt):
    """orig_terms: term strings as held by the formula, in its order -> list of (string | None for UNSPEC)"""
    return [CR.term_str(CR.d_term(CR.split_term(s), wrt)) for s in orig_terms]


# ---------------------------------------------------------------------------


def drv_symbolic(c, ctx, col):
    from formulaic import Formula, ModelSpec
    from formulaic.formula import SimpleFormula

    rhs, terms, icpt = choose_formula(c, ctx)
    ordering = c.pick(ctx["orderings"])
    side = c.pick(ctx["sides"])
    wrt = choose_wrt(c, ctx)
    s = rhs if side == "simple" else "%s ~ %s" % (side, rhs)
    F = formula_for(s, ordering)
    before = {k: side_terms(v) for k, v in sides_of(F).items()}
    # the formula must hold exactly the written terms (this is C01's business; a mismatch here is a harness problem)
    written = (["1"] if icpt else []) + [printed_term(t, ctx) for t in terms]
    held = before["root" if side == "simple" else "rhs"]
    if sorted(held) != sorted(written) or (ordering == "none" and held != written):
        raise HarnessError("formula %r holds %r, expected %r" % (s, held, written))
    key = "symbolic :: Formula(%r, _ordering=%r).differentiate(%s)" % (s, ordering, ", ".join(repr(w) for w in wrt))
    detail = {"formula": s, "ordering": ordering, "wrt": list(wrt), "original_terms": before,
              "repro": "Formula(%r, _ordering=%r).differentiate(%s)" % (s, ordering, ", ".join(repr(w) for w in wrt))}
    want = {k: expected_terms(v, wrt) for k, v in before.items()}
    try:
        D = F.differentiate(*wrt)
    except Exception as e:
        if any(t is None for v in want.values() for t in v):
            col.count("unspecified-function-of-wrt-raises")  # refusing what cannot be done without sympy is not a violation
            return
        col.violation(key, dict(detail, error=repr(e)), sig="differentiate-raises")
        return
    got = {k: side_terms(v) for k, v in sides_of(D).items()}
    detail.update(got=got, want=want)
    specified = sum(1 for v in want.values() for t in v if t is not None)
    unspecified = sum(1 for v in want.values() for t in v if t is None)
    if unspecified:
        col.count("terms-unspecified-function-of-wrt", unspecified)
    if specified and wrt:
        col.interesting()
    for k in want:
        if k not in got or len(got[k]) != len(want[k]):
            col.violation(key, detail, sig="term-count-or-structure-changed")
            return
        for g, w in zip(got[k], want[k]):
            if w is None:
                continue
            if g != w:
                same_set = sorted(CR.split_term(g)) == sorted(CR.split_term(w)) and g not in ("0", "1") and w not in ("0", "1")
                col.violation(key, detail, sig="factor-order-changed" if same_set else "wrong-derivative-term")
                return
    # the original formula is not modified
    after = {k: side_terms(v) for k, v in sides_of(F).items()}
    if after != before:
        col.violation(key, dict(detail, after=after), sig="original-formula-mutated")
        return
    # successive single-variable differentiation == one call with the tuple
    if len(wrt) >= 2:
        structured_gap = None
        try:
            S = F
            for w in wrt:
                if not hasattr(S, "differentiate"):
                    # the derivative of a two-sided formula is a bare Structured: report once, continue side by side
                    structured_gap = "%s has no attribute 'differentiate'" % type(S).__name__
                    S = S._map(lambda f: f.differentiate(w))
                else:
                    S = S.differentiate(w)
            succ = {k: side_terms(v) for k, v in sides_of(S).items()}
        except Exception as e:
            succ = repr(e)
        if structured_gap:
            col.violation("structured :: Formula(%r).differentiate(%r).differentiate(%r)" % (s, wrt[0], wrt[1]),
                          dict(detail, error=structured_gap,
                               repro="Formula(%r).differentiate(%r).differentiate(%r)" % (s, wrt[0], wrt[1])),
                          sig="structured-derivative-not-a-formula")
        if succ != got:
            col.violation(key, dict(detail, successive=succ), sig="successive-differs-from-tuple")
            return
    # ModelSpec(s).differentiate proxies Formula.differentiate
    if ctx.get("spec_path", True):
        try:
            ms = ModelSpec.from_spec(F)
            md = ms.differentiate(*wrt)
            if isinstance(F, SimpleFormula):
                via = {"root": side_terms(md.formula)}
                same = md.formula == D
            else:
                via = {k: side_terms(v.formula) for k, v in md._structure.items()}
                same = True
        except Exception as e:
            via, same = repr(e), False
        if via != got or not same:
            col.violation(key, dict(detail, via_model_spec=via), sig="modelspec-differentiate-differs")
            return
    col.count("agree")
    col.sample({"formula": s, "ordering": ordering, "wrt": list(wrt), "derivative": got})


# ---------------------------------------------------------------------------


def close_cols(got, want):
    return all(abs(g - w) <= 1e-9 * max(1.0, abs(w)) for g, w in zip(got, want)) and len(got) == len(want)


PATHS = ["formula", "spec-unfitted", "two-sided-formula", "two-sided-specs"]


def materialize(path, s, ordering, wrt, efr, output="pandas", data=None):
    """-> (dict side -> (derivative SimpleFormula, ModelMatrix), note)   raises whatever the implementation raises"""
    from formulaic import Formula, ModelSpec, model_matrix

    df = frame(data)
    note = None
    if path == "formula":
        F = formula_for(s, ordering)
        D = F.differentiate(*wrt)
        return {"root": (D, D.get_model_matrix(df, ensure_full_rank=efr, output=output))}, note
    if path == "spec-unfitted":
        F = formula_for(s, ordering)
        md = ModelSpec.from_spec(F, ensure_full_rank=efr, output=output).differentiate(*wrt)
        return {"root": (md.formula, md.get_model_matrix(df))}, note
    F = formula_for("y ~ " + s, ordering)
    if path == "two-sided-formula":
        D = F.differentiate(*wrt)
        try:
            mm = D.get_model_matrix(df, ensure_full_rank=efr, output=output)
        except AttributeError as e:
            note = "AttributeError: " + str(e)[:120]
            mm = model_matrix(D, df, ensure_full_rank=efr, output=output)
        return {k: (D._structure[k], mm._structure[k]) for k in ("lhs", "rhs")}, note
    md = ModelSpec.from_spec(F, ensure_full_rank=efr, output=output).differentiate(*wrt)
    mm = md.get_model_matrix(df)
    return {k: (md._structure[k].formula, mm._structure[k]) for k in ("lhs", "rhs")}, note


def drv_numeric(c, ctx, col):
    rhs, terms, icpt = choose_formula(c, ctx)
    wrt = choose_wrt(c, ctx)
    efr = c.pick(ctx.get("ranks", [True, False]))
    path = c.pick(ctx["paths"])
    output = c.pick(ctx.get("outputs", ["pandas"]))
    ordering = "none"
    data = ctx.get("data", DATA)
    written = {"root" if not path.startswith("two-sided") else "rhs": (["1"] if icpt else []) + [printed_term(t, ctx) for t in terms]}
    if path.startswith("two-sided"):
        written["lhs"] = ["y"]
    shown = rhs if not path.startswith("two-sided") else "y ~ " + rhs
    wrt_s = ", ".join(repr(w) for w in wrt)
    if path in ("formula", "two-sided-formula"):
        call = "Formula(%r, _ordering='none').differentiate(%s).get_model_matrix(df, ensure_full_rank=%s, output=%r)" % (shown, wrt_s, efr, output)
    else:
        call = ("ModelSpec.from_spec(Formula(%r, _ordering='none'), ensure_full_rank=%s, output=%r).differentiate(%s).get_model_matrix(df)"
                % (shown, efr, output, wrt_s))
    want_all = {k: [CR.d_term(CR.split_term(t), wrt) for t in v] for k, v in written.items()}
    try:  # number of literal-0 terms in the implementation's own derivative (marker for the known intercept clash)
        Dsym = formula_for(shown, ordering).differentiate(*wrt)
        n_zero = sum(1 for f in sides_of(Dsym).values() for t in f if str(t) == "0")
    except Exception:
        n_zero = -1
        if any(r[0] == "UNSPEC" for v in want_all.values() for r in v):
            col.count("unspecified-function-of-wrt-raises")
            return
    has_one = any(r == ("TERM", ()) for v in want_all.values() for r in v)
    key = "numeric[%s] :: %r wrt=%s ensure_full_rank=%s output=%s (zero-terms=%d unit-term=%s)" % (
        path, shown, list(wrt), efr, output, n_zero, "yes" if has_one else "no")
    if ctx.get("data_label"):
        key += " data=" + ctx["data_label"]
    detail = {"formula": shown, "wrt": list(wrt), "ensure_full_rank": efr, "path": path, "output": output, "data": data,
              "repro": "df = pandas.DataFrame(%r); %s" % (data, call)}
    checkable = sum(1 for v in want_all.values() for r in v if r[0] == "TERM")
    _violation = col.violation

    def violation(key_, detail_, sig):
        col.count("numeric-violation-with-zero-derivative-terms" if n_zero else "numeric-violation-WITHOUT-zero-derivative-terms")
        _violation(key_, detail_, sig=sig)
    if checkable and wrt:
        col.interesting()
    try:
        res, note = materialize(path, rhs, ordering, wrt, efr, output, data)
    except Exception as e:
        col.violation(key, dict(detail, error="%s: %s" % (type(e).__name__, str(e)[:200])), sig="materialization-raises")
        return
    if note:
        col.violation("structured :: Formula(%r).differentiate(%s).get_model_matrix(df)" % (shown, wrt_s),
                      dict(detail, error=note), sig="structured-derivative-not-a-formula")
    rounds = [("", res, data)]
    if ctx.get("rematerialize"):
        # the spec attached to the derivative's matrix must reproduce it: same data, and other data
        other = {k: [2 * x + 1 for x in reversed(v)] for k, v in data.items()}
        for rlabel, rdata in (("rematerialized-", data), ("rematerialized-on-other-data-", other)):
            try:
                again = {side: (D, mm.model_spec.get_model_matrix(frame_like(rdata))) for side, (D, mm) in res.items()}
            except Exception as e:
                violation(key, dict(detail, error="%s: %s" % (type(e).__name__, str(e)[:200])), sig=rlabel + "raises")
                return
            rounds.append((rlabel, again, rdata))
    for rlabel, res_r, data_r in rounds:
      for side, (D, mm) in res_r.items():
        dterms = list(D)
        want = want_all[side]
        if len(dterms) != len(want):
            violation(key, dict(detail, got=[str(t) for t in dterms]), sig="term-count-or-structure-changed")
            return
        ms = mm.model_spec
        values = numpy.asarray(mm.todense() if output == "sparse" else mm, dtype=float)
        ncols = values.shape[1] if values.ndim == 2 else 0
        detail_side = dict(detail, side=side, derivative=[str(t) for t in dterms], columns=list(getattr(mm, "columns", [])),
                           matrix_first_row=values[0].tolist() if ncols else [], round=rlabel or "first materialization",
                           term_indices={str(t): list(i) for t, i in ms.term_indices.items()})
        for t_written, dterm, w in zip(written[side], dterms, want):
            if w[0] != "TERM":
                col.count("zero-or-unspecified-term-skipped")
                continue
            factors = CR.split_term(t_written)
            fd1 = CR.finite_difference(factors, wrt, data_r, 1.0)
            fd2 = CR.finite_difference(factors, wrt, data_r, 0.5)
            direct = CR.column(w[1], data_r)
            if not (close_cols(fd1, direct) and close_cols(fd2, direct)):
                raise HarnessError("finite differences disagree with the symbolic rule for %r wrt %r" % (t_written, wrt))
            d = dict(detail_side, term=t_written, derivative_term=str(dterm), want_column=fd1)
            try:
                idx = list(ms.term_indices[dterm])
            except KeyError:
                violation(key, d, sig=rlabel + "derivative-term-missing-from-term-indices")
                return
            if len(idx) == 0:
                violation(key, d, sig=rlabel + ("unit-derivative-has-no-column" if not w[1] else "derivative-term-has-no-column"))
                return
            if len(idx) != 1 or idx[0] >= ncols:
                violation(key, dict(d, indices=idx, n_columns=ncols), sig=rlabel + "derivative-term-index-out-of-range")
                return
            got = values[:, idx[0]].tolist()
            if not close_cols(got, fd1):
                violation(key, dict(d, got_column=got), sig=rlabel + "wrong-derivative-column")
                return
            col.count(rlabel + "columns-agree")
    if ctx.get("impl_fd") and path == "formula" and len(wrt) == 1 and wrt[0] in data:
        # differential form of the same clause: the derivative column equals the forward difference of the column the
        # implementation itself materializes for the ORIGINAL term at x and at x + h (h = 1)
        import pandas

        F = formula_for(rhs, ordering)
        v = wrt[0]
        shifted = dict(data)
        shifted[v] = [x + 1 for x in data[v]]
        try:
            m0 = F.get_model_matrix(frame(data), ensure_full_rank=efr, output=output)
            m1 = F.get_model_matrix(pandas.DataFrame(shifted), ensure_full_rank=efr, output=output)
        except Exception as e:
            violation(key, dict(detail, error="%s: %s" % (type(e).__name__, str(e)[:200])), sig="original-materialization-raises")
            return
        (D, mm), = res.values()
        v0, v1, vd = (numpy.asarray(m, dtype=float) for m in (m0, m1, mm))
        for term, dterm, w in zip(list(F), list(D), want_all["root"]):
            if w[0] != "TERM":
                continue
            i0, i1 = list(m0.model_spec.term_indices.get(term, [])), list(m1.model_spec.term_indices.get(term, []))
            idx = list(mm.model_spec.term_indices.get(dterm, []))
            d = dict(detail, term=str(term), derivative_term=str(dterm), original_indices=[i0, i1], derivative_indices=idx)
            if len(i0) != 1 or len(i1) != 1:
                violation(key, d, sig="original-term-column-missing-at-x-or-x+h")
                return
            if len(idx) != 1 or idx[0] >= vd.shape[1]:
                continue  # already reported above
            fd = (v1[:, i1[0]] - v0[:, i0[0]]).tolist()
            if not close_cols(vd[:, idx[0]].tolist(), fd):
                violation(key, dict(d, finite_difference=fd, got_column=vd[:, idx[0]].tolist()), sig="derivative-differs-from-materialized-difference")
                return
        col.count("materialized-differences-agree")
    col.sample({"formula": shown, "wrt": list(wrt), "ensure_full_rank": efr, "path": path})


# ---------------------------------------------------------------------------
# variable names in other roles: columns named like built-in transforms, other identifiers, back-quoted names,
# and names that are also used as a function in the same formula

TRANSFORM_NAMES = ["C", "Diff", "Helmert", "I", "Poly", "Q", "Sum", "Treatment", "bs", "cc", "center", "contr", "cr", "cs",
                   "exp", "exp10", "exp2", "hashed", "lag", "log", "log10", "log2", "np", "poly", "scale", "standardize"]
OTHER_NAMES = ["abs", "a.b", "_u", "X1", "\u00e9"]               # a Python builtin, a dotted name, underscore, mixed case, non-ASCII
QUOTED_NAMES = ["a b", "b-2", "x:y", "odds 3:1"]                 # written back-quoted, differentiated by the bare name; printed bare
#                                                                  unless the name contains ':' (then the quotes are kept)
FUNC_NAMES = ["log", "exp", "center", "scale"]                   # column N next to the factor N(a)
NAME_ROLES = ([("transform", n) for n in TRANSFORM_NAMES] + [("identifier", n) for n in OTHER_NAMES]
              + [("quoted", n) for n in QUOTED_NAMES] + [("function", n) for n in FUNC_NAMES])
_ROLE_CTX = {}


def role_ctx(role, name, base):
    """the ctx of drv_symbolic / drv_numeric for the factor alphabet {a, N, c} (or {a, N, N(a)})"""
    key = (role, name, id(base))
    if key not in _ROLE_CTX:
        tok = "`%s`" % name if role == "quoted" else name
        third = "%s(a)" % name if role == "function" else "c"
        factors = ["a", tok, third]
        terms = [t for r in (1, 2, 3) for t in itertools.combinations(factors, r)]
        data = {"a": DATA["a"], name: DATA["b"], "c": DATA["c"], "y": DATA["y"]}
        sub = dict(base)
        sub.update(terms=terms, printed={tok: CR.print_factor(name)}, wrt_vars=["a", name, "c", "d"], data=data)
        _ROLE_CTX[key] = sub
    return _ROLE_CTX[key]


def drv_names_symbolic(c, ctx, col):
    role, name = c.pick(ctx["roles"])
    drv_symbolic(c, role_ctx(role, name, ctx), col)


# ---------------------------------------------------------------------------
# degenerate numeric data: "for all numeric data" includes columns that are identically zero, constant, partly zero, ints


def _degenerate_frames():
    frames = [("general-int", {k: [int(round(x * 2)) for x in v] for k, v in DATA.items()}),
              ("all-columns-zero", {"a": [0.0] * 4, "b": [0.0] * 4, "c": [0.0] * 4, "y": DATA["y"]})]
    for v in ("a", "b", "c"):
        frames.append(("%s=0.0" % v, dict(DATA, **{v: [0.0, 0.0, 0.0, 0.0]})))
        frames.append(("%s=0(int)" % v, dict(DATA, **{v: [0, 0, 0, 0]})))
        frames.append(("%s=1.0" % v, dict(DATA, **{v: [1.0, 1.0, 1.0, 1.0]})))
        frames.append(("%s=int" % v, dict(DATA, **{v: [3, -1, 4, 2]})))
        frames.append(("%s-partly-zero" % v, dict(DATA, **{v: [0.0, 2.5, 0.0, -1.0]})))
    return frames


DEGENERATE_FRAMES = _degenerate_frames()
_FRAME_CTX = {}


def drv_numeric_frames(c, ctx, col):
    i = c.choose(len(DEGENERATE_FRAMES))
    key = (i, id(ctx))
    if key not in _FRAME_CTX:
        label, data = DEGENERATE_FRAMES[i]
        sub = dict(ctx)
        sub.update(data=data, data_label=label)
        _FRAME_CTX[key] = sub
    drv_numeric(c, _FRAME_CTX[key], col)


def drv_names_numeric(c, ctx, col):
    # not the "function" role: a data column named N shadows the function N, so N(a) cannot be evaluated at all
    role, name = c.pick([r for r in ctx["roles"] if r[0] != "function"])
    drv_numeric(c, role_ctx(role, name, ctx), col)


OTHER_DATA = {"a": [1.0, 4.0, 9.0], "b": [2.0, -3.0, 5.0], "c": [1.0, 2.0, 4.0], "y": [0.0, 1.0, 2.0]}   # 3 rows, other values
EVAL_FRAMES = [("training-data", DATA), ("other-data", OTHER_DATA)]
TERMS_STATEFUL = [t for r in (1, 2, 3) for t in itertools.combinations(["center(a)", "scale(a)", "b", "c"], r)]


def with_fitted_columns(train, other):
    """reference values of the stateful factors on `other`, with the state (mean, sd) taken from `train`"""
    n = len(train["a"])
    mean = sum(train["a"]) / n
    sd = (sum((x - mean) ** 2 for x in train["a"]) / (n - 1)) ** 0.5
    ref = dict(other)
    ref["center(a)"] = [x - mean for x in other["a"]]
    ref["scale(a)"] = [(x - mean) / sd for x in other["a"]]
    return ref


def drv_fitted(c, ctx, col):
    """ModelSpec.differentiate on the spec attached to a materialized matrix (the usual way to obtain a spec): fit on the
    training frame, differentiate the fitted spec, materialize the derivative on the training frame or on OTHER data.
    Stateful factors that survive differentiation (center(a) in d(center(a):b)/db) must keep the training state."""
    import pandas

    rhs, terms, icpt = choose_formula(c, ctx)
    wrt = choose_wrt(c, ctx)
    efr = c.pick(ctx.get("ranks", [True, False]))
    label, other = c.pick(ctx.get("eval_frames", EVAL_FRAMES[:1]))
    df, df_other = frame(DATA), frame(other)
    F = formula_for(rhs, "none")
    key = "fitted-spec :: %r wrt=%s ensure_full_rank=%s materialized-on=%s" % (rhs, list(wrt), efr, label)
    detail = {"formula": rhs, "wrt": list(wrt), "ensure_full_rank": efr, "training_data": DATA, "materialized_on": other,
              "repro": "Formula(%r, _ordering='none').get_model_matrix(train, ensure_full_rank=%s).model_spec.differentiate(%s).get_model_matrix(other)"
                       % (rhs, efr, ", ".join(repr(w) for w in wrt))}
    ms = F.get_model_matrix(df, ensure_full_rank=efr).model_spec
    written = (["1"] if icpt else []) + [":".join(t) for t in terms]
    want = [CR.d_term(CR.split_term(t), wrt) for t in written]
    if not any(r[0] == "TERM" for r in want) or not wrt:
        col.count("nothing-to-check")
        return
    col.interesting()
    try:
        md = ms.differentiate(*wrt)
        mm = md.get_model_matrix(df_other)
    except Exception as e:
        col.violation(key, dict(detail, error="%s: %s" % (type(e).__name__, str(e)[:200])), sig="fitted-spec-derivative-not-materializable")
        return
    ref = with_fitted_columns(DATA, other)
    values = numpy.asarray(mm, dtype=float)
    # differential form: the ORIGINAL fitted spec (which keeps the training state) at x and x + h on the same data
    impl = None
    if len(wrt) == 1 and wrt[0] in other:
        shifted = dict(other)
        shifted[wrt[0]] = [x + 1 for x in other[wrt[0]]]
        try:
            m0, m1 = ms.get_model_matrix(df_other), ms.get_model_matrix(pandas.DataFrame(shifted))
            impl = (m0, m1, numpy.asarray(m0, dtype=float), numpy.asarray(m1, dtype=float))
        except Exception as e:
            col.violation(key, dict(detail, error="%s: %s" % (type(e).__name__, str(e)[:200])), sig="fitted-spec-original-not-materializable")
            return
    for t_written, term, dterm, w in zip(written, list(ms.formula), list(md.formula), want):
        if w[0] != "TERM":
            continue
        fd1 = CR.finite_difference(CR.split_term(t_written), wrt, ref, 1.0)
        idx = list(mm.model_spec.term_indices.get(dterm, []))
        d = dict(detail, term=t_written, derivative_term=str(dterm), indices=idx, columns=list(mm.columns), want_column=fd1)
        if len(idx) != 1 or idx[0] >= values.shape[1]:
            col.violation(key, d, sig="fitted-spec-wrong-derivative-column")
            return
        got = values[:, idx[0]].tolist()
        if not close_cols(got, fd1):
            col.violation(key, dict(d, got_column=got), sig="fitted-spec-wrong-derivative-column")
            return
        if impl is not None:
            m0, m1, v0, v1 = impl
            i0, i1 = list(m0.model_spec.term_indices.get(term, [])), list(m1.model_spec.term_indices.get(term, []))
            if len(i0) == 1 and len(i1) == 1:
                fd = (v1[:, i1[0]] - v0[:, i0[0]]).tolist()
                if not close_cols(got, fd):
                    col.violation(key, dict(d, got_column=got, difference_of_original_spec=fd), sig="fitted-spec-derivative-differs-from-original-difference")
                    return
                col.count("original-differences-agree")
    col.count("columns-agree")


# histories on ONE formula object: differentiate, mutate the term sequence, differentiate again

HISTORY_TERMS = [("a",), ("b",), ("a", "b"), ("b", "c"), ("a", "b", "c")]
HISTORY_OPS = ["del-first", "del-last", "del-slice", "pop", "remove-first", "clear", "append", "insert-front", "setitem-last"]


def apply_op(F, op, new_term, n_terms):
    """mutate the SimpleFormula through its MutableSequence API (without reading it: the caller supplies the current
    number of terms); returns False if the operation does not apply"""
    n = n_terms
    if op in ("del-first", "del-last", "del-slice", "pop", "remove-first", "setitem-last") and n == 0:
        return False
    if op == "del-first":
        del F[0]
    elif op == "del-last":
        del F[n - 1]
    elif op == "del-slice":
        del F[0:2]
    elif op == "pop":
        F.pop()
    elif op == "remove-first":
        F.remove(F[0])  # (reads before it mutates)
    elif op == "clear":
        F.clear()
    elif op == "append":
        F.append(new_term)
    elif op == "insert-front":
        F.insert(0, new_term)
    elif op == "setitem-last":
        F[n - 1] = new_term
    return True


def drv_history(c, ctx, col):
    from formulaic import Formula, ModelSpec

    rhs, terms, icpt = choose_formula(c, ctx)
    ordering = c.pick(ctx["orderings"])
    wrt = choose_wrt(c, ctx)
    ops = c.seq(HISTORY_OPS, ctx["ops"], 1)
    # "no-read": nothing reads the formula (len / iteration / repr / ==) between a mutation and the next differentiate call
    via_spec, read_first = c.pick([(False, True), (False, False), (True, False)])
    F = Formula(rhs, _ordering=ordering)       # a fresh object: it is mutated below
    new_term = {"append": Formula("c - 1")[0]}  # a low-degree term appended / a higher-degree term put in front: neither sorts in place
    new_term = [new_term.get(o, Formula("a:c - 1")[0]) for o in ops]
    ms = ModelSpec.from_spec(F) if via_spec else None
    diff = (lambda: (ms.differentiate(*wrt).formula if via_spec else F.differentiate(*wrt)))
    key = "history :: Formula(%r, _ordering=%r); differentiate(%s); %s; differentiate again%s" % (
        rhs, ordering, ", ".join(repr(w) for w in wrt), "; ".join(ops), (" (through ModelSpec.differentiate)" if via_spec else "") + ("" if read_first else " (no read in between)"))
    detail = {"formula": rhs, "ordering": ordering, "wrt": list(wrt), "operations": ops, "via_model_spec": via_spec,
              "formula_read_between_mutation_and_differentiate": read_first}
    if via_spec and ms.formula is not F:
        col.count("modelspec-copies-formula")
        F = ms.formula
    steps = []
    try:
        for i in range(len(ops) + 1):
            if read_first:
                held = side_terms(F)
                got = side_terms(diff())
            else:
                got = side_terms(diff())
                held = side_terms(F)
            want = expected_terms(held, wrt)
            steps.append({"held": held, "got": got, "want": want})
            if len(got) != len(want) or any(w is not None and g != w for g, w in zip(got, want)):
                col.violation(key, dict(detail, steps=steps), sig="stale-or-wrong-derivative-after-mutation" if i else "wrong-derivative-term")
                return
            if side_terms(F) != held:
                col.violation(key, dict(detail, steps=steps), sig="original-formula-mutated")
                return
            if i < len(ops) and not apply_op(F, ops[i], new_term[i], n_terms=len(held)):
                col.count("operation-not-applicable")
                return
    except Exception as e:
        col.violation(key, dict(detail, steps=steps, error="%s: %s" % (type(e).__name__, str(e)[:200])), sig="history-raises")
        return
    col.interesting()
    col.count("histories-agree")
    col.sample({"formula": rhs, "wrt": list(wrt), "operations": ops, "via_model_spec": via_spec})


# literal numeric factors: 2:a, a:2.5:b, ...

LITERALS = ["2", "2.5", "5"]
_LIT_CTX = {}


def literal_ctx(lit, base):
    key = (lit, id(base))
    if key not in _LIT_CTX:
        terms = [t for r in (1, 2, 3) for t in itertools.combinations([lit, "a", "b", "c"], r) if t != (lit,)]
        sub = dict(base)
        sub.update(terms=terms, reverse_factors=True, literal=lit)
        _LIT_CTX[key] = sub
    return _LIT_CTX[key]


def drv_literal_symbolic(c, ctx, col):
    drv_symbolic(c, literal_ctx(c.pick(ctx["literals"]), ctx), col)


def drv_literal_numeric(c, ctx, col):
    drv_numeric(c, literal_ctx(c.pick(ctx["literals"]), ctx), col)


# ---------------------------------------------------------------------------


def selftest():
    """reference against the cases pinned by tests/test_formula.py::test_differentiate"""
    for terms, wrt, want in [(["a", "b", "log(c)"], ("a",), ["1", "0", "0"]), (["a", "b", "log(c)"], ("c",), ["0", "0", None]),
                             (["a:b", "b:c", "c:d"], ("b",), ["a", "c", "0"]), (["a:b:c"], ("a", "b"), ["c"]),
                             (["a:b"], ("a", "a"), ["0"]), (["a"], (), ["a"]), (["a:log(a)"], ("a",), [None]),
                             (["a:log(a)"], ("a", "d"), ["0"])]:
        got = expected_terms(terms, wrt)
        if got != want:
            raise AssertionError("calculus reference: %r wrt %r -> %r, expected %r" % (terms, wrt, got, want))
    try:
        import sympy  # noqa: F401
        raise AssertionError("sympy is importable: the use_sympy=True path should now be explored too")
    except ImportError:
        pass


def subchecks(tier, seed):
    selftest()
    subs = []
    if tier == "quick":
        subs.append(Sub("symbolic", drv_symbolic, {"terms": TERMS_ALL, "n": 2, "wrt": 2, "orderings": ["none", "degree"],
                                                    "sides": ["simple", "y", "a"], "reverse_factors": True},
                        shard_depth=3, bounds={"max_terms": 2, "term_pool": 14, "wrt_max_len": 2, "orderings": ["none", "degree"],
                                               "sides": ["simple", "y ~", "a ~"], "factor_order": ["written", "reversed"]}))
        subs.append(Sub("symbolic-3", drv_symbolic, {"terms": TERMS_ALL, "n": 3, "nmin": 3, "wrt": 2, "orderings": ["none"], "sides": ["simple"]},
                        shard_depth=3, bounds={"terms": 3, "term_pool": 14, "wrt_max_len": 2, "orderings": ["none"], "sides": ["simple"]}))
        first = TERMS_ALL[seed % len(TERMS_ALL)]
        subs.append(Sub("symbolic-seed-slice", drv_symbolic,
                        {"terms": TERMS_ALL, "first": first, "n": 3, "nmin": 3, "wrt": 3, "orderings": ["degree"], "sides": ["y"], "spec_path": False},
                        shard_depth=3, bounds={"terms": 3, "first_written_term": ":".join(first), "wrt_max_len": 3, "ordering": "degree", "side": "y ~",
                                               "note": "VERIF_SEED-selected exhaustive slice of the thorough scope"}))
        subs.append(Sub("numeric", drv_numeric, {"terms": TERMS_ALL, "n": 2, "wrt": 2, "paths": ["formula"]},
                        shard_depth=3, bounds={"max_terms": 2, "term_pool": 14, "wrt_max_len": 2, "ensure_full_rank": [True, False], "paths": ["formula"]}))
        subs.append(Sub("numeric-paths", drv_numeric, {"terms": TERMS_PLAIN, "n": 2, "wrt": 2, "paths": PATHS[1:]},
                        shard_depth=3, bounds={"max_terms": 2, "term_pool": 7, "wrt_max_len": 2, "ensure_full_rank": [True, False], "paths": PATHS[1:]}))
        subs.append(Sub("numeric-outputs", drv_numeric, {"terms": TERMS_PLAIN, "n": 1, "wrt": 2, "paths": ["formula"], "outputs": ["numpy", "sparse"]},
                        shard_depth=3, bounds={"max_terms": 1, "term_pool": 7, "wrt_max_len": 2, "ensure_full_rank": [True, False],
                                               "paths": ["formula"], "outputs": ["numpy", "sparse"]}))
        subs.append(Sub("numeric-degenerate", drv_numeric_frames, {"terms": TERMS_PLAIN, "n": 1, "wrt": 2, "paths": ["formula"], "icpts": [True],
                                                                    "impl_fd": True},
                        shard_depth=3, bounds={"frames": [f[0] for f in DEGENERATE_FRAMES], "max_terms": 1, "term_pool": 7, "wrt_max_len": 2,
                                               "intercept": "on", "ensure_full_rank": [True, False], "paths": ["formula"],
                                               "also": "difference of the implementation's own columns of the original term at x and x+1"}))
        subs.append(Sub("names-symbolic", drv_names_symbolic, {"roles": NAME_ROLES, "n": 2, "wrt": 2, "orderings": ["none"], "sides": ["simple"]},
                        shard_depth=2, bounds={"names": {"transform": TRANSFORM_NAMES, "identifier": OTHER_NAMES, "quoted": QUOTED_NAMES,
                                                         "function (column N next to factor N(a))": FUNC_NAMES},
                                               "factors": "a, N, c (or N(a))", "max_terms": 2, "term_pool": 7, "wrt_max_len": 2,
                                               "wrt_vars": "a, N, c, d", "orderings": ["none"], "sides": ["simple"]}))
        subs.append(Sub("names-numeric", drv_names_numeric, {"roles": NAME_ROLES, "n": 1, "wrt": 2, "paths": ["formula"], "icpts": [True],
                                                              "ranks": [True]},
                        shard_depth=2, bounds={"names": "all but the function role (%d)" % (len(NAME_ROLES) - len(FUNC_NAMES)), "max_terms": 1, "term_pool": 7, "wrt_max_len": 2, "intercept": "on",
                                               "ensure_full_rank": [True], "paths": ["formula"], "data": "column N holds b's values"}))
        subs.append(Sub("mutation-history", drv_history, {"terms": HISTORY_TERMS[:1] + HISTORY_TERMS[2:4], "n": 2, "wrt": 1, "wrt_vars": ["a", "b", "d"],
                                                           "orderings": ["none", "degree"], "ops": 2},
                        shard_depth=3, bounds={"term_pool": ["a", "a:b", "b:c"], "max_terms": 2, "wrt": "(), a, b, d",
                                               "orderings": ["none", "degree"], "operations": HISTORY_OPS, "history_length": "1..2 mutations, "
                                               "differentiate before, between and after", "entry": ["Formula.differentiate", "ModelSpec.differentiate"]}))
        subs.append(Sub("literal-symbolic", drv_literal_symbolic, {"literals": LITERALS[:2], "n": 2, "wrt": 2, "orderings": ["none"], "sides": ["simple"]},
                        shard_depth=3, bounds={"literal_factor": LITERALS[:2], "factors": "L, a, b, c (every product of <= 3 except the lone literal)",
                                               "factor_order": ["literal first", "reversed"], "max_terms": 2, "term_pool": 13, "wrt_max_len": 2}))
        subs.append(Sub("literal-numeric", drv_literal_numeric, {"literals": LITERALS[:2], "n": 1, "wrt": 2, "paths": ["formula"], "rematerialize": True},
                        shard_depth=3, bounds={"literal_factor": LITERALS[:2], "max_terms": 1, "term_pool": 13, "factor_order": ["literal first", "reversed"],
                                               "wrt_max_len": 2, "ensure_full_rank": [True, False], "paths": ["formula"]}))
        subs.append(Sub("fitted-stateful", drv_fitted, {"terms": TERMS_STATEFUL, "n": 1, "wrt": 2, "ranks": [True], "eval_frames": EVAL_FRAMES},
                        shard_depth=2, bounds={"factors": "center(a), scale(a), b, c", "max_terms": 1, "term_pool": 14, "wrt_max_len": 2,
                                               "ensure_full_rank": [True], "fit_on": "training frame (4 rows)",
                                               "materialized_on": ["training frame", "other frame (3 rows, other values)"]}))
        subs.append(Sub("fitted-spec", drv_fitted, {"terms": TERMS_PLAIN, "n": 1, "wrt": 1}, shard_depth=2,
                        bounds={"max_terms": 1, "term_pool": 7, "wrt_max_len": 1}))
    else:
        subs.append(Sub("symbolic", drv_symbolic, {"terms": TERMS_ALL, "n": 3, "wrt": 3, "orderings": ["none", "degree"],
                                                    "sides": ["simple", "y", "a"]},
                        shard_depth=4, bounds={"max_terms": 3, "term_pool": 14, "wrt_max_len": 3, "orderings": ["none", "degree"],
                                               "sides": ["simple", "y ~", "a ~"]}))
        subs.append(Sub("symbolic-reversed", drv_symbolic, {"terms": [tuple(reversed(t)) for t in TERMS_ALL], "n": 2, "wrt": 3,
                                                             "orderings": ["none", "degree"], "sides": ["simple", "y"]},
                        shard_depth=3, bounds={"max_terms": 2, "term_pool": 14, "factor_order": "reversed (log(a):c:b ...)", "wrt_max_len": 3,
                                               "orderings": ["none", "degree"], "sides": ["simple", "y ~"]}))
        subs.append(Sub("symbolic-4", drv_symbolic, {"terms": TERMS_ALL, "n": 4, "nmin": 4, "wrt": 2, "orderings": ["none"], "sides": ["simple"]},
                        shard_depth=4, bounds={"terms": 4, "term_pool": 14, "wrt_max_len": 2, "orderings": ["none"], "sides": ["simple"]}))
        subs.append(Sub("numeric", drv_numeric, {"terms": TERMS_ALL, "n": 3, "wrt": 2, "paths": ["formula"]},
                        shard_depth=4, bounds={"max_terms": 3, "term_pool": 14, "wrt_max_len": 2, "ensure_full_rank": [True, False], "paths": ["formula"]}))
        subs.append(Sub("numeric-paths", drv_numeric, {"terms": TERMS_ALL, "n": 2, "wrt": 2, "paths": PATHS},
                        shard_depth=3, bounds={"max_terms": 2, "term_pool": 14, "wrt_max_len": 2, "ensure_full_rank": [True, False], "paths": PATHS}))
        subs.append(Sub("numeric-wrt3", drv_numeric, {"terms": TERMS_ALL, "n": 2, "wrt": 3, "wrt_min": 3, "paths": ["formula"]},
                        shard_depth=3, bounds={"max_terms": 2, "term_pool": 14, "wrt_len": 3, "ensure_full_rank": [True, False], "paths": ["formula"]}))
        subs.append(Sub("numeric-outputs", drv_numeric, {"terms": TERMS_PLAIN, "n": 2, "wrt": 2, "paths": ["formula", "two-sided-specs"],
                                                          "outputs": ["numpy", "sparse"]},
                        shard_depth=3, bounds={"max_terms": 2, "term_pool": 7, "wrt_max_len": 2, "ensure_full_rank": [True, False],
                                               "paths": ["formula", "two-sided-specs"], "outputs": ["numpy", "sparse"]}))
        subs.append(Sub("numeric-degenerate", drv_numeric_frames, {"terms": TERMS_PLAIN, "n": 2, "wrt": 2, "paths": ["formula"], "icpts": [True],
                                                                    "outputs": ["pandas", "numpy"], "impl_fd": True},
                        shard_depth=3, bounds={"frames": [f[0] for f in DEGENERATE_FRAMES], "max_terms": 2, "term_pool": 7, "wrt_max_len": 2,
                                               "intercept": "on", "ensure_full_rank": [True, False], "paths": ["formula"], "outputs": ["pandas", "numpy"],
                                               "also": "difference of the implementation's own columns of the original term at x and x+1"}))
        subs.append(Sub("names-symbolic", drv_names_symbolic, {"roles": NAME_ROLES, "n": 2, "wrt": 3, "orderings": ["none", "degree"],
                                                                "sides": ["simple", "y"]},
                        shard_depth=2, bounds={"names": {"transform": TRANSFORM_NAMES, "identifier": OTHER_NAMES, "quoted": QUOTED_NAMES,
                                                         "function (column N next to factor N(a))": FUNC_NAMES},
                                               "factors": "a, N, c (or N(a))", "max_terms": 2, "term_pool": 7, "wrt_max_len": 3,
                                               "wrt_vars": "a, N, c, d", "orderings": ["none", "degree"], "sides": ["simple", "y ~"]}))
        subs.append(Sub("names-numeric", drv_names_numeric, {"roles": NAME_ROLES, "n": 2, "wrt": 2, "paths": ["formula"]},
                        shard_depth=2, bounds={"names": "all but the function role (%d)" % (len(NAME_ROLES) - len(FUNC_NAMES)), "max_terms": 2, "term_pool": 7, "wrt_max_len": 2,
                                               "ensure_full_rank": [True, False], "paths": ["formula"]}))
        subs.append(Sub("names-paths", drv_names_numeric, {"roles": NAME_ROLES, "n": 1, "wrt": 2, "paths": PATHS[1:], "icpts": [True]},
                        shard_depth=2, bounds={"names": "all but the function role (%d)" % (len(NAME_ROLES) - len(FUNC_NAMES)), "max_terms": 1, "wrt_max_len": 2, "intercept": "on",
                                               "ensure_full_rank": [True, False], "paths": PATHS[1:]}))
        subs.append(Sub("mutation-history", drv_history, {"terms": HISTORY_TERMS, "n": 2, "wrt": 2, "wrt_vars": ["a", "b", "d"],
                                                           "orderings": ["none", "degree"], "ops": 2},
                        shard_depth=3, bounds={"term_pool": [":".join(t) for t in HISTORY_TERMS], "max_terms": 2, "wrt_max_len": 2, "wrt_vars": "a, b, d",
                                               "orderings": ["none", "degree"], "operations": HISTORY_OPS, "history_length": "1..2 mutations",
                                               "entry": ["Formula.differentiate", "ModelSpec.differentiate"]}))
        subs.append(Sub("literal-symbolic", drv_literal_symbolic, {"literals": LITERALS, "n": 2, "wrt": 3, "orderings": ["none", "degree"],
                                                                    "sides": ["simple", "y"]},
                        shard_depth=3, bounds={"literal_factor": LITERALS, "factors": "L, a, b, c (every product of <= 3 except the lone literal)",
                                               "factor_order": ["literal first", "reversed"], "max_terms": 2, "term_pool": 13, "wrt_max_len": 3,
                                               "orderings": ["none", "degree"], "sides": ["simple", "y ~"]}))
        subs.append(Sub("literal-numeric", drv_literal_numeric, {"literals": LITERALS, "n": 1, "wrt": 3, "paths": PATHS, "outputs": ["pandas", "numpy"], "rematerialize": True},
                        shard_depth=3, bounds={"literal_factor": LITERALS, "max_terms": 1, "term_pool": 13, "factor_order": ["literal first", "reversed"],
                                               "wrt_max_len": 3, "ensure_full_rank": [True, False], "paths": PATHS, "outputs": ["pandas", "numpy"]}))
        subs.append(Sub("fitted-stateful", drv_fitted, {"terms": TERMS_STATEFUL, "n": 2, "wrt": 2, "eval_frames": EVAL_FRAMES},
                        shard_depth=2, bounds={"factors": "center(a), scale(a), b, c", "max_terms": 2, "term_pool": 14, "wrt_max_len": 2,
                                               "ensure_full_rank": [True, False], "fit_on": "training frame (4 rows)",
                                               "materialized_on": ["training frame", "other frame (3 rows, other values)"]}))
        subs.append(Sub("fitted-spec", drv_fitted, {"terms": TERMS_PLAIN, "n": 2, "wrt": 2}, shard_depth=2,
                        bounds={"max_terms": 2, "term_pool": 7, "wrt_max_len": 2}))
    return subs
