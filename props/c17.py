"""C17 - required variables, name resolution order and '.' expansion are exact."""
import itertools
import re

import numpy as np
import pandas as pd

from mc.explorer import Skip
from mc.runner import Sub
import props.common  # noqa: F401  (silences warnings)

RULE = (
    "required: every formula made of one factor, or of the sum or the interaction of two factors, from the stated "
    "factor list, one-sided and with a left-hand side; for the variables reported by Formula(...).required_variables "
    "(before materialization) and by the fitted ModelSpec(s).required_variables (after): the frame restricted to "
    "exactly those columns, that frame plus one unused column, and that frame minus each single reported column.  "
    "resolution: for a value name and a callable name, every combination of {data, context, built-in transforms} "
    "defining the name x factor template x entry point.  dot: every ordered list of <= 3 column names x every subset "
    "used on the left-hand side x left-hand-side form x entry point.  Non-trivial = the formula was parsed and at "
    "least one materialization / expansion was compared with its expected outcome."
)
ASSUMPTIONS = [
    "small-scope hypothesis: variable extraction works factor by factor (one AST walk per factor, union over terms), so "
    "formulas with more than two factors and names deeper than one attribute add no new mechanism",
    "the evaluation contexts used in 'required' only define the helper callables f and g and never a data column name, so "
    "a missing column cannot be satisfied from another layer; column names never coincide with Python builtins",
    "the frame 'containing everything' is built from a hand-written table of the columns each factor reads (NEEDS); the "
    "verdicts themselves are operational (does materialization succeed / raise FactorEvaluationError) and do not use it",
    "a pandas frame cannot hold a callable, so 'data defines the callable name' means a numeric column of that name: the "
    "expected outcome (data wins) is then a FactorEvaluationError because a column is not callable",
    "plain-name lookups whose winning layer holds a function rather than a column (e.g. the factor `log` with only the "
    "built-in transform defined) are UNSPECIFIED and skipped",
]

# ----------------------------------------------------------------------------
# required variables

#        factor text            columns it reads (hand-written; used only to build the full frame / for diagnosis)
FACTORS = [
    ("a", ["a"]),
    ("`a b`", ["a b"]),
    ("log(a)", ["a"]),
    ("np.log(a)", ["a"]),
    ("f(g(a), b)", ["a", "b"]),
    ("a.real", ["a.real"]),                # a column whose name contains a dot (plain-name lookup)
    ("{a.values}", ["a"]),                 # attribute access on a column
    ("{a + b}", ["a", "b"]),
    ("{a.sum() * b}", ["a", "b"]),
    ("I(a**2)", ["a"]),
    ("C(A)", ["A"]),
    ("center(a):b", ["a", "b"]),
    ("poly(a, 2)", ["a"]),
    ("b", ["b"]),
    ("log(`a b`)", ["a b"]),
    ("{a.sum()}", ["a"]),
    ("log(`a.real`)", ["a.real"]),         # a dotted column name used inside a call
    ("`n:s`", ["n:s"]),                    # a column name containing a colon
    ("{`n:s` + `a b`}", ["n:s", "a b"]),
    # interactions of categoricals whose main effects are absent: under rank reduction they expand into several
    # scoped terms (G, H, G:H with different reductions) that do not all contain every factor
    ("G:H", ["G", "H"]),
    ("C(G):H", ["G", "H"]),
    ("A:G:a", ["A", "G", "a"]),
    # every syntactic position of a Python expression in which a column name can occur
    ("exp(a_b)", ["a_b"]),                               # a plain name equal to the sanitized alias of `a b` (listed after log(`a b`))
    ("np.clip(a, a_min=b, a_max=None)", ["a", "b"]),     # keyword argument
    ("{offsets[gi]}", ["gi"]),                           # only inside a subscript (offsets comes from the context)
    ("{a[0:] * lut[gi]}", ["a", "gi"]),                  # subscripted column (slice) and subscript index
    ("abs(a)", ["a"]),                                   # Python builtin as the callable
    ("round(b * kk)", ["b"]),                            # builtin + a context constant
    ("np.where(a > 2, b, a)", ["a", "b"]),               # comparison
    ("{a * (2 if kk else 3) + b}", ["a", "b"]),          # conditional expression (on constants: both columns are evaluated)
    ("{sum([a * wt for wt in (1, 2)])}", ["a"]),         # comprehension (wt is a bound name, not a column)
    # attribute access on / call of something that is not a (dotted) name
    ("{(a + b).abs()}", ["a", "b"]),                     # method of a parenthesised expression
    ("{(a - np.mean(a)).abs() + b}", ["a", "b"]),
    ("{b * a[0].real}", ["a", "b"]),                     # attribute of a subscript
    ("{fs[0](a) + fs[1](b)}", ["a", "b"]),               # call of a subscript (fs is a context list of functions)
    ("{a * len('x'.join(['p', 'q']))}", ["a"]),          # method of a literal
    ("{np.abs(a - b).max() * a}", ["a", "b"]),           # method of a call result
    ("{h(a)(b)}", ["a", "b"]),                           # call of a call result (h is a context function returning a function)
    # a back-quoted name and the identifier equal to its sanitised alias inside the SAME Python factor (both orders)
    ("I(`a b` + a_b)", ["a b", "a_b"]),
    ("I(a_b * `a b`)", ["a b", "a_b"]),
    ("{a_b + f(`a b`, a_b)}", ["a b", "a_b"]),
    # reported clean-tree corner cases (see notes/c17.md: X-a, X-c, X-d)
    ("log", ["log"]),                                    # a data column named like a built-in transform
    ("0.0:b", ["b"]),                                    # a term scaled by zero still evaluates its factor
    ("Q('a b')", ["a b"]),                               # column referenced through the Q() quoting helper
]
LHS = [("", []), ("y ~ ", ["y"]), ("log(y) ~ ", ["y"]), ("`y z` ~ ", ["y z"])]

COLUMNS = {
    "a": [1.0, 2.0, 3.0, 5.0, 7.0, 4.0],
    "b": [2.0, -1.0, 0.5, 3.0, 1.0, 8.0],
    "A": ["x", "y", "z", "x", "y", "z"],
    "G": ["k", "l", "k", "l", "k", "l"],
    "H": ["m", "m", "n", "n", "m", "n"],
    "a b": [1.5, 2.5, 0.5, 4.0, 6.0, 3.0],
    "a_b": [0.1, 0.2, 0.3, 0.4, 0.5, 0.6],
    "gi": [0, 1, 0, 1, 1, 0],
    "log": [2.0, 3.0, 1.0, 5.0, 4.0, 6.0],
    "a.real": [9.0, 8.0, 7.0, 5.0, 6.0, 4.0],
    "n:s": [2.0, 4.0, 8.0, 1.0, 3.0, 9.0],
    "y": [1.0, 2.0, 4.0, 3.0, 6.0, 5.0],
    "y z": [3.0, 1.0, 2.0, 6.0, 4.0, 5.0],
    "zz": [0.5, 0.25, 0.75, 1.0, 2.0, 3.0],
}


def frame(cols):
    d = {}
    for k in COLUMNS:  # fixed column order
        if k in cols:
            d[k] = pd.Series(COLUMNS[k], dtype=object if k in ("A", "G", "H") else int if k == "gi" else float)
    return pd.DataFrame(d, index=range(6))


def _f(x, y):
    return x + y


def _g(x):
    return x * 2


def _h(x):
    return lambda y: x + y


REQ_CONTEXT = {"f": _f, "g": _g, "offsets": np.array([10.0, 20.0]), "lut": np.array([0.5, 2.0]), "kk": 2,
               "fs": [_g, np.square], "h": _h}


def outcome(fn):
    from formulaic.errors import FactorEvaluationError
    try:
        fn()
    except FactorEvaluationError as e:
        return ("FactorEvaluationError", str(e)[:160])
    except Exception as e:  # noqa: BLE001 - anything else is classified, not hidden
        return ("other-error", "%s: %s" % (type(e).__name__, str(e)[:160]))
    return ("ok",)


def drv_required(c, ctx, col):
    from formulaic import Formula, model_matrix

    facs = ctx["factors"]
    i = c.choose(len(facs))
    shape = c.pick(ctx["shapes"])
    if shape == "single":
        parts = [facs[i]]
    else:
        j = c.choose(len(facs))
        if j == i or (shape != "sum+interaction" and not ctx["ordered"] and j < i):
            raise Skip()
        parts = [facs[i], facs[j]]
        if shape == "sum+interaction":
            k = c.choose(len(facs))
            if k <= j or k == i:
                raise Skip()
            parts.append(facs[k])
    lhs_i = c.choose(len(ctx["lhs"]))
    lhs_text, lhs_needs = ctx["lhs"][lhs_i]
    if "0.0:b" in [p_[0] for p_ in parts] and "b" in [p_[0] for p_ in parts]:
        raise Skip()  # `b + 0.0:b` is rejected by the parser (same term with two scalings)
    if any(p_[0] == "log" for p_ in parts) and re.search(r"(?<![\w.])log\(", lhs_text + " ".join(p_[0] for p_ in parts)):
        col.count("scope:column-log-would-shadow-the-transform-of-another-factor")
        raise Skip()
    rhs_text = {"single": "%s", "sum": "%s + %s", "interaction": "%s:%s", "sum+interaction": "%s + %s:%s"}[shape] % tuple(p[0] for p in parts)
    text = lhs_text + rhs_text
    needs = sorted(set(lhs_needs).union(*[p[1] for p in parts]))
    full = frame(set(needs) | {"zz"})
    tag = "factors=%s" % [p[0] for p in parts]
    base_repro = ("import pandas as pd, numpy as np; from formulaic import *; f = lambda x, y: x + y; g = lambda x: x * 2; "
                  "offsets = np.array([10., 20.]); lut = np.array([.5, 2.]); kk = 2; fs = [g, np.square]; h = lambda x: (lambda y: x + y); "
                  "full = pd.DataFrame(%r).astype({%s}); " % (full.to_dict("list"), ", ".join("%r: object" % k for k in ("A", "G", "H") if k in full)))
    col.sample({"formula": text, "columns_read": needs})

    def bad(sig, what, detail):
        detail = dict(detail, formula=text, columns_read_by_the_formula=needs)
        col.violation("%s :: %r :: %s :: %s" % (sig, text, what, tag), detail, sig=sig)

    # the frame holding every column the formula reads (+ an unused one) must materialize
    fitted = []

    def fit():
        fitted.append(model_matrix(text, full, context=REQ_CONTEXT))

    o = outcome(fit)
    if o[0] != "ok":
        bad("full-frame-materialization-fails", "full frame", {"outcome": o, "repro": base_repro + "model_matrix(%r, full)" % text})
        return
    spec = fitted[0].model_spec

    # restricted-data oracle on the hand-written table: the formula really reads every column listed for it, so the full frame
    # minus any one of them must fail with a factor-evaluation error (never silently evaluate something else)
    for cname in needs:
        less = full[[k for k in full.columns if k != cname]]
        o = outcome(lambda: model_matrix(text, less, context=REQ_CONTEXT))
        col.count("materializations")
        if o[0] == "ok":
            bad("missing-column-silently-accepted", "without %r" % cname,
                {"removed": cname, "repro": base_repro + "print(model_matrix(%r, full.drop(columns=[%r])))  # must raise" % (text, cname)})
        elif o[0] != "FactorEvaluationError":
            bad("missing-column-raises-other-error", "without %r" % cname,
                {"removed": cname, "outcome": o, "repro": base_repro + "model_matrix(%r, full.drop(columns=[%r]))" % (text, cname)})

    phases = []
    try:
        r0 = sorted(str(v) for v in Formula(text).required_variables)
        phases.append(("formula", r0, lambda d: model_matrix(text, d, context=REQ_CONTEXT),
                       "Formula(%r).required_variables" % text, "model_matrix(%r, d)" % text))
    except Exception as e:  # noqa: BLE001
        bad("formula-required-variables-raises", "Formula(...).required_variables",
            {"error": "%s: %s" % (type(e).__name__, str(e)[:160]), "repro": "from formulaic import Formula; Formula(%r).required_variables" % text})
    try:
        r1 = sorted(str(v) for v in spec.required_variables)
        phases.append(("fitted-spec", r1, lambda d: spec.get_model_matrix(d, context=REQ_CONTEXT),
                       "model_matrix(%r, full).model_spec.required_variables" % text,
                       "model_matrix(%r, full).model_spec.get_model_matrix(d)" % text))
    except Exception as e:  # noqa: BLE001
        bad("fitted-required-variables-raises", "ModelSpec.required_variables",
            {"error": "%s: %s" % (type(e).__name__, str(e)[:160]), "repro": base_repro + "model_matrix(%r, full).model_spec.required_variables" % text})

    col.interesting()
    for phase, R, mat, rexpr, mexpr in phases:
        n_before = col.n_violations
        reported_all = list(R)
        info = {"reported": R, "repro": base_repro + "print(%s)" % rexpr}
        if phase == "formula":
            # documented limitation of Formula.required_variables: without a context it cannot tell a column from a constant that
            # the caller's context supplies ("This may not always be possible ...").  Names the context defines are UNSPECIFIED.
            from_ctx = [r for r in R if r.split(".", 1)[0] in REQ_CONTEXT and r not in full.columns]
            if from_ctx:
                col.count("unspecified:context-name-reported-before-materialization", len(from_ctx))
                R = [r for r in R if r not in from_ctx]
                info["reported_context_names_ignored"] = from_ctx
        present = [r for r in R if r in full.columns]
        not_cols = [r for r in R if r not in full.columns]
        if not_cols:
            bad(phase + "-reports-a-name-that-is-not-a-column", "reported %r" % (not_cols,), info)
        else:
            exact = full[[k for k in full.columns if k in R]]
            o = outcome(lambda: mat(exact))
            col.count("materializations")
            if o[0] != "ok":
                bad(phase + "-required-variables-insufficient", "reported %r" % (R,),
                    dict(info, outcome_on_exactly_the_reported_columns=o, repro=base_repro + "d = full[%r]; %s" % (list(exact.columns), mexpr)))
            else:
                plus = full[[k for k in full.columns if k in R or k == "zz"]]
                o = outcome(lambda: mat(plus))
                col.count("materializations")
                if o[0] != "ok":
                    bad(phase + "-extra-column-breaks-materialization", "reported %r + zz" % (R,), dict(info, outcome=o))
        for r in present:
            less = full[[k for k in full.columns if k in R and k != r]]
            o = outcome(lambda: mat(less))
            col.count("materializations")
            if o[0] == "ok":
                bad(phase + "-required-variable-not-necessary", "without %r" % r,
                    dict(info, removed=r, repro=base_repro + "d = full[%r]; %s  # succeeds without %r" % (list(less.columns), mexpr, r)))
            elif o[0] != "FactorEvaluationError":
                bad(phase + "-missing-column-raises-other-error", "without %r" % r, dict(info, removed=r, outcome=o))
        if col.n_violations == n_before and sorted(R) != sorted(needs):
            # the operational oracles are blind when a missing column is silently replaced by something else
            bad(phase + "-required-variables-differ-from-columns-read", "reported %r" % (R,), dict(info, reported_before_filtering=reported_all))


# ----------------------------------------------------------------------------
# name resolution order

DATA_A = [1.0, 2.0, 3.0, 5.0, 7.0, 4.0]
DATA_NAME = [1.5, 2.5, 3.5, 4.5, 5.5, 6.5]          # the data column called NAME
CTX_VALUE = np.array([10.0, 20.0, 30.0, 40.0, 50.0, 60.0])


def _ctx_callable(x):
    return x * 100.0


def _probe(x):
    """maps whatever the name resolved to onto a numeric column that identifies it"""
    if callable(x):
        return np.full(6, 3.0)
    return np.asarray(x, dtype=float)


def _captured_call(formula, data, probe, vq, fq, log, center):  # noqa: ARG001 - the arguments ARE the caller's context
    from formulaic import model_matrix
    if vq is None:
        del vq
    if fq is None:
        del fq
    if log is None:
        del log
    if center is None:
        del center
    return model_matrix(formula, data)


RES_ROUTES = ["model_matrix(context=dict)", "Formula.get_model_matrix(context=dict)",
              "ModelSpec.from_spec(...).get_model_matrix(context=dict)", "PandasMaterializer(data, context=dict).get_model_matrix",
              "model_matrix(caller's frame)",
              # every entry point again with a spec override, and re-use of a fitted spec: the context must be forwarded
              "model_matrix(context=dict, output='numpy')", "Formula.get_model_matrix(context=dict, output='numpy')",
              "ModelSpec.from_spec(...).get_model_matrix(context=dict, output='numpy')",
              "PandasMaterializer(data, context=dict).get_model_matrix(output='numpy')",
              "fitted spec.get_model_matrix(context=dict)", "fitted spec.get_model_matrix(context=dict, output='numpy')"]


def drv_resolution(c, ctx, col):
    from formulaic import Formula, ModelSpec, model_matrix
    from formulaic.materializers import PandasMaterializer
    from formulaic.transforms import TRANSFORMS

    role = c.pick(["value", "callable"])
    name = c.pick(["vq", "log", "v.q", "v q"] if role == "value" else ["fq", "log", "center"])
    in_data = c.flag()
    in_ctx = c.flag()
    template = c.pick(["NAME", "probe(NAME)", "{NAME + 0}"] if role == "value" else ["NAME(a)", "probe(NAME(a))"])
    route = c.pick(RES_ROUTES)
    side = c.pick(["rhs", "lhs"])
    in_tr = name in TRANSFORMS
    assert in_tr == (name in ("log", "center"))
    special = not name.isidentifier()  # a name that must be back-quoted (contains '.' or ' ')
    if special and route == "model_matrix(caller's frame)":
        raise Skip()  # a Python frame cannot hold such a name
    text = template.replace("NAME", "`%s`" % name if special else name) + (" - 1" if side == "rhs" else " ~ a - 1")

    data = {"a": DATA_A}
    if in_data:
        data[name] = DATA_NAME
    data = pd.DataFrame(data)
    ctxval = CTX_VALUE if role == "value" else _ctx_callable
    context = {"probe": _probe}
    if in_ctx:
        context[name] = ctxval

    winner = "data" if in_data else "context" if in_ctx else "transforms" if in_tr else None
    a = np.array(DATA_A)
    wval = {"data": np.array(DATA_NAME), "context": ctxval, "transforms": TRANSFORMS.get(name), None: None}[winner]
    # expected outcome: perform the factor's operation on the winning layer's value in plain Python
    if winner is None:
        want = "error"
    elif role == "value":
        if template == "NAME":
            if callable(wval):
                col.count("unspecified:lookup-of-a-function")
                raise Skip()
            want = np.asarray(wval, dtype=float)
        elif template == "probe(NAME)":
            want = _probe(wval)
        else:
            want = "error" if callable(wval) else np.asarray(wval, dtype=float) + 0
    else:
        if not callable(wval):
            want = "error"
        elif winner == "transforms":
            want = np.log(a) if name == "log" else a - a.mean()
        else:
            want = a * 100.0
    cfg = "name=%s role=%s side=%s defined_in={data:%s, context:%s, transforms:%s} via %s" % (name, role, side, in_data, in_ctx, in_tr, route)
    key_tail = "%r :: %s" % (text, cfg)
    col.sample({"formula": text, "config": cfg, "expected_layer": winner})
    res = []

    def run():
        if route == "model_matrix(context=dict)":
            res.append(model_matrix(text, data, context=context))
        elif route == "Formula.get_model_matrix(context=dict)":
            res.append(Formula(text).get_model_matrix(data, context=context))
        elif route == "ModelSpec.from_spec(...).get_model_matrix(context=dict)":
            res.append(ModelSpec.from_spec(text).get_model_matrix(data, context=context))
        elif route == "PandasMaterializer(data, context=dict).get_model_matrix":
            res.append(PandasMaterializer(data, context=context).get_model_matrix(text))
        elif route == "model_matrix(context=dict, output='numpy')":
            res.append(model_matrix(text, data, context=context, output="numpy"))
        elif route == "Formula.get_model_matrix(context=dict, output='numpy')":
            res.append(Formula(text).get_model_matrix(data, context=context, output="numpy"))
        elif route == "ModelSpec.from_spec(...).get_model_matrix(context=dict, output='numpy')":
            res.append(ModelSpec.from_spec(text).get_model_matrix(data, context=context, output="numpy"))
        elif route == "PandasMaterializer(data, context=dict).get_model_matrix(output='numpy')":
            res.append(PandasMaterializer(data, context=context).get_model_matrix(text, output="numpy"))
        elif route == "fitted spec.get_model_matrix(context=dict)":
            res.append(model_matrix(text, data, context=context).model_spec.get_model_matrix(data, context=context))
        elif route == "fitted spec.get_model_matrix(context=dict, output='numpy')":
            res.append(model_matrix(text, data, context=context).model_spec.get_model_matrix(data, context=context, output="numpy"))
        else:
            res.append(_captured_call(text, data, _probe, context.get("vq"), context.get("fq"), context.get("log"), context.get("center")))

    o = outcome(run)
    col.interesting()
    detail = {"formula": text, "config": cfg, "expected_layer": winner, "outcome": o,
              "data_columns": list(data.columns), "context_names": sorted(context),
              "repro": "see props/c17.py drv_resolution; data column %r=%r, context value %s" % (
                  name, DATA_NAME, "array(10..60)" if role == "value" else "lambda x: x*100")}
    if isinstance(want, str):
        if o[0] == "ok":
            got = np.asarray(res[0].lhs if side == "lhs" else res[0], dtype=float)[:, -1].tolist()
            col.violation("resolution-should-fail :: " + key_tail, dict(detail, got_column=got), sig="resolution-uses-wrong-layer")
        elif o[0] != "FactorEvaluationError":
            col.violation("resolution-other-error :: " + key_tail, detail, sig="resolution-raises-other-error")
        else:
            col.count("agree:error")
        return
    if o[0] != "ok":
        col.violation("resolution-fails :: " + key_tail, detail, sig="resolution-fails-although-defined")
        return
    mm = res[0].lhs if side == "lhs" else res[0]
    got = np.asarray(mm, dtype=float)
    if got.shape != (6, 1) or not np.allclose(got[:, 0], want, rtol=1e-9, atol=1e-12):
        col.violation("resolution-value :: " + key_tail, dict(detail, got=got.tolist(), want=np.asarray(want).tolist()),
                      sig="resolution-uses-wrong-layer")
    else:
        col.count("agree:value")
    vbs = {k: sorted(str(v) for v in vs) for k, vs in mm.model_spec.variables_by_source.items()}
    exp_sources = {name: winner}
    if "probe" in template:
        exp_sources["probe"] = "context"
    if "(a)" in template:
        exp_sources["a"] = "data"
    for n, layer in sorted(exp_sources.items()):
        where = sorted(str(k) for k, vs in vbs.items() if n in vs)
        if where != [layer]:
            col.violation("resolution-source(%s) :: %s" % (n, key_tail), dict(detail, variable=n, variables_by_source=vbs, reported_layers=where,
                                                                            expected_layer=layer), sig="variables-by-source-reports-wrong-layer")
        else:
            col.count("agree:source")
    stray = sorted(set(v for vs in vbs.values() for v in vs) - set(exp_sources))
    if stray:
        col.violation("resolution-source(stray) :: " + key_tail, dict(detail, variables_by_source=vbs, unexpected_variables=stray),
                      sig="variables-by-source-lists-unused-variable")


# ----------------------------------------------------------------------------
# name resolution when a fitted spec is re-used with a different set of defining layers

def _expected(role, name, template, in_data, in_ctx):
    from formulaic.transforms import TRANSFORMS
    in_tr = name in TRANSFORMS
    winner = "data" if in_data else "context" if in_ctx else "transforms" if in_tr else None
    a = np.array(DATA_A)
    ctxval = CTX_VALUE if role == "value" else _ctx_callable
    wval = {"data": np.array(DATA_NAME), "context": ctxval, "transforms": TRANSFORMS.get(name), None: None}[winner]
    if winner is None:
        return winner, "error"
    if role == "value":
        if template == "NAME":
            return winner, ("unspecified" if callable(wval) else np.asarray(wval, dtype=float))
        return winner, _probe(wval)
    if not callable(wval):
        return winner, "error"
    if winner == "transforms":
        return winner, (np.log(a) if name == "log" else a - a.mean())
    return winner, a * 100.0


def drv_resolution_reuse(c, ctx, col):
    from formulaic import model_matrix

    role = c.pick(["value", "callable"])
    name = c.pick(["vq", "log"] if role == "value" else ["fq", "log"])
    template = c.pick(["NAME", "probe(NAME)"] if role == "value" else ["NAME(a)"])
    d1, c1, d2, c2 = c.flag(), c.flag(), c.flag(), c.flag()
    text = template.replace("NAME", name) + " - 1"
    ctxval = CTX_VALUE if role == "value" else _ctx_callable

    def world(in_data, in_ctx):
        data = {"a": DATA_A}
        if in_data:
            data[name] = DATA_NAME
        context = {"probe": _probe}
        if in_ctx:
            context[name] = ctxval
        return pd.DataFrame(data), context

    w1, want1 = _expected(role, name, template, d1, c1)
    w2, want2 = _expected(role, name, template, d2, c2)
    if isinstance(want1, str) or (isinstance(want2, str) and want2 == "unspecified"):
        raise Skip()  # the spec must be fittable; lookups of a function are unspecified
    data1, ctx1 = world(d1, c1)
    data2, ctx2 = world(d2, c2)
    cfg = "name=%s role=%s fitted with {data:%s, context:%s} -> re-used with {data:%s, context:%s}" % (name, role, d1, c1, d2, c2)
    tail = "%r :: %s" % (text, cfg)
    fitted = model_matrix(text, data1, context=ctx1)
    res = []
    o = outcome(lambda: res.append(fitted.model_spec.get_model_matrix(data2, context=ctx2)))
    col.interesting()
    col.sample({"formula": text, "config": cfg, "layer_at_fit": w1, "layer_at_reuse": w2})
    detail = {"formula": text, "config": cfg, "layer_at_fit": w1, "expected_layer_at_reuse": w2, "outcome": o,
              "repro": "fit = model_matrix(%r, data1, context=ctx1); mm = fit.model_spec.get_model_matrix(data2, context=ctx2); "
                       "print(mm, mm.model_spec.variables_by_source, mm.model_spec.required_variables)  # layers as in 'config'" % text}
    if isinstance(want2, str):
        if o[0] == "ok":
            col.violation("reuse-should-fail :: " + tail, detail, sig="reuse-resolution-uses-wrong-layer")
        elif o[0] != "FactorEvaluationError":
            col.violation("reuse-other-error :: " + tail, detail, sig="reuse-resolution-raises-other-error")
        else:
            col.count("agree:error")
        return
    if o[0] != "ok":
        col.violation("reuse-fails :: " + tail, detail, sig="reuse-resolution-fails-although-defined")
        return
    mm = res[0]
    got = np.asarray(mm, dtype=float)
    if got.shape != (6, 1) or not np.allclose(got[:, 0], want2, rtol=1e-9, atol=1e-12):
        col.violation("reuse-value :: " + tail, dict(detail, got=got.tolist(), want=np.asarray(want2).tolist()), sig="reuse-resolution-uses-wrong-layer")
    else:
        col.count("agree:value")
    vbs = {k: sorted(str(v) for v in vs) for k, vs in mm.model_spec.variables_by_source.items()}
    where = sorted(str(k) for k, vs in vbs.items() if name in vs)
    rv = sorted(str(v) for v in mm.model_spec.required_variables)
    if where != [w2] or ((name in rv) != (w2 == "data")):
        col.violation("reuse-source :: " + tail, dict(detail, variables_by_source=vbs, reported_layers=where, required_variables=rv),
                      sig="reuse-variables-by-source-stale" if where == [w1] and w1 != w2 else "reuse-variables-by-source-wrong")
    else:
        col.count("agree:source")


# ----------------------------------------------------------------------------
# required variables across sequence mutations of a formula (bounded histories)

HIST_VARS = {"1": set(), "a": {"a"}, "b": {"b"}, "a:b": {"a", "b"}, "log(c)": {"c"}, "d": {"d"}}
HIST_NEW = ["log(c)", "d"]
HIST_EVENTS = ([("read",), ("read-spec",)] + [("append", t) for t in HIST_NEW] + [("insert", 0, t) for t in HIST_NEW]
               + [("setitem", i, t) for i in (0, -1) for t in HIST_NEW] + [("delitem", 0), ("delitem", -1), ("pop",), ("remove-first",),
                                                                          ("extend", tuple(HIST_NEW)), ("clear",)])
HIST_INITIAL = ["Formula('a + b')", "Formula(['a', 'b', 'a:b'], _ordering='none')", "Formula('y ~ a + b').rhs"]


def drv_histories(c, ctx, col):
    from formulaic import Formula, ModelSpec

    initial = c.pick(HIST_INITIAL)
    n = c.upto(ctx["depth"])
    events = [c.pick(HIST_EVENTS) for _ in range(n)]
    term = ctx["terms"]  # parsed once: str -> Term (immutable)
    base = set()
    if initial == "Formula('a + b')":
        top = f = Formula("a + b")
    elif initial.startswith("Formula(['a'"):
        top = f = Formula(["a", "b", "a:b"], _ordering="none")
    else:
        top = Formula("y ~ a + b")
        f = top.rhs
        base = {"y"}
    spec = ModelSpec.from_spec(top)  # unmaterialized: required_variables falls back to the formula's
    model = [str(t) for t in f]     # the multiset of terms currently in the formula (order is not modelled)
    done = []

    def check(reader, got):
        want = set(base).union(*[HIST_VARS[t] for t in model])
        got = {str(v) for v in got}
        col.count("reads-checked")
        if got != want:
            col.violation("stale-required-variables :: %s :: history=%r :: read via %s" % (initial, done, reader),
                          {"initial": initial, "history": done, "terms_now": list(model), "got": sorted(got), "want": sorted(want),
                           "stale": sorted(got - want), "missing": sorted(want - got),
                           "repro": "replay the history on %s (mutating the right-hand side), reading .required_variables where the history says 'read'" % initial},
                          sig="required-variables-stale-after-mutation")

    for ev in events + [("read",), ("read-spec",)]:
        kind = ev[0]
        if kind in ("delitem", "pop", "remove-first", "setitem") and not model:
            raise Skip()  # index errors on an empty formula are outside this property
        done.append(ev)
        if kind == "read":
            check("formula", top.required_variables)
        elif kind == "read-spec":
            check("unmaterialized ModelSpec(s)", spec.required_variables)
        elif kind == "append":
            f.append(term[ev[1]])
            model.append(ev[1])
        elif kind == "insert":
            f.insert(ev[1], term[ev[2]])
            model.append(ev[2])
        elif kind == "setitem":
            model.remove(str(f[ev[1]]))
            f[ev[1]] = term[ev[2]]
            model.append(ev[2])
        elif kind == "delitem":
            model.remove(str(f[ev[1]]))
            del f[ev[1]]
        elif kind == "pop":
            model.remove(str(f.pop()))
        elif kind == "remove-first":
            t = f[0]
            model.remove(str(t))
            f.remove(t)
        elif kind == "extend":
            f.extend([term[t] for t in ev[1]])
            model.extend(ev[1])
        elif kind == "clear":
            f.clear()
            model.clear()
        col.state((initial, tuple(sorted(model)), kind.startswith("read")))
    if any(e[0] not in ("read", "read-spec") for e in events):
        col.interesting()
    col.sample({"initial": initial, "history": [list(e) for e in events]})


# ----------------------------------------------------------------------------
# '.' expansion

POOL = ["x", "y", "w v"]
DOT_VALUES = {"x": [1.0, 2.0, 3.0, 5.0], "y": [2.0, 1.0, 0.5, 3.0], "w v": [1.5, 2.5, 3.5, 4.5], "z": [4.0, 3.0, 2.0, 1.0],
              "S.L": [5.1, 4.9, 4.7, 4.6], "S": [0.5, 1.5, 2.5, 3.0], "S.W": [3.5, 3.0, 3.2, 3.1], "n:s": [7.0, 6.0, 8.0, 9.0]}
SPECIAL_POOL = ["S.L", "S", "S.W", "n:s", "w v"]   # dotted names sharing the prefix `S`, the prefix itself, a colon, a space


def q(n):
    return n if n.isidentifier() else "`%s`" % n


def q_dots(n):
    """dotted names are valid bare names in a formula (R style); everything else that is not an identifier is back-quoted"""
    return n if re.fullmatch(r"[A-Za-z_][\w.]*", n) else "`%s`" % n


LHS_FORMS = {
    "plain": lambda L: " + ".join(q(n) for n in L),
    "plain, dotted names unquoted": lambda L: " + ".join(q_dots(n) for n in L),
    "log(first)": lambda L: " + ".join(["log(%s)" % q(L[0])] + [q(n) for n in L[1:]]),
    "{sum}": lambda L: "{" + " + ".join(q(n) for n in L) + "}",
    "{first.abs()}": lambda L: " + ".join(["{%s.abs()}" % q(L[0])] + [q(n) for n in L[1:]]),
}
DOT_FORMS = ["plain", "log(first)", "{sum}", "{first.abs()}"]
SPECIAL_FORMS = ["plain", "plain, dotted names unquoted", "log(first)", "{sum}"]
DOT_ROUTES = ["model_matrix", "Formula.from_spec(context=available)", "Formula(_context=available)",
              "parser(include_intercept=True)", "parser(include_intercept=False)"]


def drv_dot(c, ctx, col):
    from formulaic import Formula, model_matrix
    from formulaic.parser import DefaultFormulaParser

    k = c.upto(ctx["max_cols"])
    cols = []
    rest = list(ctx["pool"])
    for _ in range(k):
        cols.append(rest.pop(c.choose(len(rest))))
    L = c.subset(cols)
    if L:
        form = c.pick(ctx["lhs_forms"])
        text = LHS_FORMS[form](L) + " ~ ."
        if form == "plain, dotted names unquoted" and text == LHS_FORMS["plain"](L) + " ~ .":
            raise Skip()  # identical to the 'plain' form
    else:
        form = c.pick(["'.'", "'~ .'"])
        text = "." if form == "'.'" else "~ ."
    route = c.pick(DOT_ROUTES)
    want = [n for n in cols if n not in L]
    data = pd.DataFrame({n: DOT_VALUES[n] for n in cols}, index=range(4))
    avail = {"__formulaic_variables_available__": list(cols)}
    cfg = "columns=%r lhs_uses=%r via %s" % (cols, L, route)
    col.sample({"formula": text, "columns": cols, "expected_dot": want, "route": route})
    got = []

    def run():
        if route == "model_matrix":
            mm = model_matrix(text, data)
            rhs = mm.rhs if L else mm
            names = list(rhs.columns)
            got.append((names[0] == "Intercept", names[1:] if names[:1] == ["Intercept"] else names))
            return
        if route == "Formula.from_spec(context=available)":
            f = Formula.from_spec(text, context=avail)
        elif route == "Formula(_context=available)":
            f = Formula(text, _context=avail)
        else:
            f = DefaultFormulaParser(include_intercept=route.endswith("True)")).get_terms(text, context=dict(avail))
            if set(f._structure) == {"root"}:
                f = f.root
        rhs = f.rhs if L else f
        names = ["1" if str(t) == "1" else ":".join(f.expr for f in t.factors) for t in rhs]  # raw column names, not printed forms
        got.append(("1" in names[:1], [n for n in names if n != "1"] if names[:1] == ["1"] else names))

    o = outcome(run)
    col.interesting()
    repro = ("import pandas as pd; from formulaic import *; print(model_matrix(%r, pd.DataFrame(%r)).rhs.columns)" % (text, data.to_dict("list"))
             if route == "model_matrix" and L else
             "from formulaic import Formula; print(Formula.from_spec(%r, context={'__formulaic_variables_available__': %r}))" % (text, cols))
    detail = {"formula": text, "columns_in_data_order": cols, "used_on_lhs": L, "want_dot": want, "route": route, "repro": repro}
    if o[0] != "ok":
        col.violation("dot-fails :: %r :: %s" % (text, cfg), dict(detail, outcome=o), sig="dot-expansion-fails")
        return
    has_icpt, names = got[0]
    want_icpt = route != "parser(include_intercept=False)"
    if names != want or has_icpt != want_icpt:
        extra = [n for n in names if n not in want]
        if extra and all(n in L for n in extra) and [n for n in names if n in want] == want:
            # which construct hid the variable from the parser (two different root causes, see notes/c17.md)
            method = form == "{first.abs()}" and L[0] in extra
            quoted = any(not n.isidentifier() for n in extra if not (method and n == L[0]))
            qlabel = "quoted-name-in-python-factor" if form in ("log(first)", "{sum}", "{first.abs()}") else "specially-named-column"
            sig = "dot-includes-lhs-variable:" + ("+".join((["method-call-object"] if method else []) +
                                                           ([qlabel] if quoted else [])) or "plain-use")
        else:
            sig = "dot-expansion-wrong"
        col.violation("%s :: %r :: %s" % (sig, text, cfg), dict(detail, got_dot=names, got_intercept=has_icpt, lhs_form=form), sig=sig)
    else:
        col.count("agree")


# ----------------------------------------------------------------------------

# ----------------------------------------------------------------------------
# '.' in ONE-SIDED formulas next to other terms, through parsers that do and do not insert an intercept

ONE_SIDED = [".", "C0 + .", ". + C0", "log(C0) + .", ". + log(C1)", ". + C0:C1", "C0:C1 + .", ". - C0", "log(C0):C1 + . - C1"]
ONE_ROUTES = ["model_matrix(text, data)", "Formula(text, _context=available)", "parser(include_intercept=True)", "parser(include_intercept=False)",
              "Formula([text], _context=available)", "Formula(rhs=text, _context=available).rhs", "model_matrix({'rhs': text}, data).rhs"]


def drv_dot_one_sided(c, ctx, col):
    from formulaic import Formula, model_matrix
    from formulaic.parser import DefaultFormulaParser

    k = c.upto(ctx["max_cols"])
    cols = []
    rest = list(ctx["pool"])
    for _ in range(k):
        cols.append(rest.pop(c.choose(len(rest))))
    shape = c.pick(ONE_SIDED)
    route = c.pick(ONE_ROUTES)
    if ("C1" in shape and len(cols) < 2) or ("C0" in shape and len(cols) < 1):
        raise Skip()
    c0 = cols[0] if cols else None
    c1 = cols[1] if len(cols) > 1 else None
    text = shape.replace("C0", q(c0) if c0 else "").replace("C1", q(c1) if c1 else "")
    # expected terms in parse order: '+' appends what is not yet present ('.' = every column, in data order), '-' removes
    items, sign = [], "+"
    for tok in shape.split(" "):
        if tok in "+-":
            sign = tok
            continue
        new = list(cols) if tok == "." else [tok.replace("C0", c0 or "").replace("C1", c1 or "")]
        new = [n if not n.startswith("log(") else "log(%s)" % q(n[4:n.index(")")]) + n[n.index(")") + 1:] for n in new]
        for n in new:
            if sign == "+" and n not in items:
                items.append(n)
            elif sign == "-" and n in items:
                items.remove(n)
    deg = lambda n: 2 if (n.startswith("log(") and "):" in n) or (":" in n and not n.startswith("log(") and n not in cols) else 1  # noqa: E731
    sorts = route not in ("parser(include_intercept=True)", "parser(include_intercept=False)")
    want = sorted(items, key=deg) if sorts else items
    want_icpt = route in ("model_matrix(text, data)", "Formula(text, _context=available)", "parser(include_intercept=True)")
    data = pd.DataFrame({n: DOT_VALUES[n] for n in cols}, index=range(4))
    avail = {"__formulaic_variables_available__": list(cols)}
    cfg = "columns=%r via %s" % (cols, route)
    col.sample({"formula": text, "columns": cols, "expected_terms": want, "route": route})
    got = []

    def run():
        if route.startswith("model_matrix"):
            mm = model_matrix(text, data) if route == "model_matrix(text, data)" else model_matrix({"rhs": text}, data).rhs
            names = list(mm.columns)
        else:
            if route == "Formula(text, _context=available)":
                f = Formula(text, _context=avail)
            elif route == "Formula([text], _context=available)":
                f = Formula([text], _context=avail)
            elif route == "Formula(rhs=text, _context=available).rhs":
                f = Formula(rhs=text, _context=avail).rhs
            else:
                f = DefaultFormulaParser(include_intercept=route.endswith("True)")).get_terms(text, context=dict(avail)).root
            names = ["Intercept" if str(t) == "1" else ":".join(f_.expr for f_ in t.factors) for t in f]
        got.append(names)

    o = outcome(run)
    col.interesting()
    detail = {"formula": text, "columns_in_data_order": cols, "route": route, "want": (["Intercept"] if want_icpt else []) + want,
              "repro": "from formulaic import *; from formulaic.parser import DefaultFormulaParser; "
                       "print(DefaultFormulaParser(include_intercept=False).get_terms(%r, context={'__formulaic_variables_available__': %r}))" % (text, cols)}
    if o[0] != "ok":
        col.violation("dot-one-sided-fails :: %r :: %s" % (text, cfg), dict(detail, outcome=o), sig="dot-expansion-fails")
    elif got[0] != detail["want"]:
        col.violation("dot-one-sided-wrong :: %r :: %s" % (text, cfg), dict(detail, got=got[0]), sig="dot-expansion-wrong")
    else:
        col.count("agree")


def _hist_terms():
    from formulaic import Formula
    return {t: Formula([t], _ordering="none")[0] for t in HIST_NEW}


def subchecks(tier, seed):
    quick = tier == "quick"
    facs = FACTORS
    shapes = ["single", "sum", "interaction"] + ([] if quick else ["sum+interaction"])
    lhs = LHS[:2] if quick else LHS
    pool = POOL if quick else POOL + ["z"]
    spool = SPECIAL_POOL if quick else SPECIAL_POOL + ["x"]
    bounds_req = {"factors": [f[0] for f in facs], "shapes": {"single": "f", "sum": "f1 + f2", "interaction": "f1:f2",
                                                              "sum+interaction": "f1 + f2:f3 (f2 before f3 in the list)"},
                  "shapes_used": shapes, "pairs": "unordered (i<j)" if quick else "ordered (i!=j)",
                  "left_hand_sides": [l[0] + "..." for l in lhs],
                  "data": ["exactly the reported columns", "reported + 1 unused column", "reported minus each one column"],
                  "phases": ["Formula.required_variables", "fitted ModelSpec(s).required_variables"]}
    return [
        Sub("required", drv_required, {"factors": facs, "ordered": not quick, "lhs": lhs, "shapes": shapes}, shard_depth=3, bounds=bounds_req),
        Sub("resolution", drv_resolution, {}, shard_depth=4,
            bounds={"value_names": ["vq (not a transform)", "log (a transform)", "`v.q` (dotted, back-quoted)", "`v q` (space, back-quoted)"], "callable_names": ["fq", "log", "center"],
                    "layers": "all 2^3 combinations of {data, context, transforms} per role",
                    "templates": ["NAME", "probe(NAME)", "{NAME + 0}", "NAME(a)", "probe(NAME(a))"], "sides": ["rhs", "lhs"],
                    "entry_points": RES_ROUTES}),
        Sub("resolution-reuse", drv_resolution_reuse, {}, shard_depth=3,
            bounds={"names": {"value": ["vq", "log"], "callable": ["fq", "log"]}, "templates": ["NAME", "probe(NAME)", "NAME(a)"],
                    "layers": "every combination of {data, context} defining the name at fit x every combination at re-use "
                              "(the fit must succeed)", "entry_point": "fitted.model_spec.get_model_matrix(data2, context=ctx2)"}),
        Sub("mutation-histories", drv_histories, {"depth": 3 if quick else 4, "terms": _hist_terms()}, shard_depth=3,
            bounds={"initial": HIST_INITIAL, "events": [list(e) for e in HIST_EVENTS], "max_events": 3 if quick else 4,
                    "note": "every history of <= max_events events on a SimpleFormula (also the rhs of a structured formula and the "
                            "formula held by an unmaterialized ModelSpec); required_variables is compared with the union over the "
                            "terms then present at every read event and after the last event"}),
        Sub("dot", drv_dot, {"lhs_forms": DOT_FORMS, "pool": pool, "max_cols": 3 if quick else 4}, shard_depth=3,
            bounds={"column_pool": pool, "column_lists": "every ordered list of <= %d distinct names" % (3 if quick else 4),
                    "lhs": "every subset of the columns", "lhs_forms": DOT_FORMS + ["'.'", "'~ .'"], "entry_points": DOT_ROUTES}),
        Sub("dot-one-sided", drv_dot_one_sided, {"pool": ["x", "y", "w v", "S.L"], "max_cols": 3 if quick else 4}, shard_depth=3,
            bounds={"column_pool": ["x", "y", "w v", "S.L"], "column_lists": "every ordered list of <= %d distinct names" % (3 if quick else 4),
                    "formulas": ONE_SIDED, "entry_points": ONE_ROUTES,
                    "note": "one-sided formulas: '.' = every column; parsers with and without intercept insertion (the nested parser of list / rhs= / dict specs)"}),
        Sub("dot-special-names", drv_dot, {"lhs_forms": SPECIAL_FORMS, "pool": spool, "max_cols": 3 if quick else 4}, shard_depth=3,
            bounds={"column_pool": spool, "column_lists": "every ordered list of <= %d distinct names" % (3 if quick else 4),
                    "lhs": "every subset of the columns", "lhs_forms": SPECIAL_FORMS + ["'.'", "'~ .'"], "entry_points": DOT_ROUTES,
                    "note": "column names containing '.', ':' and ' ' in every role: used on the LHS bare / quoted / inside a call / "
                            "inside braces, and as unused columns that '.' must list; includes a column equal to the prefix of dotted names"}),
    ]
