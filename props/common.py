"""Helpers shared by property drivers."""
import signal
import warnings

from formulaic.errors import FormulaParsingError
from formulaic.parser import DefaultFormulaParser
from formulaic.utils.structured import Structured

warnings.simplefilter("ignore")

FLAG_SETS = [
    ("TWOSIDED", "MULTIPART"),
    (),
    ("TWOSIDED",),
    ("MULTIPART",),
    ("MULTISTAGE",),
    ("TWOSIDED", "MULTISTAGE"),
    ("MULTIPART", "MULTISTAGE"),
    ("TWOSIDED", "MULTIPART", "MULTISTAGE"),
]

_PARSERS = {}


def parser_for(include_intercept=True, flags=("TWOSIDED", "MULTIPART")):
    k = (include_intercept, tuple(flags))
    if k not in _PARSERS:
        _PARSERS[k] = DefaultFormulaParser(include_intercept=include_intercept, feature_flags=set(flags))
    return _PARSERS[k]


def terms_to_plain(x):
    """Structured[OrderedSet[Term]] / Formula -> nested list / tuple / dict of term strings"""
    if isinstance(x, Structured):
        d = {k: terms_to_plain(v) for k, v in x._structure.items()}
        if set(d) == {"root"}:
            return d["root"]
        return d
    if isinstance(x, tuple):
        return tuple(terms_to_plain(v) for v in x)
    return [str(t) for t in x]


def parse(s, include_intercept=True, flags=("TWOSIDED", "MULTIPART"), avail=None):
    """('OK', structure) | ('REJECT', exc name) | ('ESCAPE', exc repr)"""
    ctx = {}
    if avail is not None:
        ctx["__formulaic_variables_available__"] = list(avail)
    try:
        r = parser_for(include_intercept, flags).get_terms(s, context=ctx)
    except FormulaParsingError as e:
        return ("REJECT", type(e).__name__)
    except Exception as e:  # noqa
        return ("ESCAPE", "%s: %s" % (type(e).__name__, str(e)[:80]))
    return ("OK", terms_to_plain(r))


class Timeout(Exception):
    pass


def with_timeout(seconds, fn, *a, **k):
    def h(signum, frame):
        raise Timeout()

    old = signal.signal(signal.SIGALRM, h)
    signal.setitimer(signal.ITIMER_REAL, seconds)
    try:
        return fn(*a, **k)
    finally:
        signal.setitimer(signal.ITIMER_REAL, 0)
        signal.signal(signal.SIGALRM, old)
