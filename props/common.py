"""Helpers shared by property drivers."""
import signal
import warnings

from formulaic.errors import FormulaParsingError
from formulaic.parser import DefaultFormulaParser
from formulaic.utils.structured import Structured

warnings.simplefilter("ignore")

FLAG_SETS = [
    ("TWOSIDED", "MULTIPART"),
    (),
    ("TWOSIDED",),
    ("MULTIPART",),
    ("MULTISTAGE",),
    ("TWOSIDED", "MULTISTAGE"),
    ("MULTIPART", "MULTISTAGE"),
    ("TWOSIDED", "MULTIPART", "MULTISTAGE"),
]

_PARSERS = {}


def parser_for(include_intercept=True, flags=("TWOSIDED", "MULTIPART")):
    """a FRESH parser per call: every execution must be a function of its own choices only (a parser object that served earlier executions
    would carry whatever state a faulty library keeps on it into later ones and make replays diverge)"""
    return DefaultFormulaParser(include_intercept=include_intercept, feature_flags=set(flags))


def terms_to_plain(x):
    """Structured[OrderedSet[Term]] / Formula -> nested list / tuple / dict of term strings"""
    if isinstance(x, Structured):
        d = {k: terms_to_plain(v) for k, v in x._structure.items()}
        if set(d) == {"root"}:
            return d["root"]
        return d
    if isinstance(x, tuple):
        return tuple(terms_to_plain(v) for v in x)
    return [str(t) for t in x]


def parse(s, include_intercept=True, flags=("TWOSIDED", "MULTIPART"), avail=None):
    """('OK', structure) | ('REJECT', exc name) | ('ESCAPE', exc repr)"""
    ctx = {}
    if avail is not None:
        ctx["__formulaic_variables_available__"] = list(avail)
    try:
        r = parser_for(include_intercept, flags).get_terms(s, context=ctx)
    except FormulaParsingError as e:
        return ("REJECT", type(e).__name__)
    except Exception as e:  # noqa
        return ("ESCAPE", "%s: %s" % (type(e).__name__, str(e)[:80]))
    return ("OK", terms_to_plain(r))


class Timeout(Exception):
    pass


def with_timeout(seconds, fn, *a, **k):
    def h(signum, frame):
        raise Timeout()

    old = signal.signal(signal.SIGALRM, h)
    signal.setitimer(signal.ITIMER_REAL, seconds)
    try:
        return fn(*a, **k)
    finally:
        signal.setitimer(signal.ITIMER_REAL, 0)
        signal.signal(signal.SIGALRM, old)


def dense(m):
    """model matrix (pandas / numpy / sparse, possibly wrapped) -> float ndarray; cells that are not numbers become NaN so
    that a comparison fails (and is reported) instead of crashing the harness"""
    import numpy as np
    import pandas as pd

    inner = getattr(m, "__wrapped__", m)
    try:
        if hasattr(inner, "toarray"):
            return np.asarray(inner.toarray(), dtype=float)
        if isinstance(inner, pd.DataFrame):
            try:
                return inner.to_numpy(dtype=float, na_value=np.nan)
            except (TypeError, ValueError):
                return inner.apply(pd.to_numeric, errors="coerce").to_numpy(dtype=float, na_value=np.nan)
        return np.asarray(inner, dtype=float)
    except (TypeError, ValueError):
        arr = np.asarray(inner, dtype=object)
        out = np.full(arr.shape, np.nan)
        for idx, v in np.ndenumerate(arr):
            try:
                out[idx] = float(v)
            except (TypeError, ValueError):
                pass
        return out
