"""C16 - linear-constraint specifications compile to the affine map they express."""
from fractions import Fraction

import numpy

from mc.explorer import HarnessError
from mc.runner import Sub
from models import affine as AF

RULE = (
    "Every expression tree up to the operator bound over the stated leaves and the operators + - * / (rendered with "
    "minimal, full and redundant-leaf parenthesisation, spaced and compact, with and without a unary minus at the head), "
    "as a constraint 'E' or 'E = E'; every list of up to 2 (3) constraints from a stated pool as comma-separated string, "
    "list of strings and mapping {E: value}; every position of one unary sign; x variable-name lists (in order, reversed, "
    "with an unused name, back-ticked names with odd characters, the column names of two materialized ModelSpecs through "
    "ModelSpec.get_linear_constraints).  The oracle is an exact affine-form evaluator over Fractions applied to the "
    "rendered token string by a textbook recursive-descent parser.  Non-trivial = the specification contains at least "
    "one operator and the reference classes it as linear (map compared) or as provably non-affine (rejection required); "
    "counted once per distinct (spec, variable names, entry point)."
)
ASSUMPTIONS = [
    "small-scope hypothesis: the scaled-factor algebra (add/sub/neg/mul/div over sets keyed by factor) and the row "
    "assembly have no mechanism that first fails beyond 4 binary operators / 3 constraints / 3 distinct variables",
    "because the compiled map is affine, equality of all n coefficients and the constant with the exact reference is "
    "equivalent to A.x - b = lhs(x) - rhs(x) for every x",
    "specifications that are affine only after cancellation (x*y - x*y, (x - x)*y, x/(y - y + 2)), divide by a constant "
    "that is exactly zero, or put a unary sign directly after a BINARY ARITHMETIC operator or another sign ('2 * -x', "
    "'x - -y', 'x = - -2': the property's grammar is silent on signs in operand position and the library rejects them with "
    "its parsing error) are UNSPECIFIED: rejection is accepted, a returned map must still be the right one",
    "a unary sign at the head of a constraint is specified wherever a constraint can start: at the start of the string, "
    "after '(', after '=' ('x = -2') and after ',' ('x, -y'), hence also at the start of a list entry (a list is its entries "
    "joined by ',') and of a mapping key: all three forms must accept it and agree",
    "exponent notation ('1e3': the documented numeric literal is [0-9]+\\.[0-9]+, the tokenizer reads '1e3' as a name) and "
    "chained '=' ('x = y = z') have no documented meaning: UNSPECIFIED, outcome only recorded (sub-check unspecified-probes)",
    "'provably non-affine' is decided by a non-zero exact second difference of lhs - rhs along one of 15 lines; a "
    "non-linear specification for which every probed second difference vanishes is classed UNSPECIFIED (sound, "
    "never demands the rejection of an affine function)",
    "floating point: coefficients are compared with absolute/relative tolerance 1e-9 against exact Fractions "
    "(divisors such as 1 + 2 make inexact binary fractions)",
    "a mapping key that itself contains '=' means (lhs - rhs) = value, as pinned by tests/utils/test_constraints.py",
]

X, Y, Z = ("var", "X"), ("var", "Y"), ("var", "Z")
LEAVES6 = [X, Y, Z, "1", "2", "0.5"]
LEAVES3 = [X, Y, "2"]
LEAVES4 = [X, Y, "2", "0.5"]
OPS = ["+", "-", "*", "/"]
PREC = {"+": 1, "-": 1, "*": 2, "/": 2}


# ---------------------------------------------------------------------------
# trees -> tokens


def gen_tree(c, k, leaves):
    """choose an expression tree with exactly k binary operators"""
    if k == 0:
        return c.pick(leaves)
    op = c.pick(OPS)
    kl = c.upto(k - 1)
    return (op, gen_tree(c, kl, leaves), gen_tree(c, k - 1 - kl, leaves))


def is_leaf(t):
    return isinstance(t, str) or t[0] == "var"


def render(t, style, names, parent=None, side=None, bare_sign=False):
    """tokens of tree t.  style: 'min' (parentheses only where the tree shape needs them), 'full' (every binary
    sub-expression parenthesised), 'leafy' (full + every leaf and the root parenthesised).
    Unary nodes are written '( - t )' unless bare_sign (then '- t' in place) or they are the root."""
    if isinstance(t, str):
        return ["(", t, ")"] if style == "leafy" else [t]
    tag = t[0]
    if tag == "var":
        tok = names[t[1]]
        return ["(", tok, ")"] if style == "leafy" else [tok]
    if tag in ("neg", "pos"):
        sign = "-" if tag == "neg" else "+"
        child = t[1]
        inner = render(child, style, names, "u", "R", bare_sign)
        if style == "min" and not is_leaf(child) and (bare_sign or child[0] in ("+", "-", "neg", "pos")):
            inner = ["("] + inner + [")"]  # bare signs bind to the next atom only: keep their operand explicit
        out = [sign] + inner
        if parent is None or bare_sign:
            return out
        return ["("] + out + [")"]
    l = render(t[1], style, names, tag, "L", bare_sign)
    r = render(t[2], style, names, tag, "R", bare_sign)
    inner = l + [tag] + r
    if parent is None:
        return ["("] + inner + [")"] if style == "leafy" else inner
    if style in ("full", "leafy"):
        return ["("] + inner + [")"]
    if parent == "u":
        return inner  # the unary node decides
    need = PREC[tag] < PREC[parent] or (PREC[tag] == PREC[parent] and side == "R")
    return ["("] + inner + [")"] if need else inner


def join(tokens, spaced):
    return (" " if spaced else "").join(tokens)


# ---------------------------------------------------------------------------
# variable namings / entry points


def _namings():
    """name -> (placeholder -> token text, variable_names | model spec key, entry point)"""
    plain = {"X": "x", "Y": "y", "Z": "z"}
    return {
        "xyz": (plain, ["x", "y", "z"], "from_spec"),
        "zyx": (plain, ["z", "y", "x"], "from_spec"),
        "extra": (plain, ["y", "unused", "z", "x"], "from_spec"),
        "ticked": ({"X": "`a b`", "Y": "`A[T.a]`", "Z": "`x:y`"}, ["a b", "A[T.a]", "x:y"], "from_spec"),
        "ticked-plain": ({"X": "`x`", "Y": "y", "Z": "`z`"}, ["x", "y", "z"], "from_spec"),
        "spec-numeric": ({"X": "x", "Y": "Intercept", "Z": "z"}, "numeric", "model_spec"),
        "spec-categorical": ({"X": "A[T.b]", "Y": "`x:y`", "Z": "`A[T.c]`"}, "categorical", "model_spec"),
        # column names that read like numeric literals (dummy / pivoted level columns): the column `1` is not the constant 1
        "ticked-digits": ({"X": "`1`", "Y": "`0`", "Z": "`10`"}, ["0", "1", "2", "10"], "from_spec"),
        "ticked-digits-2": ({"X": "`2`", "Y": "`1`", "Z": "`0.5`"}, ["2", "0.5", "1"], "from_spec"),
        "spec-digits": ({"X": "`1`", "Y": "`2`", "Z": "x"}, "digits", "model_spec"),
        # model-matrix style column names (index / call shaped) written bare (a PYTHON token) AND back-quoted (a NAME token)
        # in the same constraint: X and Y are two spellings of ONE column and must be merged
        "both-spellings": ({"X": "A[T.b]", "Y": "`A[T.b]`", "Z": "z"}, ["z", "A[T.b]"], "from_spec"),
        "both-spellings-call": ({"X": "`np.log(x)`", "Y": "np.log(x)", "Z": "`x:A[T.b]`"}, ["np.log(x)", "C(a)[T.x]", "x:A[T.b]"], "from_spec"),
        "spec-both-spellings": ({"X": "A[T.c]", "Y": "`A[T.c]`", "Z": "`x:y`"}, "categorical", "model_spec"),
    }


NAMINGS = _namings()
_SPECS = {}
SPEC_FORMULAS = {"numeric": "x + y + z", "categorical": "A + x:y + z", "digits": "0 + `0` + `1` + `2` + x"}


def model_spec(which):
    if which not in _SPECS:
        import pandas
        from formulaic import model_matrix

        df = pandas.DataFrame({
            "A": pandas.Series(["a", "b", "c", "a"], dtype=object),
            "x": [1.0, 2.0, 4.0, 8.0], "y": [3.0, 5.0, 7.0, 11.0], "z": [0.5, 0.25, 2.0, 1.0],
        })
        if which == "digits":
            df = pandas.DataFrame({"0": [1.0, 0.0, 0.0, 1.0], "1": [0.0, 1.0, 0.0, 2.0], "2": [0.0, 0.0, 1.0, 3.0], "x": [0.5, 1.5, 2.5, 4.0]})
        _SPECS[which] = model_matrix(SPEC_FORMULAS[which], df).model_spec
    return _SPECS[which]


def resolve_naming(key):
    toks, names, via = NAMINGS[key]
    if via == "model_spec":
        ms = model_spec(names)
        return toks, list(ms.column_names), ms
    return toks, list(names), None


# ---------------------------------------------------------------------------
# the comparison


def call_impl(spec, names, ms):
    from formulaic.utils.constraints import LinearConstraints

    try:
        if ms is not None:
            # a fresh ModelSpec object per execution and a fixed two-call history (a primer with the same expressions
            # but other mapping values, then the real call): anything the spec object remembers between calls shows up
            # deterministically instead of depending on what earlier executions of this worker happened to ask
            ms = ms.update()
            primer = {k: v + 1 for k, v in spec.items()} if isinstance(spec, dict) else spec
            try:
                ms.get_linear_constraints(primer)
            except Exception:
                pass
            lc = ms.get_linear_constraints(spec)
        else:
            lc = LinearConstraints.from_spec(spec, variable_names=list(names))
    except Exception as e:  # "rejected" = any exception
        return ("EXC", type(e).__name__, str(e).split("\n")[0][:100])
    return ("OK", numpy.asarray(lc.constraint_matrix, dtype=float), numpy.asarray(lc.constraint_values, dtype=float),
            list(lc.variable_names), lc.n_constraints)


def close(got, want):
    want = float(want)
    return abs(got - want) <= 1e-9 * max(1.0, abs(want))


def repro(spec, names, ms_key):
    if ms_key:
        return ("model_matrix(%r, df).model_spec.get_linear_constraints(%r)"
                % (SPEC_FORMULAS[ms_key], spec))
    return "LinearConstraints.from_spec(%r, variable_names=%r)" % (spec, names)


def check_spec(col, spec, cons, adjacent, naming_key, tag, nontrivial=True):
    """spec: what is handed to formulaic; cons: reference constraints [(lhs, rhs|None, value)] in row order over the
    real variable names."""
    toks, names, ms = resolve_naming(naming_key)
    classes = [AF.classify(cn, names) for cn in cons]
    kinds = [k[0] for k in classes]
    got = call_impl(spec, names, ms)
    key = "%s :: %r names=%s" % (tag, spec, naming_key)
    detail = {"spec": spec, "variable_names": names, "entry": "ModelSpec.get_linear_constraints" if ms is not None else "from_spec",
              "reference": [repr(k) for k in classes], "formulaic": got[:3] if got[0] == "EXC" else ("OK", got[1].tolist(), got[2].tolist()),
              "repro": repro(spec, names, NAMINGS[naming_key][1] if ms is not None else None)}
    if adjacent:
        label = adjacent if isinstance(adjacent, str) else "sign-after-arithmetic-operator"
        col.count("unspecified-%s-%s" % (label, "accepted" if got[0] == "OK" else "rejected:" + got[1]))
    elif "REJECT" in kinds:
        if nontrivial:
            col.interesting()
        if got[0] == "OK":
            col.violation(key, detail, sig="accepts-nonlinear")
        else:
            col.count("agree-reject:" + got[1])
        return
    elif "UNSPEC" in kinds:
        why = [k[1] for k in classes if k[0] == "UNSPEC"][0]
        col.count("unspecified-%s-%s" % (why, "accepted" if got[0] == "OK" else "rejected:" + got[1]))
    else:
        if nontrivial:
            col.interesting()
        if got[0] != "OK":
            col.violation(key, detail, sig="rejects-linear")
            return
    if got[0] != "OK":
        return
    # a map was returned: it must be the right one in every class
    if adjacent and "REJECT" in kinds:
        col.violation(key, detail, sig="accepts-nonlinear")
        return
    _, A, b, names_out, n_con = got
    if A.shape != (len(cons), len(names)) or b.shape != (len(cons),) or names_out != names or n_con != len(cons):
        col.violation(key, detail, sig="wrong-shape")
        return
    for i, (cn, cl) in enumerate(zip(cons, classes)):
        if cl[0] == "OK":
            f = cl[1]
            ok = all(close(A[i, j], f.coef.get(n, 0)) for j, n in enumerate(names)) and close(b[i], -f.const)
            # every variable of the reference must be a known name (otherwise the reference itself is wrong)
            if any(v not in names for v in f.coef):
                raise HarnessError("reference variable not in names: %r %r" % (f, names))
        else:
            ok = True
            for env, want in AF.defined_samples(cn, names):
                val = sum(A[i, j] * float(env[n]) for j, n in enumerate(names)) - b[i]
                if abs(val - float(want)) > 1e-7 * max(1.0, abs(float(want))):
                    ok = False
        if not ok:
            detail = dict(detail, row=i)
            col.violation(key, detail, sig="wrong-map")
            return
    col.count("agree-map")


def reference_constraints(tokens, toks_map, values=None):
    """parse the rendered tokens with the reference parser; -> (cons with values, adjacent)"""
    inv = {}
    for ph, tok in toks_map.items():
        inv[tok] = AF.default_name_of(tok)
    # unquoted python-ish names such as A[T.b] are single tokens in our rendering
    cons, adjacent = AF.parse(tokens, lambda tok: inv.get(tok, AF.default_name_of(tok)))
    values = values or [0] * len(cons)
    return [(l, r, Fraction(str(v))) for (l, r), v in zip(cons, values)], adjacent


def subst(t, toks_map):
    """tree over placeholders -> tree over real variable names"""
    if isinstance(t, str):
        return t
    if t[0] == "var":
        return ("var", AF.default_name_of(toks_map[t[1]]))
    return (t[0],) + tuple(subst(s, toks_map) for s in t[1:])


def selfcheck(cons_parsed, trees, toks_map, names):
    """the reference parser applied to the rendering must denote the same thing as the tree it was rendered from"""
    for (l, r, _), (tl, tr) in zip(cons_parsed, trees):
        a = AF.classify((l, r, 0), names)
        b = AF.classify((subst(tl, toks_map), subst(tr, toks_map) if tr is not None else None, 0), names)
        if a[0] != b[0] or (a[0] == "OK" and a[1].key() != b[1].key()):
            raise HarnessError("renderer/parser disagree: %r vs %r for %r" % (a, b, (tl, tr)))


# ---------------------------------------------------------------------------
# drivers

# covering design of (style, spaced, naming): every style, spacing and naming occurs for every tree
VARIANTS_LIGHT = [("min", True, "xyz"), ("full", True, "zyx"), ("min", False, "zyx"), ("leafy", False, "xyz")]
VARIANTS_ALL = [(st, sp, nm) for st in ("min", "full", "leafy") for sp in (True, False)
                for nm in ("xyz", "zyx", "extra", "ticked", "ticked-plain", "spec-numeric", "spec-categorical",
                           "ticked-digits", "ticked-digits-2", "spec-digits",
                           "both-spellings", "both-spellings-call", "spec-both-spellings")]


def drv_expr(c, ctx, col):
    """one constraint 'E' or 'E = E' as a string"""
    eq = ctx["eq"]
    if ctx.get("slice") is not None:  # VERIF_SEED slice: fixed root operator, split and right-hand leaf set
        op, kl, leaves_r = ctx["slice"]
        k = ctx["k"]
        lhs = (op, gen_tree(c, kl, ctx["leaves"]), gen_tree(c, k - 1 - kl, leaves_r))
        rhs = None
    elif eq:
        k = ctx["kmin"] + c.upto(ctx["k"] - ctx["kmin"])
        kl = c.upto(k)
        lhs = gen_tree(c, kl, ctx["leaves"])
        rhs = gen_tree(c, k - kl, ctx["leaves"])
    else:
        k = ctx["kmin"] + c.upto(ctx["k"] - ctx["kmin"])
        lhs = gen_tree(c, k, ctx["leaves"])
        rhs = None
    neg_rhs = False
    if ctx.get("combos"):
        style, spaced, naming, neg = c.pick(ctx["combos"])
    else:
        style, spaced, naming = c.pick(ctx["variants"])
        neg = c.flag() if ctx.get("neg", True) else False
    if rhs is not None and ctx.get("neg_rhs"):
        neg_rhs = c.flag()  # a unary minus directly after '=' (the tokenizer sees '=-')
    toks_map, names, ms = resolve_naming(naming)
    tokens = render(lhs, style, toks_map)
    if rhs is not None:
        tokens = tokens + ["="] + (["-"] if neg_rhs else []) + render(rhs, style, toks_map)
    if neg:
        tokens = ["-"] + tokens
    spec = join(tokens, spaced)
    cons, adjacent = reference_constraints(tokens, toks_map)
    if adjacent:
        raise HarnessError("unexpected adjacent operators in %r" % (spec,))
    if not neg and not neg_rhs:
        selfcheck(cons, [(lhs, rhs)], toks_map, names)
    check_spec(col, spec, cons, False, naming, "expr", nontrivial=(k > 0 or neg or neg_rhs))
    col.sample({"spec": spec, "variable_names": names})


def small_pool(leaves, eq_leaves, extra=()):
    """constraints with <= 1 binary operator ('E') or two leaves ('E = E')"""
    pool = []
    for l in leaves:
        pool.append((l, None))
    for op in OPS:
        for l in leaves:
            for r in leaves:
                pool.append(((op, l, r), None))
    for l in eq_leaves:
        for r in eq_leaves:
            pool.append((l, r))
    pool.extend(extra)
    return pool


POOL_EXTRA = [
    (("-", ("*", "2", ("+", X, Y)), ("/", ("+", Z, "1"), "2")), None),      # 2*(x+y) - (z+1)/2
    (("+", X, ("*", "3", ("/", ("-", ("+", X, Y), Y), "3"))), X),            # x + 3*(x+y-y)/3 = x
    (("-", ("+", X, Y), "10"), "0"),
    (("neg", ("+", X, "1")), ("/", Y, "0.5")),
    (("neg", X), None),                                                      # a head sign: after ',' when it is a later entry
    (X, ("neg", "2")),                                                       # x = -2: a sign directly after '='
    (("neg", Y), ("pos", X)),                                                # -y = +x
    (("*", ("+", X, "1"), ("+", Y, "1")), None),                             # non-linear
    (("/", "1", ("-", X, X)), None),                                         # unspecified
]
MAP_VALUES = [0, 1, -2, 0.5, -0.75]
# mapping values of other numeric types; keys with only integer constants must not truncate them
VALUE_TYPES = [0.5, 2.5, -0.75, 1e-3, Fraction(1, 3), Fraction(-7, 2), numpy.float64(1.5), numpy.float32(0.25), numpy.int64(3)]
FORMS = ["comma-spaced", "comma-compact", "list", "mapping"]


def drv_forms(c, ctx, col):
    """1..n constraints from a pool, in every specification form"""
    pool = ctx["pool"]
    n = ctx["nmin"] + c.upto(ctx["n"] - ctx["nmin"])
    trees = [c.pick(pool) for _ in range(n)]
    form = c.pick(ctx.get("forms", FORMS))
    naming = c.pick(ctx["namings"])
    style = c.pick(ctx["styles"])
    toks_map, names, ms = resolve_naming(naming)
    per = []
    for lhs, rhs in trees:
        t = render(lhs, style, toks_map)
        if rhs is not None:
            t = t + ["="] + render(rhs, style, toks_map)
        per.append(t)
    values = None
    if form == "mapping":
        values = [c.pick(ctx["values"]) for _ in range(n)]
        keys = [join(t, True) for t in per]
        if len(set(keys)) != len(keys):
            col.count("mapping-duplicate-key-skipped")
            return
        spec = dict(zip(keys, values))
    elif form == "list":
        spec = [join(t, True) for t in per]
    else:
        sep = ", " if form == "comma-spaced" else ","
        spec = sep.join(join(t, form == "comma-spaced") for t in per)
    if form == "mapping":
        # every key is parsed on its own
        cons, adjacent = [], False
        for t, v in zip(per, values):
            cs, adj = reference_constraints(t, toks_map, [v])
            cons += cs
            adjacent = adjacent or adj
    else:
        # a list of strings is documented as "joined with commas"; a head sign of a later constraint then follows ','
        tokens = []
        for i, t in enumerate(per):
            tokens += ([","] if i else []) + t
        cons, adjacent = reference_constraints(tokens, toks_map, values)
    if len(cons) != n:
        raise HarnessError("constraint count %r" % (spec,))
    selfcheck(cons, trees, toks_map, names)
    check_spec(col, spec, cons, adjacent, naming, "forms[%s]" % form, nontrivial=True)
    col.sample({"spec": spec, "variable_names": names, "form": form})


def unary_positions(t, path=()):
    """paths of all nodes of a tree"""
    out = [path]
    if not is_leaf(t):
        out += unary_positions(t[1], path + (1,)) + unary_positions(t[2], path + (2,))
    return out


def wrap_at(t, path, tag):
    if not path:
        return (tag, t)
    lst = list(t)
    lst[path[0]] = wrap_at(t[path[0]], path[1:], tag)
    return tuple(lst)


def drv_unary(c, ctx, col):
    """one unary sign at any node of a tree, parenthesised '( - t )' (specified) or bare in place (specified only at
    the head of the string or directly after '('; otherwise adjacent operators, unspecified)"""
    k = ctx.get("kmin", 0) + c.upto(ctx["k"] - ctx.get("kmin", 0))
    tree = gen_tree(c, k, ctx["leaves"])
    shape = c.pick(ctx.get("shapes", ["E", "E = 2", "2 = E", "Y , E"]))
    path = c.pick(unary_positions(tree))
    sign = c.pick(ctx.get("signs", ["neg", "pos"]))
    bare = c.flag()
    spaced = not c.flag() if ctx.get("spacing", True) else True
    naming = c.pick(ctx["namings"])
    toks_map, names, ms = resolve_naming(naming)
    t2 = wrap_at(tree, path, sign)
    e = render(t2, "min", toks_map, None, None, bare_sign=bare)
    if not bare and not path and shape != "E":
        e = ["("] + e + [")"]  # a root sign that is not at the head of the string must be parenthesised
    trees = {"E": [(t2, None)], "E = 2": [(t2, "2")], "2 = E": [("2", t2)], "Y , E": [(Y, None), (t2, None)]}[shape]
    tokens = {"E": e, "E = 2": e + ["=", "2"], "2 = E": ["2", "="] + e, "Y , E": [toks_map["Y"], ","] + e}[shape]
    spec = join(tokens, spaced)
    cons, adjacent = reference_constraints(tokens, toks_map)
    selfcheck(cons, trees, toks_map, names)
    if not bare and adjacent:
        raise HarnessError("parenthesised sign flagged adjacent: %r" % (spec,))
    check_spec(col, spec, cons, adjacent, naming, "unary")
    col.sample({"spec": spec, "variable_names": names, "adjacent_operators": adjacent})


# inputs on which the property's grammar / the documentation is silent: outcome recorded, a returned map must be right
PROBES = [
    ("sign-after-arithmetic-operator", "2 * - x", None), ("sign-after-arithmetic-operator", "x - - y", None),
    ("sign-after-arithmetic-operator", "x + + y", None), ("sign-after-arithmetic-operator", "x - 2 * - 3", None),
    ("sign-after-arithmetic-operator", "x / - 2", None), ("sign-after-arithmetic-operator", "x = - - 2", None),
    ("sign-after-arithmetic-operator", "x = - + 2", None), ("sign-after-arithmetic-operator", "y , 2 * - x", None),
    ("exponent-literal", "1e3 * x", "1000 * x"), ("exponent-literal", "1e3", "1000"), ("exponent-literal", "1e-3 * x", "0.001 * x"),
    ("exponent-literal", "x = 1e3", "x = 1000"), ("exponent-literal", "2.5e0 * x + y", "2.5 * x + y"), ("exponent-literal", "x / 1E1", "x / 10"),
    ("chained-equals", "x = y = z", False), ("chained-equals", "x = 1 = 2", False), ("chained-equals", "x = y = z = 1", False),
    ("chained-equals", "x + 1 = y = 2 * z , x", False),
]


def drv_probes(c, ctx, col):
    label, text, equiv = c.pick(PROBES)
    spaced = not c.flag()
    naming = c.pick(["xyz", "zyx"])
    toks_map, names, ms = resolve_naming(naming)
    spec = text if spaced else text.replace(" ", "")
    if equiv is False:  # no documented meaning: only record what happens
        got = call_impl(spec, names, ms)
        col.count("unspecified-%s-%s" % (label, "accepted" if got[0] == "OK" else "rejected:" + got[1]))
        return
    cons, adjacent = reference_constraints((equiv or text).split(), toks_map)
    check_spec(col, spec, cons, label, naming, "probe", nontrivial=False)
    col.sample({"spec": spec, "class": label})


LITERALS = ["0", "1", "2", "3", "10", "0.5", ".5", "2.", "1.0", "0.25", "100", "1.50"]
LIT_TEMPLATES = [
    ["@", "*", "x"], ["x", "*", "@"], ["x", "/", "@"], ["x", "+", "@"], ["x", "=", "@"], ["@", "=", "x"],
    ["@", "*", "(", "x", "-", "@", ")"], ["x", "/", "@", "+", "y", "*", "@", "=", "@"], ["@"], ["@", "/", "@", "*", "y"],
]


def drv_literals(c, ctx, col):
    tpl = c.pick(LIT_TEMPLATES)
    lits = [c.pick(ctx["literals"]) for _ in range(tpl.count("@"))]
    spaced = not c.flag()
    naming = c.pick(["xyz", "zyx"])
    it = iter(lits)
    tokens = [next(it) if t == "@" else t for t in tpl]
    spec = join(tokens, spaced)
    toks_map, names, ms = resolve_naming(naming)
    cons, adjacent = reference_constraints(tokens, toks_map)
    check_spec(col, spec, cons, adjacent, naming, "literals")
    col.sample({"spec": spec})


# ---------------------------------------------------------------------------


def selftest():
    """the reference against the cases pinned by tests/utils/test_constraints.py"""
    cols = list("abcd")
    pinned = {
        "a": ([[1, 0, 0, 0]], [0]), "a + 3 * ( a + b - b ) / 3 = a": ([[1, 0, 0, 0]], [0]), "a + a": ([[2, 0, 0, 0]], [0]),
        "a = 10": ([[1, 0, 0, 0]], [10]), "a + b - 10 = 0": ([[1, 1, 0, 0]], [10]), "a = b": ([[1, -1, 0, 0]], [0]),
        "3 * a + b * 3 = 3": ([[3, 3, 0, 0]], [3]), "a / 3 + 10 / 2 * d = 0": ([[Fraction(1, 3), 0, 0, 5]], [0]),
        "2 * ( a + b ) - ( c + d ) / 2": ([[2, 2, Fraction(-1, 2), Fraction(-1, 2)]], [0]),
        "a = 1 , b = 2 , c - 3 , d - 4": ([[1, 0, 0, 0], [0, 1, 0, 0], [0, 0, 1, 0], [0, 0, 0, 1]], [1, 2, 3, 4]),
        "a + b , c + d = 10": ([[1, 1, 0, 0], [0, 0, 1, 1]], [0, 10]),
    }
    for s, (A, b) in pinned.items():
        cons, adj = AF.parse(s.split())
        for i, (l, r) in enumerate(cons):
            kind, f = AF.classify((l, r, 0), cols)
            if kind != "OK" or [f.coef.get(n, 0) for n in cols] != A[i] or -f.const != b[i]:
                raise AssertionError("reference model disagrees with pinned case %r row %d: %r" % (s, i, f))
    for s, want in {"a * b": "REJECT", "a / b": "REJECT", "1 / a": "REJECT", "a * b - a * b": "UNSPEC",
                    "( 0 * a ) * b": "UNSPEC", "a / 0": "UNSPEC", "a / ( b - b + 2 )": "UNSPEC",
                    "( a + 1 ) * ( b + 1 )": "REJECT", "a * a": "REJECT", "a / a": "UNSPEC"}.items():
        cons, adj = AF.parse(s.split())
        kind = AF.classify(cons[0] + (0,), cols)[0]
        if kind != want:
            raise AssertionError("reference classification of %r: %s, expected %s" % (s, kind, want))


def subchecks(tier, seed):
    selftest()
    subs = []
    quick = tier == "quick"
    pool2 = small_pool(LEAVES3, [X, "2"] if quick else LEAVES3, POOL_EXTRA)
    pool3 = [
        (X, None), (Y, "2"), (("+", X, Y), None), (("-", Z, "1"), None), (("*", "2", X), Y), (("/", Y, "2"), "0.5"),
        (("-", X, Y), Z), ("1", "2"), (("*", X, Y), None), (("neg", Z), None), (("+", Z, "0.5"), X), (("/", "1", "0"), None),
        (Y, ("neg", "2")),
    ]
    V = VARIANTS_LIGHT
    six, three = "x y z 1 2 0.5", "x y 2"
    if quick:
        subs.append(Sub("expr", drv_expr, {"eq": False, "k": 2, "kmin": 0, "leaves": LEAVES6, "variants": V},
                        shard_depth=3, bounds={"max_binary_operators": 2, "leaves": six, "variants": "4 (style, spacing, names) x head minus"}))
        subs.append(Sub("expr-3", drv_expr, {"eq": False, "k": 3, "kmin": 3, "leaves": LEAVES3, "variants": V[1:2], "neg": False},
                        shard_depth=4, bounds={"binary_operators": 3, "leaves": three, "variants": "full parentheses, spaced, names [z,y,x]"}))
        subs.append(Sub("expr-eq", drv_expr, {"eq": True, "k": 2, "kmin": 0, "leaves": LEAVES3, "variants": V[:1], "neg_rhs": True},
                        shard_depth=4, bounds={"max_binary_operators_both_sides": 2, "leaves": three,
                                               "variants": "min/spaced/xyz x minus at the head of the left side on/off x minus directly after '=' on/off"}))
        op, kl = OPS[seed % 4], (seed // 4) % 3
        lr = [LEAVES6[(seed // 12) % 6], LEAVES6[(seed // 12 + 1) % 6]]
        subs.append(Sub("expr-seed-slice", drv_expr,
                        {"eq": False, "k": 3, "leaves": LEAVES6, "variants": V[:1], "slice": (op, kl, lr), "neg": False},
                        shard_depth=3, bounds={"binary_operators": 3, "leaves": six, "root_operator": op, "left_operators": kl,
                                               "right_subtree_leaves": [l if isinstance(l, str) else l[1].lower() for l in lr],
                                               "note": "VERIF_SEED-selected exhaustive slice of the thorough scope"}))
        subs.append(Sub("forms", drv_forms, {"pool": pool2, "n": 2, "nmin": 1, "namings": ["zyx", "spec-categorical"],
                                              "styles": ["min"], "values": [-2, 2.5]},
                        shard_depth=2, bounds={"constraints": "1..2", "pool": len(pool2), "forms": FORMS, "mapping_values": [-2, 2.5]}))
        subs.append(Sub("forms-3", drv_forms, {"pool": pool3, "n": 3, "nmin": 3, "namings": ["xyz", "spec-numeric", "ticked-digits", "both-spellings"], "styles": ["min"],
                                                "values": [-0.75]},
                        shard_depth=3, bounds={"constraints": 3, "pool": len(pool3), "forms": FORMS, "mapping_values": [-0.75]}))
        subs.append(Sub("namings", drv_expr, {"eq": True, "k": 1, "kmin": 0, "leaves": [X, Y, Z, "2"], "variants": VARIANTS_ALL, "neg": False},
                        shard_depth=3, bounds={"max_binary_operators_both_sides": 1, "leaves": "x y z 2", "variants": "all 78 (3 styles x 2 spacings x 13 namings)"}))
        subs.append(Sub("unary", drv_unary, {"k": 1, "leaves": LEAVES3, "namings": ["xyz"]}, shard_depth=3,
                        bounds={"max_binary_operators": 1, "leaves": three, "one unary sign": "every node, - and +, parenthesised and bare, 4 shapes"}))
        subs.append(Sub("unary-2", drv_unary, {"k": 2, "kmin": 2, "leaves": LEAVES3, "namings": ["xyz"], "shapes": ["E", "2 = E"],
                                                "signs": ["neg"], "spacing": False}, shard_depth=4,
                        bounds={"binary_operators": 2, "leaves": three, "one unary minus": "every node, parenthesised and bare, shapes E and 2 = E"}))
        subs.append(Sub("mapping-values", drv_forms, {"pool": pool2, "n": 1, "nmin": 1, "forms": ["mapping"], "styles": ["min"],
                                                       "namings": ["xyz", "ticked", "spec-numeric", "spec-digits", "spec-both-spellings"], "values": VALUE_TYPES},
                        shard_depth=2, bounds={"constraints": 1, "pool": len(pool2), "forms": ["mapping"],
                                               "mapping_values": [repr(v) for v in VALUE_TYPES], "namings": ["xyz", "ticked", "spec-numeric", "spec-digits"]}))
        subs.append(Sub("unspecified-probes", drv_probes, {}, shard_depth=1, bounds={"probes": [p[1] for p in PROBES]}))
        subs.append(Sub("literals", drv_literals, {"literals": LITERALS[:8]}, shard_depth=2, bounds={"literals": LITERALS[:8]}))
    else:
        subs.append(Sub("expr", drv_expr, {"eq": False, "k": 3, "kmin": 0, "leaves": LEAVES6,
                                            "combos": [V[0] + (False,), V[0] + (True,), V[3] + (False,)]},
                        shard_depth=4, bounds={"max_binary_operators": 3, "leaves": six,
                                               "variants": "min/spaced/[x,y,z] with and without head minus; leafy/compact/[x,y,z]"}))
        subs.append(Sub("expr-zyx", drv_expr, {"eq": False, "k": 3, "kmin": 0, "leaves": LEAVES6, "variants": [V[1]], "neg": False},
                        shard_depth=4, bounds={"max_binary_operators": 3, "leaves": six, "variants": "full parentheses, spaced, names [z,y,x]"}))
        subs.append(Sub("expr-4", drv_expr, {"eq": False, "k": 4, "kmin": 4, "leaves": LEAVES3, "variants": V[2:3], "neg": False},
                        shard_depth=5, bounds={"binary_operators": 4, "leaves": three, "variants": "minimal parentheses, compact, names [z,y,x]"}))
        subs.append(Sub("expr-eq", drv_expr, {"eq": True, "k": 3, "kmin": 0, "leaves": LEAVES3, "variants": V[:1], "neg_rhs": True},
                        shard_depth=5, bounds={"max_binary_operators_both_sides": 3, "leaves": three,
                                               "variants": "min/spaced/xyz x minus at the head of the left side on/off x minus directly after '=' on/off"}))
        subs.append(Sub("expr-eq-6", drv_expr, {"eq": True, "k": 2, "kmin": 0, "leaves": LEAVES6, "variants": V[1:3], "neg": False},
                        shard_depth=4, bounds={"max_binary_operators_both_sides": 2, "leaves": six, "variants": "2"}))
        subs.append(Sub("forms", drv_forms, {"pool": pool2, "n": 2, "nmin": 1, "namings": list(NAMINGS), "styles": ["min"],
                                              "values": MAP_VALUES},
                        shard_depth=2, bounds={"constraints": "1..2", "pool": len(pool2), "forms": FORMS, "mapping_values": MAP_VALUES,
                                               "namings": list(NAMINGS)}))
        subs.append(Sub("forms-3", drv_forms, {"pool": pool3, "n": 3, "nmin": 3, "namings": ["xyz", "zyx", "ticked", "spec-numeric"],
                                                "styles": ["min"], "values": [0, 1, -0.75]},
                        shard_depth=3, bounds={"constraints": 3, "pool": len(pool3), "forms": FORMS, "mapping_values": [0, 1, -0.75]}))
        subs.append(Sub("namings", drv_expr, {"eq": True, "k": 1, "kmin": 0, "leaves": [X, Y, Z, "2", "0.5"], "variants": VARIANTS_ALL},
                        shard_depth=3, bounds={"max_binary_operators_both_sides": 1, "leaves": "x y z 2 0.5", "variants": "all 78 x head minus"}))
        subs.append(Sub("unary", drv_unary, {"k": 2, "leaves": LEAVES3, "namings": ["xyz", "ticked"]}, shard_depth=4,
                        bounds={"max_binary_operators": 2, "leaves": three, "one unary sign": "every node, - and +, parenthesised and bare, 4 shapes"}))
        subs.append(Sub("mapping-values", drv_forms, {"pool": pool3, "n": 2, "nmin": 1, "forms": ["mapping"], "styles": ["min"],
                                                       "namings": ["xyz", "ticked", "spec-numeric", "spec-digits", "spec-both-spellings"], "values": VALUE_TYPES},
                        shard_depth=2, bounds={"constraints": "1..2", "pool": len(pool3), "forms": ["mapping"],
                                               "mapping_values": [repr(v) for v in VALUE_TYPES], "namings": ["xyz", "ticked", "spec-numeric", "spec-digits"]}))
        subs.append(Sub("unspecified-probes", drv_probes, {}, shard_depth=1, bounds={"probes": [p[1] for p in PROBES]}))
        subs.append(Sub("literals", drv_literals, {"literals": LITERALS}, shard_depth=2, bounds={"literals": LITERALS}))
    return subs
