"""C04 - a model spec replays the recorded encoding row by row on any data."""
import pickle
import warnings

import numpy as np
import pandas as pd

from mc.canon import digest, spec_state
from mc.explorer import Skip
from mc.runner import Sub
from props.common import dense

from formulaic import model_matrix

RULE = (
    "Fit each stateful / stateless built-in transform formula on every size-4 sub-multiset (quick: a 10-set slice) of a 5-row pool "
    "with >= 3 distinct values of a; then (row-locality) apply the recorded spec to EVERY row selection of length <= L over the pool "
    "rows inside the training domain (subsets, duplicates, reorderings, levels dropping out) and compare with the rows of the spec "
    "applied to the whole domain; and (histories) run EVERY sequence of <= D events over {apply(selection), pickle round-trip, "
    "update()-copy, apply via model_matrix(spec, data)} checking after each event that results are row-local, names unchanged, the "
    "training matrix is reproduced, and the canonical digest of the spec state is the one recorded at fit time (the state graph "
    "collapses to one state per fit).  Non-trivial = the selection differs from the identity selection of the training rows."
)
ASSUMPTIONS = [
    "follow-up data are drawn from the training domain (a within the training range, A among the training levels); anything else is C09 / documented extrapolation behaviour",
    "lag() is excluded as the property says",
    "real-valued generality rests on a grid of pool values in general position",
]

POOL = pd.DataFrame({
    "a": [1.0, 2.0, 3.5, 5.0, 8.0],
    "b": [2.0, 0.5, -1.0, 4.0, 1.5],
    "A": pd.Series(["x", "y", "x", "z", "y"], dtype=object),
    # names that need back-quotes; `a b` and `a+b` sanitize to the same python alias, which is also the name of the column a_b
    "a b": [3.0, 1.0, 4.0, 1.5, 9.0],
    "a+b": [10.0, 20.0, 30.0, 20.0, 50.0],
    "a_b": [5.0, 6.0, 7.0, 9.0, 2.0],
    # a text column whose NAME contains the interaction operator (its factor prints back-quoted)
    "s:t": pd.Series(["x", "y", "x", "z", "y"], dtype=object),
    # a text column with missing values (hashed() keeps such rows: they hash like any other value)
    "H": pd.Series(["x", None, "q", "z", None], dtype=object),
})

FORMULAS = [
    "center(a)", "scale(a)", "scale(a, ddof=0)", "scale(a, center=False)", "standardize(a)", "poly(a, 2)", "poly(a, 2, raw=True)",
    "bs(a, df=4)", "bs(a, knots=[3.0], degree=2)", "bs(a, df=5, include_intercept=True)", "cr(a, df=3)", "cr(a, df=3, constraints='center')",
    "cc(a, df=3)", "cs(a, df=4)", "C(A)", "C(A, contr.sum)", "C(A, contr.poly)", "C(A, contr.helmert)", "C(A, contr.treatment('y'))", "A",
    "log(a)", "{a*b}", "A:a", "center(a):A", "scale(center(a))", "hashed(A, levels=3)", "center(a) + scale(b) + A",
    "bs(a, df=4):A", "poly(a, 2) + C(A, contr.sum):b",
    # stateful transforms wrapped around multi-column transforms (state nested per column, integer column keys)
    "scale(bs(a, df=4))", "center(cr(a, df=3))", "scale(poly(a, 2))",
    # explicit bounds narrower than the data: the extrapolation rule must be replayed too
    "cr(a, df=3, lower_bound=2.0, upper_bound=5.0, extrapolation='clip')", "cc(a, df=3, lower_bound=2.0, upper_bound=5.0, extrapolation='clip')",
    "bs(a, df=4, lower_bound=2.0, upper_bound=5.0, extrapolation='clip')", "bs(a, df=4, lower_bound=2.0, upper_bound=5.0, extrapolation='zero')",
    "cr(a, df=3, lower_bound=2.0, upper_bound=5.0, extrapolation='zero')",
    # literal scalings must survive the replay through the recorded structure
    "2.5:a", "3:center(a)", "2:A", "0 + 2.5:a:A",
    # the same stateful call more than once inside one factor / across factors
    # back-quoted names whose python aliases collide with each other / with another column: each keeps its own recorded state
    "center(`a b`) + center(`a+b`)", "center(`a b`) + center(a_b)", "scale(`a+b`):center(`a b`)", "{center(`a b`) - center(`a+b`)}",
    # categorical factors whose expression contains ':' (a column name; a dict literal of custom contrasts)
    "hashed(H, levels=7) + a", "hashed(H, levels=31):a",
    "`s:t` + a", "a:`s:t`", "C(A, {'p': [1, 0, -1], 'q': [0, 1, -1]}) + a",
    "{center(a) * center(a)}", "I(scale(a) + scale(a))", "{center(a) * center(b)} + center(a)", "{bs(a, df=4)[1] + bs(a, df=4)[2]}",
]


def training_sets(quick):
    import itertools
    out = []
    for comb in itertools.combinations_with_replacement(range(5), 4):
        if len({POOL["a"][i] for i in comb}) >= 3:
            out.append(comb)
    if quick:
        return [(0, 1, 2, 4), (0, 0, 2, 4), (1, 2, 4, 4)]
    return out



def domain_rows(train_idx, formula):
    tr = POOL.iloc[list(train_idx)]
    lo, hi = tr["a"].min(), tr["a"].max()
    levels = set(tr["A"])
    rows = []
    for i in range(len(POOL)):
        if not (lo <= POOL["a"][i] <= hi):
            continue
        if ("A" in formula or "s:t" in formula) and POOL["A"][i] not in levels:
            continue
        rows.append(i)
    return rows


def fit(formula, train_idx, output):
    tr = POOL.iloc[list(train_idx)].reset_index(drop=True)
    mm = model_matrix(formula, tr, output=output)
    return tr, mm


def apply_spec(spec, data, via):
    if via == "model_matrix":
        return model_matrix(spec, data)
    return spec.get_model_matrix(data)


def drv_rows(c, ctx, col):
    formula = c.pick(ctx["formulas"])
    train_idx = c.pick(ctx["trainings"])
    output = c.pick(ctx["outputs"])
    rows = domain_rows(train_idx, formula)
    sel = c.seq(rows, ctx["L"], 1)
    via = c.pick(["spec.get_model_matrix", "model_matrix"])
    adtype = c.pick(ctx.get("adtypes", ["object"]))
    keep_index = c.flag()  # follow-up frame keeps the pool's index labels (duplicates, arbitrary order) instead of a fresh RangeIndex
    key = "rows %r train=%s output=%s sel=%s via=%s keep_index=%s A_dtype=%s" % (formula, list(train_idx), output, sel, via, keep_index, adtype)
    detail = {"formula": formula, "training_rows": list(train_idx), "selection": sel, "output": output, "via": via, "keep_index": keep_index, "followup_A_dtype": adtype,
              "pool": POOL.to_dict("list")}
    with warnings.catch_warnings():
        warnings.simplefilter("ignore")
        try:
            tr, mm = fit(formula, train_idx, output)
        except Exception as e:  # noqa
            col.count("fit-raised:" + type(e).__name__)
            raise Skip()
        spec = mm.model_spec
        d0 = digest(spec_state(spec))
        ref_spec = pickle.loads(pickle.dumps(spec))
        dom = POOL.iloc[rows].reset_index(drop=True)
        try:
            whole = apply_spec(ref_spec, dom, "spec.get_model_matrix")
            sub = POOL.iloc[sel] if keep_index else POOL.iloc[sel].reset_index(drop=True)
            if adtype != "object":
                # the follow-up column arrives with a categorical dtype of its own (a legitimate way of holding the same values)
                sub = sub.copy()
                present = sorted(set(sub["A"]))
                cats = {"category-training-levels": sorted(set(tr["A"])), "category-present-levels-only": present,
                        "category-reversed-order": sorted(set(tr["A"]), reverse=True)}[adtype]
                sub["A"] = pd.Categorical(list(sub["A"]), categories=cats)
            got = apply_spec(spec, sub, via)
        except Exception as e:  # noqa
            col.violation(key, dict(detail, error="%s: %s" % (type(e).__name__, str(e)[:300])), sig="apply-raised:" + type(e).__name__)
            return
    if sel != list(range(len(sel))):
        col.interesting()
    W, G = dense(whole), dense(got)
    want = W[[rows.index(i) for i in sel], :]
    if list(got.model_spec.column_names) != list(spec.column_names):
        col.violation(key, dict(detail, names=list(got.model_spec.column_names), fitted_names=list(spec.column_names)), sig="column-names-changed")
        return
    if G.shape != want.shape or not np.allclose(G, want, rtol=1e-10, atol=1e-12, equal_nan=True):
        col.violation(key, dict(detail, got=G.tolist(), want=want.tolist()), sig="not-row-local")
        return
    # the training data reproduce the original matrix
    try:
        with warnings.catch_warnings():
            warnings.simplefilter("ignore")
            again = dense(apply_spec(spec, tr, via))
    except Exception as e:  # noqa
        col.violation(key, dict(detail, error="%s: %s" % (type(e).__name__, str(e)[:300])), sig="training-replay-raised:" + type(e).__name__)
        return
    if again.shape != dense(mm).shape or not np.allclose(again, dense(mm), rtol=1e-10, atol=1e-12, equal_nan=True):
        col.violation(key, dict(detail, original=dense(mm).tolist(), regenerated=again.tolist()), sig="training-matrix-not-reproduced")
        return
    if digest(spec_state(spec)) != d0:
        col.violation(key, dict(detail), sig="spec-state-changed-by-application")
    col.sample(detail)


PART_FORMULAS = ["b ~ A + a | A + center(a)", "A ~ 0 + A + a", "b ~ a:A | C(A, contr.sum) | A", "A + a ~ 0 + A | scale(a) + A"]


def drv_parts(c, ctx, col):
    """every part spec of a structured formula, used ON ITS OWN: it must replay row by row like any spec (parts share factors, which the
    materializer encodes once per call)"""
    from formulaic.utils.structured import Structured
    formula = c.pick(PART_FORMULAS)
    train_idx = c.pick(ctx["trainings"])
    output = c.pick(ctx["outputs"])
    rows = domain_rows(train_idx, formula)
    sel = c.seq(rows, ctx["L"], 1)
    with warnings.catch_warnings():
        warnings.simplefilter("ignore")
        try:
            tr, mm = fit(formula, train_idx, output)
        except Exception as e:  # noqa
            col.count("fit-raised:" + type(e).__name__)
            raise Skip()
        specs = list(mm.model_spec._flatten()) if isinstance(mm.model_spec, Structured) else [mm.model_spec]
        mats = list(mm._flatten()) if isinstance(mm, Structured) else [mm]
        part = c.choose(len(specs))
        spec, orig = specs[part], mats[part]
        key = "parts %r part=%d train=%s output=%s sel=%s" % (formula, part, list(train_idx), output, sel)
        detail = {"formula": formula, "part": part, "part_terms": [str(t) for t in spec.formula], "training_rows": list(train_idx), "selection": sel, "output": output,
                  "pool": POOL.to_dict("list")}
        dom = POOL.iloc[rows].reset_index(drop=True)
        try:
            whole = pickle.loads(pickle.dumps(spec)).get_model_matrix(dom)
            got = spec.get_model_matrix(POOL.iloc[sel].reset_index(drop=True))
            again = spec.get_model_matrix(tr)
        except Exception as e:  # noqa
            col.violation(key, dict(detail, error="%s: %s" % (type(e).__name__, str(e)[:300])), sig="parts:apply-raised:" + type(e).__name__)
            return
    col.interesting()
    W, G = dense(whole), dense(got)
    want = W[[rows.index(i) for i in sel], :]
    if list(got.model_spec.column_names) != list(spec.column_names):
        col.violation(key, dict(detail, names=list(got.model_spec.column_names), fitted_names=list(spec.column_names)), sig="parts:column-names-changed")
        return
    if G.shape != want.shape or not np.allclose(G, want, rtol=1e-10, atol=1e-12, equal_nan=True):
        col.violation(key, dict(detail, got=G.tolist(), want=want.tolist()), sig="parts:not-row-local")
        return
    if not np.allclose(dense(again), dense(orig), rtol=1e-10, atol=1e-12, equal_nan=True):
        col.violation(key, dict(detail, original=dense(orig).tolist(), regenerated=dense(again).tolist()), sig="parts:training-matrix-not-reproduced")
        return
    col.sample(detail)


EVENT_SELS = [[0], [1, 0], [0, 0], [2, 1, 0], [1], [1, 2, 2]]


def drv_hist(c, ctx, col):
    formula = c.pick(ctx["formulas"])
    train_idx = c.pick(ctx["trainings"])
    output = c.pick(ctx["outputs"])
    rows = domain_rows(train_idx, formula)
    events = [("apply", s) for s in EVENT_SELS if max(s) < len(rows)] + [("apply-mm", s) for s in EVENT_SELS[:3] if max(s) < len(rows)]
    events += [("pickle", None), ("update", None)]
    depth = 1 + c.upto(ctx["D"] - 1)
    hist = [c.pick(events) for _ in range(depth)]
    key = "hist %r train=%s output=%s events=%s" % (formula, list(train_idx), output, hist)
    detail = {"formula": formula, "training_rows": list(train_idx), "output": output, "events": hist}
    with warnings.catch_warnings():
        warnings.simplefilter("ignore")
        try:
            tr, mm = fit(formula, train_idx, output)
        except Exception as e:  # noqa
            col.count("fit-raised:" + type(e).__name__)
            raise Skip()
        spec = mm.model_spec
        d0 = digest(spec_state(spec))
        col.state((formula, train_idx, output, d0))
        names0 = list(spec.column_names)
        dom = POOL.iloc[rows].reset_index(drop=True)
        try:
            W = dense(pickle.loads(pickle.dumps(spec)).get_model_matrix(dom))
        except Exception as e:  # noqa
            col.violation(key, dict(detail, error="%s: %s" % (type(e).__name__, str(e)[:300])), sig="hist:pickled-spec-raised:" + type(e).__name__)
            return
        cur = spec
        for step, (ev, arg) in enumerate(hist):
            try:
                if ev == "pickle":
                    cur = pickle.loads(pickle.dumps(cur))
                elif ev == "update":
                    cur = cur.update()
                else:
                    sel = [rows[i] for i in arg]
                    sub = POOL.iloc[sel].reset_index(drop=True)
                    got = apply_spec(cur, sub, "model_matrix" if ev == "apply-mm" else "spec.get_model_matrix")
                    G = dense(got)
                    want = W[list(arg), :]
                    if list(got.model_spec.column_names) != names0:
                        col.violation(key, dict(detail, step=step, names=list(got.model_spec.column_names), fitted=names0), sig="hist:column-names-changed")
                        return
                    if G.shape != want.shape or not np.allclose(G, want, rtol=1e-10, atol=1e-12, equal_nan=True):
                        col.violation(key, dict(detail, step=step, got=G.tolist(), want=want.tolist()), sig="hist:not-row-local")
                        return
            except Exception as e:  # noqa
                col.violation(key, dict(detail, step=step, error="%s: %s" % (type(e).__name__, str(e)[:300])), sig="hist:raised:" + type(e).__name__)
                return
            d = digest(spec_state(cur))
            col.state((formula, train_idx, output, d))
            if d != d0:
                col.violation(key, dict(detail, step=step), sig="hist:spec-state-changed")
                return
            if digest(spec_state(spec)) != d0:
                col.violation(key, dict(detail, step=step), sig="hist:original-spec-state-changed")
                return
        try:
            final = dense(cur.get_model_matrix(tr))
        except Exception as e:  # noqa
            col.violation(key, dict(detail, error="%s: %s" % (type(e).__name__, str(e)[:300])), sig="hist:training-replay-raised:" + type(e).__name__)
            return
        if final.shape != dense(mm).shape or not np.allclose(final, dense(mm), rtol=1e-10, atol=1e-12, equal_nan=True):
            col.violation(key, dict(detail, original=dense(mm).tolist(), regenerated=final.tolist()), sig="hist:training-matrix-not-reproduced")
    col.interesting()
    col.sample(detail)


def subchecks(tier, seed):
    quick = tier == "quick"
    tr = training_sets(quick)
    fs = FORMULAS
    return [
        Sub("row-locality", drv_rows, {"formulas": fs, "trainings": tr if quick else tr[:12], "outputs": ["pandas"], "L": 2 if quick else 3},
            shard_depth=2, bounds={"formulas": len(fs), "training_sets": len(tr) if quick else 12, "max_selection_length": 2 if quick else 3, "pool_rows": 5}),
    ] + ([] if quick else [
        Sub("row-locality-all-trainings", drv_rows, {"formulas": fs, "trainings": tr, "outputs": ["pandas", "sparse"], "L": 1},
            shard_depth=2, bounds={"formulas": len(fs), "training_sets": len(tr), "max_selection_length": 1, "outputs": ["pandas", "sparse"]}),
    ]) + [
        Sub("part-specs-on-their-own", drv_parts, {"trainings": tr[:3] if quick else tr[:12], "outputs": ["pandas"] if quick else ["pandas", "sparse"], "L": 2},
            shard_depth=2, bounds={"formulas": PART_FORMULAS, "parts": "every leaf spec of the structured result", "max_selection_length": 2}),
        Sub("row-locality-categorical-dtype", drv_rows, {"formulas": [f for f in fs if "A" in f], "trainings": tr[:1] if quick else tr[:12], "outputs": ["pandas"],
                                                         "L": 2, "adtypes": ["category-training-levels", "category-present-levels-only", "category-reversed-order"]},
            shard_depth=2, bounds={"formulas": "those using A", "followup_dtype_of_A": ["category (training levels)", "category (present levels only)", "category (reversed order)"],
                                   "max_selection_length": 2}),
        Sub("histories", drv_hist, {"formulas": fs, "trainings": tr[:1] if quick else tr[:2], "outputs": ["pandas"] if quick else ["pandas", "sparse"],
                                    "D": 2},
            shard_depth=2, bounds={"formulas": len(fs), "training_sets": 1 if quick else 2, "max_events": 2,
                                   "event_menu": "6 apply(selection) + 3 apply via model_matrix + pickle + update"}),
    ] + ([] if quick else [
        Sub("histories-depth3", drv_hist, {"formulas": fs[::3], "trainings": tr[:1], "outputs": ["pandas"], "D": 3},
            shard_depth=2, bounds={"formulas": "every third formula (%d)" % len(fs[::3]), "training_sets": 1, "max_events": 3,
                                   "event_menu": "6 apply(selection) + 3 apply via model_matrix + pickle + update"}),
    ])
