"""C02 - every model-matrix column holds exactly the product its name denotes."""
import itertools

import numpy as np
import pandas as pd

from mc.explorer import Skip
from mc.runner import Sub
from models import design as D

from formulaic import Formula
from formulaic.parser.types import Factor, Term

RULE = (
    "Every ordered list of <= K distinct terms over a universe of ordered factor tuples (numeric a, b; categorical A "
    "(3 levels), B (2 levels); python factor {a+b}; literal scalings 2.5 and 1) x intercept on/off x construction "
    "(formula string / explicit term list) x rank reduction on/off x output type x data frame.  Every emitted column is "
    "recomputed from its label with numpy; with rank reduction off the whole label list is predicted (row-wise Kronecker "
    "product, first factor fastest).  Non-trivial = the formula has at least one term with a categorical or scaled factor."
)
ASSUMPTIONS = [
    "columns are products of encoded factor columns, so agreement on frames whose numeric values are distinct "
    "primes/non-integers in general position leaves no room for a wrong-but-agreeing product of the same degree",
    "which columns rank reduction keeps is C03's subject; here every emitted column must obey its label",
]

FACTORS = {
    "a": ("a", "lookup", "num"),
    "b": ("b", "lookup", "num"),
    "A": ("A", "lookup", "cat"),
    "B": ("B", "lookup", "cat"),
    "{a+b}": ("a + b", "python", "num"),
    "2.5": ("2.5", "literal", "lit"),
    "1": ("1", "literal", "lit"),
    "3": ("3", "literal", "lit"),
    # contrast-coded factors: full coding = level indicators, reduced coding = the named contrast columns
    "C(A, contr.sum)": ("C(A, contr.sum)", "python", "cat"),
    "C(B, contr.helmert)": ("C(B, contr.helmert)", "python", "cat"),
    # levels nominated in an order of the caller's own (differs from the sorted order and from the declared order of frame 'absent-level')
    "C(A, levels=['z', 'x', 'y'])": ("C(A, levels=['z', 'x', 'y'])", "python", "cat"),
    # a nominated level list that omits a value present in the data: those rows belong to no level (all-zero indicator rows)
    "C(A, levels=['x', 'y'])": ("C(A, levels=['x', 'y'])", "python", "cat"),
}
CAT = {"A": "A", "B": "B", "C(A, contr.sum)": "A", "C(B, contr.helmert)": "B", "C(A, levels=['z', 'x', 'y'])": "A", "C(A, levels=['x', 'y'])": "A"}
LEVELS = {"C(A, levels=['z', 'x', 'y'])": ["z", "x", "y"], "C(A, levels=['x', 'y'])": ["x", "y"]}
CONTRAST_FACTORS = ["C(A, contr.sum)", "C(B, contr.helmert)"]
_REDUCED = {}


def reduced_pieces(fname, frame):
    """{label piece -> column} of the reduced coding of each contrast-coded factor, taken from a build in which the factor
    stands alone next to an intercept (differential reference for the contrast columns; the codings themselves are C11's subject)"""
    if fname not in _REDUCED:
        out = {}
        from formulaic import model_matrix
        for f in CONTRAST_FACTORS:
            mm = model_matrix("1 + " + f, frame)
            for name in mm.columns:
                if name != "Intercept":
                    out[name] = mm[name].to_numpy(dtype=float)
        _REDUCED[fname] = out
    return _REDUCED[fname]


def frames():
    f6 = pd.DataFrame({
        "a": [2.0, 3.0, 5.0, 7.0, 11.0, 13.0],
        "b": [1.5, -2.5, 3.25, 0.5, 4.75, 6.125],
        "A": pd.Series(list("xyzxyz"), dtype=object),
        "B": pd.Series(list("uuuvvv"), dtype=object),
    })
    f1 = pd.DataFrame({"a": [2.0], "b": [3.5], "A": pd.Series(["y"], dtype=object), "B": pd.Series(["u"], dtype=object)})
    f4 = pd.DataFrame({
        "a": [2.0, 2.0, -3.0, 0.0],
        "b": [1.5, 1.5, 0.25, 7.0],
        "A": pd.Series(list("zxzy"), dtype=object),
        "B": pd.Series(list("vvuv"), dtype=object),
    })
    fabs = pd.DataFrame({
        "a": [2.0, 3.0, 5.0, 7.0],
        "b": [1.5, -2.5, 3.25, 0.5],
        "A": pd.Categorical(list("zxzx"), categories=["x", "y", "z"]),
        "B": pd.Series(list("uvvu"), dtype=object),
    })
    fshuf = f6.copy()
    fshuf.index = [3, 5, 0, 1, 4, 2]  # integer labels that are a permutation of the positions
    fstr = f4.copy()
    fstr.index = ["r3", "r1", "r1", "r0"]  # non-unique string labels
    fint = f6.copy()
    fint["a"] = np.array([100, 100, 2, 3, 5, 7], dtype="int8")  # narrow integer dtypes: products and integer scalings leave their range
    fint["b"] = np.array([100, 2, 2, 3, -100, 120], dtype="int8")
    fus = f6.copy()
    fus["A"] = pd.Series(["_x", "y", "_", "_x", "y", "_"], dtype=object)  # level names starting with (or equal to) an underscore
    return {"cross6": f6, "row1": f1, "rep4": f4, "absent-level": fabs, "shuffled-index": fshuf, "string-index": fstr, "small-ints": fint, "underscore-levels": fus}


def universe(tier):
    base = ["a", "b", "A", "B", "{a+b}"]
    u = [(f,) for f in base]
    u += [p for p in itertools.permutations(base, 2)]
    u += [("a", "A", "B"), ("A", "a", "B"), ("A", "B", "a"), ("B", "A", "a"), ("A", "B", "{a+b}"), ("a", "b", "A"), ("A", "a", "b"), ("b", "A", "a")]
    u += [("C(A, contr.sum)",), ("a", "C(A, contr.sum)"), ("B", "C(A, contr.sum)"), ("C(A, contr.sum)", "b"), ("C(B, contr.helmert)", "A"),
          ("C(A, contr.sum)", "C(B, contr.helmert)"), ("2.5", "C(A, contr.sum)", "a")]
    u += [("C(A, levels=['z', 'x', 'y'])",), ("C(A, levels=['z', 'x', 'y'])", "a"), ("B", "C(A, levels=['z', 'x', 'y'])")]
    u += [("C(A, levels=['x', 'y'])",), ("C(A, levels=['x', 'y'])", "a")]
    u += [("2.5", "a"), ("2.5", "A"), ("a", "2.5"), ("2.5", "a", "A"), ("3", "A", "B"), ("1", "b"), ("A", "2.5", "a"), ("2.5", "3", "a")]
    return u


def term_obj(t):
    return Term([Factor(FACTORS[f][0], eval_method=FACTORS[f][1]) for f in t])


def term_str(t):
    return ":".join(t)


def dense(mm, out):
    if out == "pandas":
        return mm.to_numpy(dtype=float), list(mm.columns)
    if out == "numpy":
        return np.asarray(mm, dtype=float), None
    return np.asarray(mm.toarray(), dtype=float), None


def drv(c, ctx, col):
    U = ctx["universe"]
    k = 1 + c.upto(ctx["K"] - 1)
    idx = []
    for _ in range(k):
        i = c.choose(len(U))
        idx.append(i)
    keys = [tuple(sorted(f for f in U[i] if FACTORS[f][2] != "lit")) for i in idx]
    if len(set(keys)) < len(keys):
        raise Skip()  # same term twice (or same term with another scaling: rejected by the parser)
    terms = [U[i] for i in idx]
    icpt = not c.flag()
    mode = c.pick(ctx["modes"])
    efr = not c.flag()
    out = c.pick(ctx["outputs"])
    fname = c.pick(ctx["frame_names"])
    frame = ctx["frames"][fname]
    mat = c.pick(ctx.get("materializers", ["pandas"]))

    if mode == "string":
        s = " + ".join(([] if icpt else ["0"]) + [term_str(t) for t in terms])
        formula = Formula(s)
        desc = "Formula(%r)" % s
    else:
        tl = ([Term([Factor("1", eval_method="literal")])] if icpt else []) + [term_obj(t) for t in terms]
        formula = Formula(tl, _ordering="none")
        desc = "Formula(%r, _ordering='none')" % ([("1" if icpt else None)] + [term_str(t) for t in terms])
    key = "%s efr=%s output=%s frame=%s%s" % (desc, efr, out, fname, "" if mat == "pandas" else " materializer=" + mat)
    if any(FACTORS[f][2] in ("cat", "lit") for t in terms for f in t):
        col.interesting()
    col.sample({"formula": desc, "ensure_full_rank": efr, "output": out, "frame": fname})

    try:
        mm = formula.get_model_matrix(frame, ensure_full_rank=efr, output=out, materializer=mat)
    except Exception as e:  # noqa
        col.violation(key, {"error": "%s: %s" % (type(e).__name__, e)}, sig="materialization-raised:" + type(e).__name__)
        return
    verify_matrix(col, key, mm, list(formula), frame, fname, efr, out, desc, ctx)


def verify_matrix(col, key, mm, fterms, frame, fname, efr, out, desc, ctx, reuse=True):
    """every column of one model matrix obeys its label (and, with rank reduction off, the whole label list is the predicted one)"""
    vals, labels = dense(mm, out)
    spec = mm.model_spec
    names = list(spec.column_names)
    if labels is not None and labels != names:
        col.violation(key, {"labels": labels, "spec_names": names}, sig="labels-differ-from-spec")
        return
    if vals.shape != (len(frame), len(names)):
        col.violation(key, {"shape": vals.shape, "expected": (len(frame), len(names))}, sig="wrong-shape")
        return
    if [str(s.term) for s in spec.structure] != [str(t) for t in fterms]:
        col.violation(key, {"structure_terms": [str(s.term) for s in spec.structure], "formula_terms": [str(t) for t in fterms]},
                      sig="terms-not-in-formula-order")
        return
    pos = 0
    for s in spec.structure:
        t = s.term
        scale = 1.0
        fexprs = []
        for f in t.factors:
            if f.eval_method.value == "literal":
                scale *= float(f.expr)
            else:
                fexprs.append(f.expr)
        cols = list(s.columns)
        if not fexprs:
            want_labels = ["Intercept"]
        else:
            want_labels = D.full_kronecker_labels(fexprs, frame, CAT, LEVELS)
        if not efr and cols != want_labels:
            col.violation(key, {"term": str(t), "columns": cols, "predicted": want_labels}, sig="kronecker-layout")
            return
        for label in cols:
            try:
                want, parts = D.column_from_label(label, frame, CAT, scale=scale, extra=reduced_pieces(fname, frame))
            except Exception as e:  # noqa
                col.violation(key, {"term": str(t), "label": label, "error": repr(e)}, sig="unreadable-label")
                return
            # label pieces must be factors of this term, in the term's factor order
            pf = [p[0] for p in parts]
            if label != "Intercept":
                it = iter(fexprs)
                if not all(any(p == f for f in it) for p in pf):
                    col.violation(key, {"term": str(t), "label": label, "factors": fexprs}, sig="label-not-from-term")
                    return
                for p in parts:
                    if p[1] is not None and p[1] not in [str(x) for x in (LEVELS.get(p[0]) or D.levels_of(frame[CAT[p[0]]]))]:
                        col.violation(key, {"term": str(t), "label": label}, sig="label-unknown-level")
                        return
            got = vals[:, pos]
            if not np.allclose(got, want, rtol=1e-12, atol=1e-12):
                col.violation(key, {"term": str(t), "label": label, "scale": scale, "got": got.tolist(), "want": want.tolist(),
                                    "repro": "%s.get_model_matrix(frame_%s, ensure_full_rank=%s, output=%r)" % (desc, fname, efr, out)},
                              sig="column-value:" + ("scaled" if scale != 1.0 else "unscaled"))
                return
            pos += 1
    if pos != len(names):
        col.violation(key, {"columns_in_structure": pos, "names": names}, sig="structure-does-not-cover-columns")
        return
    # the matrix regenerated from the attached spec is a model matrix of the same formula: its columns obey the same labels
    # (one output type per sub-check is enough: the regeneration path is shared, and C04 / C05 compare outputs and replays)
    if not reuse or out != ctx["outputs"][0]:
        return True
    try:
        mm2 = spec.get_model_matrix(frame)
        vals2, labels2 = dense(mm2, out)
    except Exception as e:  # noqa
        col.violation(key, {"error": "%s: %s" % (type(e).__name__, e)}, sig="spec-reuse-raised:" + type(e).__name__)
        return
    if list(mm2.model_spec.column_names) != names or (labels2 is not None and labels2 != names):
        col.violation(key, {"names": names, "names_from_spec_reuse": list(mm2.model_spec.column_names), "labels": labels2}, sig="spec-reuse:labels")
        return
    if vals2.shape != vals.shape or not np.allclose(vals2, vals, rtol=1e-12, atol=1e-12):
        bad = [names[j] for j in range(min(vals.shape[1], vals2.shape[1])) if vals2.shape[0] != vals.shape[0] or not np.allclose(vals2[:, j], vals[:, j], rtol=1e-12, atol=1e-12)]
        col.violation(key, {"columns_not_obeying_their_label": bad, "values_from_spec_reuse": vals2.tolist(), "values_checked_against_labels": vals.tolist()},
                      sig="spec-reuse:column-value")
    return True


def drv_parts(c, ctx, col):
    """two-part formulas 'T1 ~ T2' and 'T1 | T2' over the universe: EACH part is a model matrix of its own terms and its columns obey their labels
    (parts share the materializer, its caches and the factors)"""
    from formulaic.utils.structured import Structured
    U = ctx["universe"]
    t1, t2 = U[c.choose(len(U))], U[c.choose(len(U))]
    shape = c.pick(["~", "|"])
    efr = not c.flag()
    out = c.pick(ctx["outputs"])
    fname = c.pick(ctx["frame_names"])
    frame = ctx["frames"][fname]
    s = "0 + %s %s 0 + %s" % (term_str(t1), shape, term_str(t2))
    formula = Formula(s)
    desc = "Formula(%r)" % s
    key = "%s efr=%s output=%s frame=%s" % (desc, efr, out, fname)
    if any(FACTORS[f][2] in ("cat", "lit") for t in (t1, t2) for f in t):
        col.interesting()
    col.sample({"formula": desc, "ensure_full_rank": efr, "output": out, "frame": fname})
    try:
        mm = formula.get_model_matrix(frame, ensure_full_rank=efr, output=out)
    except Exception as e:  # noqa
        col.violation(key, {"error": "%s: %s" % (type(e).__name__, e)}, sig="materialization-raised:" + type(e).__name__)
        return
    if not isinstance(mm, Structured):
        col.violation(key, {"result_type": type(mm).__name__}, sig="parts:result-not-structured")
        return
    for j, (part, fpart) in enumerate(zip(mm._flatten(), formula._flatten())):
        if not verify_matrix(col, key + " part=%d" % j, part, list(fpart), frame, fname, efr, out, desc, ctx):
            return


def subchecks(tier, seed):
    fr = frames()
    U = universe(tier)
    if tier == "quick":
        return [
            Sub("columns-2terms", drv, {"universe": U, "K": 2, "modes": ["terms"], "outputs": ["pandas"],
                                        "frames": fr, "frame_names": ["cross6", "shuffled-index"]},
                shard_depth=2, bounds={"max_terms": 2, "universe": len(U), "frames": ["cross6", "shuffled-index"], "outputs": ["pandas (sparse / numpy: sub-checks columns-two-parts, columns-2terms-numpy, columns-1term-allframes; thorough: all three)"],
                                       "construction": ["term list"]}),
            Sub("columns-2terms-numpy", drv, {"universe": U, "K": 2, "modes": ["string"], "outputs": ["numpy"], "frames": fr, "frame_names": ["cross6"]},
                shard_depth=2, bounds={"max_terms": 2, "universe": len(U), "frames": ["cross6"], "outputs": ["numpy"], "construction": ["formula string"]}),
            Sub("columns-two-parts", drv_parts, {"universe": U, "outputs": ["pandas", "sparse"], "frames": fr, "frame_names": ["cross6"]},
                shard_depth=2, bounds={"shapes": ["T1 ~ T2", "T1 | T2"], "universe": len(U), "frames": ["cross6"], "outputs": ["pandas", "sparse"]}),
            Sub("columns-1term-allframes", drv, {"universe": U, "K": 1, "modes": ["string", "terms"], "outputs": ["pandas", "numpy", "sparse"],
                                                 "frames": fr, "frame_names": [f for f in fr if f != "small-ints"], "materializers": ["pandas", "narwhals"]},
                shard_depth=2, bounds={"max_terms": 1, "universe": len(U), "frames": [f for f in fr if f != "small-ints"]}),
            Sub("columns-small-integer-dtypes", drv, {"universe": [("a", "b"), ("b", "a"), ("3", "a"), ("a", "3"), ("a", "A"), ("a",), ("b",), ("2.5", "a"), ("a", "b", "A")],
                                                      "K": 1, "modes": ["string"], "outputs": ["pandas", "numpy", "sparse"], "frames": fr, "frame_names": ["small-ints"]},
                shard_depth=2, bounds={"frame": "a: int8 [100,100,2,3,5,7], b: int8 [100,2,2,3,-100,120]", "terms": "products and integer scalings of them", "outputs": 3}),
        ]
    return [
        Sub("columns-2terms", drv, {"universe": U, "K": 2, "modes": ["string", "terms"], "outputs": ["pandas", "numpy", "sparse"],
                                    "frames": fr, "frame_names": [f for f in fr if f != "small-ints"]},
            shard_depth=2, bounds={"max_terms": 2, "universe": len(U), "frames": [f for f in fr if f != "small-ints"]}),
        Sub("columns-2terms-narwhals", drv, {"universe": U, "K": 2, "modes": ["terms"], "outputs": ["pandas", "sparse"],
                                             "frames": fr, "frame_names": ["cross6"], "materializers": ["narwhals"]},
            shard_depth=2, bounds={"max_terms": 2, "universe": len(U), "materializer": "narwhals", "frames": ["cross6"]}),
        Sub("columns-3terms", drv, {"universe": U[:25], "K": 3, "modes": ["terms"], "outputs": ["pandas", "sparse"],
                                    "frames": fr, "frame_names": ["cross6"]},
            shard_depth=3, bounds={"max_terms": 3, "universe": 25, "frames": ["cross6"], "outputs": ["pandas", "sparse"]}),
    ]
