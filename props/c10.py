"""C10 - model-spec metadata indexes the generated columns truthfully."""
import itertools

import numpy as np
import pandas as pd

from mc.explorer import Skip
from mc.runner import Sub
import props.common  # noqa: F401  (silences warnings)

RULE = (
    "Every ordered list of distinct terms (up to the length bound) over the stated term universe, with the intercept "
    "absent / written in the formula string / placed first or last in an explicit term list (_ordering='none'), "
    "x output type {pandas, numpy, sparse} x ensure_full_rank {True, False} x two data frames; for each materialized "
    "spec every term, every column name, every variable and every non-empty term subset (in parent order with the "
    "default ordering and, for |S|>=2, reversed with ordering='none') is looked up / regenerated.  Non-trivial = the "
    "formula has at least one non-intercept term and was materialized (counted once per (formula, configuration))."
)
ASSUMPTIONS = [
    "small-scope hypothesis: the derived indexes (column_names, term_indices, term_slices, variable_indices, "
    "get_slice, get_term_indices, subset) are computed term by term from ModelSpec.structure, so a mechanism that "
    "first fails with more than 3 non-intercept terms, more than 3 factors per term or more than 3 levels is not expected",
    "the expected term order (as written for _ordering='none'; stable sort by degree otherwise), the variables used by "
    "each factor and the printed form of each term are written down by hand in this file (FACTORS) and do not come from formulaic",
    "a column 'belongs' to a term when every ':'-separated part of its name is one of the term's factors (optionally "
    "followed by a '[level]' suffix), in the term's factor order; this is the independent evidence that the index "
    "ranges are attached to the right terms",
    "term lists in which the same term occurs twice (also as a factor-order permutation or with a different numeric "
    "scale, which the parser rejects) are outside the scope (UNSPECIFIED, skipped and counted)",
    "string lookups through get_term_indices/subset are demanded only when the printed form re-parses to the same "
    "single term (the printed form of `{a+b}` is `a + b`, which is a two-term formula for the parser)",
]

# factor key (as written in a formula) -> (printed form, variables used incl. callables, is a numeric literal, Factor.expr)
FACTORS = {
    "a": ("a", ("a",), False, "a"),
    "b": ("b", ("b",), False, "b"),
    "A": ("A", ("A",), False, "A"),
    "B": ("B", ("B",), False, "B"),
    "D": ("D", ("D",), False, "D"),
    "{a+b}": ("a + b", ("a", "b"), False, "a + b"),
    "2.5": ("2.5", (), True, "2.5"),
    "poly(a,2)": ("poly(a, 2)", ("poly", "a"), False, "poly(a, 2)"),
    "bs(a,df=4)": ("bs(a, df=4)", ("bs", "a"), False, "bs(a, df=4)"),
    # column names that must be back-quoted in a formula; a factor whose expression contains ':' also PRINTS back-quoted
    "`ns:qty`": ("`ns:qty`", ("ns:qty",), False, "ns:qty"),
    "`ns:price`": ("`ns:price`", ("ns:price",), False, "ns:price"),
    "`c:d`": ("`c:d`", ("c:d",), False, "c:d"),          # categorical, 2 levels
    "`w v`": ("w v", ("w v",), False, "w v"),
    "`p.q`": ("p.q", ("p.q",), False, "p.q"),
    # Python-expression factors: names in keyword arguments / subscripts, expressions containing ':' (slice, dict literal; these
    # PRINT back-quoted), a back-quoted name inside the expression, attribute / method access (recorded under the dotted name)
    "np.clip(a, a_min=b, a_max=None)": ("np.clip(a, a_min=b, a_max=None)", ("np.clip", "a", "b"), False, "np.clip(a, a_min=b, a_max=None)"),
    "I(a[0:] * 2)": ("`I(a[0:] * 2)`", ("I", "a"), False, "I(a[0:] * 2)"),
    "B.map({'u': 1.5, 'v': 2})": ("`B.map({'u': 1.5, 'v': 2})`", ("B.map",), False, "B.map({'u': 1.5, 'v': 2})"),
    "I(`w v` * 2)": ("I(`w v` * 2)", ("I", "w v"), False, "I(`w v` * 2)"),
    "a.iloc[0:]": ("`a.iloc[0:]`", ("a.iloc",), False, "a.iloc[0:]"),
}
PYFACTORS = ["np.clip(a, a_min=b, a_max=None)", "I(a[0:] * 2)", "B.map({'u': 1.5, 'v': 2})", "I(`w v` * 2)", "a.iloc[0:]"]


def python_universe():
    """every ordered sequence of 1..2 distinct factors of PYFACTORS + [A, b] that contains at least one Python-expression factor"""
    pool = PYFACTORS + ["A", "b"]
    return [t for k in (1, 2) for t in itertools.permutations(pool, k) if any(f in PYFACTORS for f in t)]

# ASCII-sorted by printed form, so that subsets rendered in this order print in sorted factor order
BASE = ["A", "B", "a", "{a+b}", "b"]
SPECIAL = [("2.5", "a"), ("B", "A"), ("b", "A", "a"), ("poly(a,2)",), ("bs(a,df=4)",), ("D",), ("D", "A")]


# factors that evaluate to numerical (not categorical, not constant) values: the keys of `cluster_by="numerical_factors"`
NUMERICAL = set(PYFACTORS) | {"a", "b", "{a+b}", "poly(a,2)", "bs(a,df=4)", "`ns:qty`", "`ns:price`", "`w v`", "`p.q`"}
UCLUSTER = [("a",), ("b",), ("A",), ("A", "a"), ("A", "b"), ("a", "b"), ("B",), ("poly(a,2)",), ("2.5", "a")]

QPOOL = ["`ns:qty`", "`ns:price`", "`c:d`", "`w v`", "A", "a"]
QSECOND = [None, ("`p.q`", "`ns:qty`")]


def quoted_universe():
    """every ordered sequence of 1..3 distinct factors of QPOOL that contains at least one back-quoted name"""
    out = []
    for k in (1, 2, 3):
        for t in itertools.permutations(QPOOL, k):
            if any(f.startswith("`") for f in t):
                out.append(t)
    return out


def universe(max_size):
    out = []
    for k in range(1, max_size + 1):
        out.extend(itertools.combinations(BASE, k))
    return out + SPECIAL


def printed(term):
    return ":".join(FACTORS[f][0] for f in term)


def written(term):
    return ":".join(term)


def degree(term):
    return sum(1 for f in term if not FACTORS[f][2])


def term_vars(term):
    return {v for f in term for v in FACTORS[f][1]}


def canon(term):
    return tuple(sorted(FACTORS[f][0] for f in term if not FACTORS[f][2]))


def frames():
    f1 = pd.DataFrame({
        "a": [1.0, 2.0, 3.0, 5.0, 7.0, 4.0],
        "b": [2.0, -1.0, 0.5, 3.0, 1.0, 8.0],
        "A": pd.Series(list("xyzxyz"), dtype=object),
        "B": pd.Series(list("uvuvvu"), dtype=object),
        "D": pd.Series(list("qqqqqq"), dtype=object),
        "ns:qty": [3.0, 1.0, 4.0, 1.5, 9.0, 2.0],
        "ns:price": [2.5, 7.0, 1.0, 8.0, 2.0, 6.0],
        "c:d": pd.Series(list("ghhggh"), dtype=object),
        "w v": [0.5, 1.5, 2.5, 3.5, 5.5, 4.5],
        "p.q": [6.0, 5.0, 4.0, 3.0, 2.0, 1.5],
    })
    f2 = pd.DataFrame({
        "a": [0.5, 9.0, 2.5, 6.0, 3.5, 8.0, 1.5],
        "b": [-3.0, 4.0, 0.25, 1.0, -2.0, 7.0, 5.0],
        "A": pd.Series(["r", "p", "q", "q", "r", "p", "q"], dtype=object),
        "B": pd.Series(["m", "k", "k", "m", "m", "k", "m"], dtype=object),
        "D": pd.Series(["only"] * 7, dtype=object),
        "ns:qty": [1.0, 2.0, 4.0, 8.0, 16.0, 3.0, 5.0],
        "ns:price": [9.0, 7.0, 5.0, 3.0, 1.0, 2.0, 4.0],
        "c:d": pd.Series(["t", "s", "s", "t", "s", "t", "t"], dtype=object),
        "w v": [2.0, 3.0, 5.0, 7.0, 11.0, 13.0, 17.0],
        "p.q": [0.1, 0.2, 0.3, 0.5, 0.8, 1.3, 2.1],
    })
    return [f1, f2]


def attempt(fn):
    try:
        return ("ok", fn())
    except Exception as e:  # noqa: BLE001 - classify anything the lookup raises
        return ("err", "%s: %s" % (type(e).__name__, str(e)[:90]))


def dense(mm, output):
    if output == "sparse":
        return np.asarray(mm.toarray(), dtype=float)
    return np.asarray(mm, dtype=float)


def same_values(x, y):
    return x.shape == y.shape and bool(np.allclose(x, y, rtol=1e-9, atol=1e-12, equal_nan=True))


def belongs(name, term):
    """is `name` a column that the term `term` can generate (see ASSUMPTIONS); factor names may contain ':' themselves"""
    facs = [FACTORS[f][3] for f in term if not FACTORS[f][2]]
    if not facs:
        return name == "Intercept"

    def match(s, i):
        for j in range(i, len(facs)):
            f = facs[j]
            if not s.startswith(f):
                continue
            rest = s[len(f):]
            if rest.startswith("["):
                k = rest.find("]")
                if k < 0:
                    continue
                rest = rest[k + 1:]
            if rest == "" or (rest.startswith(":") and match(rest[1:], j + 1)):
                return True
        return False

    return match(name, 0)


def drv(c, ctx, col):
    from formulaic import Formula, model_matrix
    from formulaic.parser.types import Factor, Term

    U = ctx["universe"]
    n = ctx["nmin"] + c.upto(ctx["nmax"] - ctx["nmin"])
    terms = [ctx["first"]] if ctx.get("first") is not None else []
    while len(terms) < n:
        terms.append(c.pick(U))
    if ctx.get("second"):
        extra = c.pick(ctx["second"])
        if extra is not None:
            terms.append(extra)
    form = c.pick(ctx.get("forms", ["string", "termlist"]))
    icpt = c.pick(["none", "first"] if form == "string" else ["none", "first", "last"])
    output = c.pick(ctx.get("outputs", ["pandas", "numpy", "sparse"]))
    efr = not c.flag()
    fi = c.pick(ctx.get("frame_ids", [0, 1]))
    data = ctx["frames"][fi]
    cluster = c.pick(ctx.get("cluster_by") or ["none"])

    # ---- scope ------------------------------------------------------------
    if len({canon(t) for t in terms}) != len(terms):
        col.count("unspecified:duplicate-term")
        raise Skip()

    # ---- build ------------------------------------------------------------
    if form == "string":
        text = " + ".join(written(t) for t in terms) or ("1" if icpt == "first" else "0")
        if terms:
            text += "" if icpt == "first" else " - 1"
        spec_in = text
        exp_terms = ([()] if icpt == "first" else []) + list(terms)
        exp_terms = sorted(exp_terms, key=degree)  # documented default: stable sort by degree
        desc = "model_matrix(%r, data)" % text
    else:
        exp_terms = list(terms)
        if icpt == "first":
            exp_terms = [()] + exp_terms
        elif icpt == "last":
            exp_terms = exp_terms + [()]
        lst = [written(t) if t else "1" for t in exp_terms]
        spec_in = Formula(lst, _ordering="none")
        desc = "model_matrix(Formula(%r, _ordering='none'), data)" % (lst,)
    formula_order = list(exp_terms)
    if cluster == "numerical_factors":
        # documented (patsy-like) clustering: terms are grouped by the numerical factors they contain, groups in order of
        # first appearance, terms inside a group in formula order; the generated columns (and the index ranges) follow it
        groups = {}
        for t in exp_terms:
            groups.setdefault(tuple(f for f in t if f in NUMERICAL), []).append(t)
        exp_terms = [t for g in groups.values() for t in g]
        if exp_terms != formula_order:
            col.count("clustering-reorders-terms")
    cfg = "output=%s ensure_full_rank=%s frame=%d" % (output, efr, fi + 1) + ("" if cluster == "none" else " cluster_by=%s" % cluster)
    where = "%s %s" % (desc, cfg)
    repro_head = ("import pandas as pd; from formulaic import *; data = pd.DataFrame(%r).astype({'A': object, 'B': object, 'D': object, 'c:d': object}); "
                  "ms = %s.model_spec; "
                  % (data.to_dict("list"), desc.replace("data)", "data, output=%r, ensure_full_rank=%r, cluster_by=%r)" % (output, efr, cluster))))
    try:
        mm = model_matrix(spec_in, data, output=output, ensure_full_rank=efr, cluster_by=cluster)
    except Exception as e:  # noqa: BLE001
        col.count("build-error:" + type(e).__name__)
        col.violation("build :: " + where, {"error": repr(e)[:300], "repro": repro_head}, sig="universe-formula-does-not-materialize")
        return
    ms = mm.model_spec
    if terms:
        col.interesting()
    col.sample({"formula": desc, "config": cfg, "columns": list(ms.column_names)})

    def bad(sig, what, detail):
        detail = dict(detail)
        detail.setdefault("formula", desc)
        detail.setdefault("config", cfg)
        detail.setdefault("repro", repro_head + detail.pop("expr", ""))
        col.violation("%s :: %s :: %s" % (sig, what, where), detail, sig=sig)

    # ---- 1. column names ---------------------------------------------------
    names = list(ms.column_names)
    ncols = mm.shape[1]
    if output == "pandas":
        if list(mm.columns) != names:
            bad("column-names-differ-from-labels", "labels", {"column_names": names, "labels": list(mm.columns), "expr": "print(ms.column_names)"})
    if len(names) != ncols:
        bad("column-names-count", "count", {"column_names": names, "ncols": ncols, "expr": "print(ms.column_names)"})
        return
    col.count("checked:column-names")

    # ---- 2. per-term index ranges -------------------------------------------
    ti = ms.term_indices
    keys = list(ti)
    # terms are identified by their factor expressions (not by their printed form, which is whatever str(term) returns and is
    # what the printed-form lookups below use)
    pr = lambda ts: [":".join(FACTORS[f][3] for f in t) if t else "1" for t in ts]  # noqa: E731
    ex = lambda ts: [":".join(f.expr for f in t.factors) for t in ts]  # noqa: E731
    if ex(keys) != pr(exp_terms) or ex(ms.terms) != pr(formula_order):
        bad("term-order", "terms", {"term_indices_keys": [str(k) for k in keys], "spec_terms": [str(t) for t in ms.terms],
                                    "expected_column_generation_order": pr(exp_terms), "expected_formula_order": pr(formula_order),
                                    "expr": "print(ms.term_indices)"})
        return
    pos = 0
    ok = True
    for k, t in zip(keys, exp_terms):
        idx = list(ti[k])
        if idx != list(range(pos, pos + len(idx))):
            ok = False
        pos += len(idx)
        for i in idx:
            if 0 <= i < ncols and not belongs(names[i], t):
                bad("term-range-holds-foreign-column", "term %r column %r" % (str(k), names[i]),
                    {"term_indices": {str(a): b for a, b in ti.items()}, "column_names": names, "expr": "print(ms.term_indices, ms.column_names)"})
    if pos != ncols:
        ok = False
    if not ok:
        bad("term-ranges-not-a-partition", "ranges", {"term_indices": {str(a): b for a, b in ti.items()}, "ncols": ncols,
                                                      "expr": "print(ms.term_indices)"})
        return
    col.count("checked:term-ranges")
    if any(not ti[k] for k in keys):
        col.count("has-zero-column-term")
    P = {i: list(ti[k]) for i, k in enumerate(keys)}  # position of term -> verified index list
    allpos = list(range(ncols))

    def sl_ok(res, want):
        return res[0] == "ok" and isinstance(res[1], slice) and allpos[res[1]] == want

    def ix_ok(res, want):
        return res[0] == "ok" and list(res[1]) == want

    if "subsets" in ctx["checks"]:
        check_subsets(ctx, col, bad, ms, mm, data, output, keys, exp_terms, P, names)
    if "metadata" not in ctx["checks"]:
        return

    # ---- 3. lookups by object / printed form / permutations -----------------
    for i, (k, t) in enumerate(zip(keys, exp_terms)):
        want = P[i]
        s = str(k)
        fresh = Term([Factor(f.expr, eval_method=f.eval_method.value) for f in k.factors])
        by_obj = {
            "term_indices[term]": (ix_ok, attempt(lambda: ms.term_indices[k])),
            "term_slices[term]": (sl_ok, attempt(lambda: ms.term_slices[k])),
            "get_slice(term)": (sl_ok, attempt(lambda: ms.get_slice(k))),
            "get_term_indices([term])": (ix_ok, attempt(lambda: ms.get_term_indices([k], ordering="none"))),
            "term_indices[equal new Term]": (ix_ok, attempt(lambda: ms.term_indices[fresh])),
            "get_slice(equal new Term)": (sl_ok, attempt(lambda: ms.get_slice(fresh))),
        }
        failed = {via: r for via, (chk, r) in by_obj.items() if not chk(r, want)}
        col.count("lookups:by-object", len(by_obj))
        if failed:
            bad("object-lookup-wrong", "term %r" % s, {"term": s, "want": want, "failed": failed, "expr": "t = ms.terms[%d]; print(ms.get_slice(t))" % i})
        reparsable = reparses(t)
        by_str = {
            "term_indices[str]": (ix_ok, attempt(lambda: ms.term_indices[s])),
            "term_slices[str]": (sl_ok, attempt(lambda: ms.term_slices[s])),
            "get_slice(str)": (sl_ok, attempt(lambda: ms.get_slice(s))),
        }
        if reparsable:
            by_str["get_term_indices([str])"] = (ix_ok, attempt(lambda: ms.get_term_indices([s], ordering="none")))
        else:
            col.count("unspecified:printed-form-is-not-a-one-term-formula")
        failed = {via: r for via, (chk, r) in by_str.items() if not chk(r, want)}
        col.count("lookups:by-printed-form", len(by_str))
        if failed:
            bad("printed-form-lookup-fails", "term %r" % s,
                {"term": s, "want_positions": want, "failed": failed, "sorted_factor_string": ":".join(sorted(s.split(":"))),
                 "expr": "print(ms.term_indices); print(ms.term_indices[%r])" % s})
        # extra: other factor orders of the printed form (not demanded by the property; counted only)
        if len(k.factors) > 1:
            for fperm in itertools.permutations(k.factors):
                perm = [f.expr for f in fperm]
                ps = ":".join(repr(f) for f in fperm)
                if ps == s:
                    continue
                for via, chk, r in (("term_indices", ix_ok, attempt(lambda: ms.term_indices[ps])),
                                    ("get_slice", sl_ok, attempt(lambda: ms.get_slice(ps)))):
                    col.count("extra:permuted-string-lookup:%s:%s" % (via, "ok" if chk(r, want) else "fails"))
                pt = Term([Factor(e, eval_method="lookup") for e in perm])
                r = attempt(lambda: ms.term_indices[pt])
                col.count("extra:permuted-Term-lookup:%s" % ("ok" if ix_ok(r, want) else "fails"))

    # ---- 4. column name -> position -----------------------------------------
    term_strs = {str(k): P[i] for i, k in enumerate(keys)}
    for i, name in enumerate(names):
        if names.count(name) > 1:
            col.count("unspecified:duplicate-column-name")
            continue
        res = {
            "column_indices[name]": attempt(lambda: ms.column_indices[name]),
            "get_column_indices(name)": attempt(lambda: ms.get_column_indices(name)),
            "get_column_indices([name])": attempt(lambda: ms.get_column_indices([name])),
        }
        wantd = {"column_indices[name]": i, "get_column_indices(name)": [i], "get_column_indices([name])": [i]}
        failed = {via: r for via, r in res.items() if not (r[0] == "ok" and r[1] == wantd[via])}
        if name in term_strs and term_strs[name] != [i]:
            col.count("unspecified:column-name-equals-other-term-string")
        else:
            r = attempt(lambda: ms.get_slice(name))
            if not sl_ok(r, [i]):
                failed["get_slice(name)"] = r
        col.count("lookups:by-column-name", 4)
        if failed:
            bad("column-name-lookup-wrong", "column %r" % name, {"column": name, "position": i, "failed": failed,
                                                                 "expr": "print(ms.column_indices)"})
    if len(names) > 1:
        rev = names[::-1]
        if len(set(names)) == len(names):
            r = attempt(lambda: ms.get_column_indices(rev))
            if not (r[0] == "ok" and r[1] == list(range(ncols))[::-1]):
                bad("column-name-lookup-wrong", "get_column_indices(reversed names)", {"got": r, "expr": "print(ms.get_column_indices(%r))" % (rev,)})

    # ---- 5. variable -> columns ----------------------------------------------
    exp_vars = {}
    for i, t in enumerate(exp_terms):
        for v in term_vars(t):
            exp_vars.setdefault(v, set()).update(P[i])
    vi = attempt(lambda: {str(v): list(ix) for v, ix in ms.variable_indices.items()})
    if vi[0] != "ok":
        bad("variable-indices-wrong", "variable_indices raised", {"got": vi, "expr": "print(ms.variable_indices)"})
    else:
        got = vi[1]
        wrong = {}
        for v in sorted(set(got) | set(exp_vars)):
            w = sorted(exp_vars.get(v, ()))
            g = got.get(v)
            if (g is None and w) or (g is not None and g != w):
                wrong[v] = {"got": g, "want": w}
        col.count("lookups:variables", len(exp_vars))
        if wrong:
            bad("variable-indices-wrong", "variables %s" % sorted(wrong),
                {"wrong": wrong, "term_indices": {str(a): b for a, b in ti.items()}, "expr": "print(ms.variable_indices)"})
        for v in sorted(exp_vars):
            if v in got:
                r = attempt(lambda: ms.get_variable_indices([v]))
                if not ix_ok(r, sorted(exp_vars[v])):
                    bad("variable-indices-wrong", "get_variable_indices([%r])" % v, {"got": r, "want": sorted(exp_vars[v]),
                                                                                   "expr": "print(ms.get_variable_indices([%r]))" % v})


    # ---- 5b. independent evidence for variable -> columns: perturb one data column, see which matrix columns change --------
    if ctx.get("perturb") and vi[0] == "ok":
        base = dense(mm, output)
        used = []
        for t in exp_terms:
            for v in term_vars(t):
                cname = v if v in data.columns else v.split(".", 1)[0]
                if cname in data.columns and cname not in used:
                    used.append(cname)
        for cname in used:
            d2 = data.copy()
            if d2[cname].dtype == object:
                lv = sorted(set(d2[cname]))
                d2[cname] = pd.Series([lv[(lv.index(x) + 1) % len(lv)] for x in d2[cname]], dtype=object)
            else:
                d2[cname] = d2[cname] * 1.5 + 0.25
            try:
                mm2 = model_matrix(spec_in, d2, output=output, ensure_full_rank=efr, cluster_by=cluster)
            except Exception:  # noqa: BLE001 - the perturbed data need not be valid for every transform
                col.count("perturbation-not-applicable")
                continue
            if list(mm2.model_spec.column_names) != names:
                col.count("perturbation-not-applicable")
                continue
            new = dense(mm2, output)
            changed = [q for q in range(ncols) if not np.allclose(base[:, q], new[:, q], rtol=1e-9, atol=1e-12, equal_nan=True)]
            # attribute / method access is recorded under a dotted name rooted at the column (known findings K3): accept those keys
            reported = sorted({q for k, ix in vi[1].items() if k == cname or (k.split(".", 1)[0] == cname and k not in data.columns) for q in ix})
            col.count("perturbations")
            missed = [q for q in changed if q not in reported]
            if missed:
                bad("variable-indices-miss-dependent-column", "column %r" % cname,
                    {"perturbed_data_column": cname, "matrix_columns_that_changed": [names[q] for q in changed], "changed_positions": changed,
                     "variable_indices_for_it": reported, "variable_indices": vi[1], "expr": "print(ms.variable_indices)"})


def reparses(term):
    """does the printed form of the term parse back to the same single term"""
    return all(f in ("a", "b", "A", "B", "D", "2.5", "`ns:qty`", "`ns:price`", "`c:d`", "`p.q`") for f in term)


def check_subsets(ctx, col, bad, ms, mm, data, output, keys, exp_terms, P, names):
    # ---- 6. subsets ------------------------------------------------------------
    nt = len(keys)
    if nt == 0 or nt > 4:
        return
    parent = dense(mm, output)
    for mask in range(1, 2 ** nt):
        S = [i for i in range(nt) if mask >> i & 1]
        variants = [("parent-order/default-ordering", S, {}, sorted(S, key=lambda i: degree(exp_terms[i])))]
        if len(S) >= 2:
            variants.append(("reversed/ordering=none", S[::-1], {"ordering": "none"}, S[::-1]))
        for vname, req, kw, want_order in variants:
            want_idx = [j for i in want_order for j in P[i]]
            want_names = [names[j] for j in want_idx]
            # strings for one variant (when they re-parse), Term objects for the other
            use_str = vname.startswith("reversed") and all(reparses(exp_terms[i]) for i in req)
            arg = [str(keys[i]) for i in req] if use_str else [keys[i] for i in req]
            what = "subset(%r%s) [%s]" % ([str(keys[i]) for i in req], "".join(", %s=%r" % kv for kv in kw.items()), vname)
            expr = "sub = ms.subset(%r%s); print(sub.column_names, sub.get_model_matrix(data))" % (
                [str(keys[i]) for i in req], "".join(", %s=%r" % kv for kv in kw.items()))
            r = attempt(lambda: ms.get_term_indices(arg, **kw))
            if not (r[0] == "ok" and list(r[1]) == want_idx):
                bad("get-term-indices-wrong", what, {"got": r, "want": want_idx, "expr": expr})
            try:
                sub = ms.subset(arg, **kw)
                smm = sub.get_model_matrix(data)
            except Exception as e:  # noqa: BLE001
                bad("subset-fails", what, {"error": "%s: %s" % (type(e).__name__, str(e)[:200]), "expr": expr})
                continue
            col.count("subsets-regenerated")
            got_names = list(smm.model_spec.column_names)
            if got_names != want_names or (output == "pandas" and list(smm.columns) != want_names):
                bad("subset-columns-differ", what, {"got_names": got_names, "labels": list(smm.columns) if output == "pandas" else None,
                                                    "want_names": want_names, "expr": expr})
                continue
            if not same_values(dense(smm, output), parent[:, want_idx]):
                bad("subset-values-differ", what, {"names": want_names, "got": dense(smm, output).tolist(),
                                                   "want": parent[:, want_idx].tolist(), "expr": expr})
            if [str(t) for t in smm.model_spec.terms] != [str(keys[i]) for i in want_order]:
                bad("subset-columns-differ", what + " (terms)", {"got_terms": [str(t) for t in smm.model_spec.terms],
                                                               "want_terms": [str(keys[i]) for i in want_order], "expr": expr})


# ----------------------------------------------------------------------------
# re-use of a fitted spec (and of its subsets) on data other than the training data

def _onehot(s):
    """context transform: one indicator column per observed value, in order of FIRST APPEARANCE (so the order of the
    generated sub-columns depends on the row order of the data)"""
    return {lvl: (s == lvl).astype(float) for lvl in s.unique()}


REUSE_CONTEXT = {"onehot": _onehot}
REUSE_TRAIN = {
    "x": [1.0, 2.0, 4.0, 7.0],
    "z": [3.0, -1.0, 0.5, 6.0],
    "g": ["u", "v", "w", "u"],
    "A": ["p", "q", "q", "r"],
}
# terms whose values are a row-wise function of the data once the state (means, scales, polynomial coefficients, levels)
# recorded at training time is re-used; several have their stateful call NESTED inside another call
REUSE_TERMS = ["x", "onehot(g)", "x:onehot(g)", "I(center(z) ** 2)", "np.log(scale(x) + 10)", "center(z)", "A", "poly(x, 2)",
               "A:onehot(g)", "C(g)"]
# one row list per order of first appearance of the three levels of g (u=row 0/3, v=row 1, w=row 2); every list keeps all
# rows and repeats one, so that column means / scales of the new data differ from the training data
REUSE_ROWS = [[0, 1, 2, 3, 1], [0, 2, 1, 3, 2], [1, 0, 2, 3, 0], [1, 2, 3, 0, 2], [2, 0, 1, 3, 3], [2, 1, 0, 3, 1]]


def drv_reuse(c, ctx, col):
    from formulaic import model_matrix

    T = ctx["terms"]
    i = c.choose(len(T))
    n2 = c.choose(len(T) + 1)  # 0 = single term
    terms = [T[i]]
    if n2:
        j = n2 - 1
        if j == i or (not ctx["ordered"] and j < i):
            raise Skip()
        terms.append(T[j])
    if ctx["three"]:
        n3 = c.choose(len(T) + 1)
        if n3:
            k = n3 - 1
            if len(terms) < 2 or k <= (n2 - 1) or k == i:
                raise Skip()
            terms.append(T[k])
    icpt = c.flag()
    efr = not c.flag()
    output = c.pick(ctx["outputs"])
    rows = c.pick(REUSE_ROWS)
    text = " + ".join(terms) + ("" if icpt else " - 1")
    train = pd.DataFrame({k: pd.Series(v, dtype=object if k in ("g", "A") else float) for k, v in REUSE_TRAIN.items()})
    new = train.iloc[rows].reset_index(drop=True)
    cfg = "output=%s ensure_full_rank=%s new_data=training rows %r" % (output, efr, rows)
    where = "%r %s" % (text, cfg)
    repro = ("import pandas as pd, numpy as np; from formulaic import *; onehot = lambda s: {l: (s == l).astype(float) for l in s.unique()}; "
             "train = pd.DataFrame(%r).astype({'g': object, 'A': object}); new = train.iloc[%r].reset_index(drop=True); "
             "spec = model_matrix(%r, train, output=%r, ensure_full_rank=%r).model_spec; "
             % (REUSE_TRAIN, rows, text, output, efr))
    col.sample({"formula": text, "config": cfg})

    def bad(sig, what, detail):
        detail = dict(detail, formula=text, config=cfg)
        detail.setdefault("repro", repro + detail.pop("expr", ""))
        col.violation("%s :: %s :: %s" % (sig, what, where), detail, sig=sig)

    try:
        parent = model_matrix(text, train, context=REUSE_CONTEXT, output=output, ensure_full_rank=efr)
    except Exception as e:  # noqa: BLE001
        bad("universe-formula-does-not-materialize", "fit", {"error": repr(e)[:300]})
        return
    spec = parent.model_spec
    names = list(spec.column_names)
    keys = list(spec.term_indices)
    P = [list(spec.term_indices[k]) for k in keys]
    pvals = dense(parent, output)
    want_full = pvals[rows, :]  # every term is row-wise given the training state
    col.interesting()

    def compare(label, mm, want_names, want_vals, expr):
        got_names = list(mm.model_spec.column_names)
        labels = list(mm.columns) if output == "pandas" else None
        if got_names != want_names or (labels is not None and labels != want_names):
            bad("reuse-column-names-differ", label, {"reported_column_names": got_names, "labels": labels, "want_names": want_names, "expr": expr})
            return
        vals = dense(mm, output)
        if not same_values(vals, want_vals):
            wrong = [want_names[q] for q in range(len(want_names))
                     if vals.shape != want_vals.shape or not np.allclose(vals[:, q], want_vals[:, q], rtol=1e-9, atol=1e-12, equal_nan=True)]
            bad("reuse-values-differ", label, {"columns_with_wrong_values": wrong, "got": vals.tolist(), "want": want_vals.tolist(), "expr": expr})
        for q, nm in enumerate(want_names):  # the metadata of the re-used spec must index the regenerated columns
            if want_names.count(nm) == 1 and mm.model_spec.column_indices.get(nm) != q:
                bad("reuse-column-index-wrong", "%s column %r" % (label, nm), {"got": mm.model_spec.column_indices.get(nm), "want": q, "expr": expr})

    # the full spec on the new data == the training matrix's rows (same names, labels, values)
    try:
        full = spec.get_model_matrix(new, context=REUSE_CONTEXT)
    except Exception as e:  # noqa: BLE001
        bad("reuse-fails", "full spec", {"error": "%s: %s" % (type(e).__name__, str(e)[:200]), "expr": "spec.get_model_matrix(new)"})
        return
    col.count("reuse-materializations")
    compare("full spec on new data", full, names, want_full, "print(spec.get_model_matrix(new))")

    # every non-empty subset on the new data == the parent's columns for S on the same new data
    nt = len(keys)
    for mask in range(1, 2 ** nt):
        S = [q for q in range(nt) if mask >> q & 1]
        if len(S) == nt and nt > 1:
            order = S[::-1]
            kw = {"ordering": "none"}
        else:
            order = sorted(S, key=lambda q: keys[q].degree)
            kw = {}
        idx = [p for q in order for p in P[q]]
        arg = [keys[q] for q in (S[::-1] if kw else S)]
        what = "subset(%r%s) on new data" % ([str(a) for a in arg], ", ordering='none'" if kw else "")
        expr = "sub = spec.subset(%r%s); print(sub.get_model_matrix(new))" % ([str(a) for a in arg], ", ordering='none'" if kw else "")
        try:
            sub = spec.subset(arg, **kw)
            smm = sub.get_model_matrix(new, context=REUSE_CONTEXT)
        except Exception as e:  # noqa: BLE001
            bad("reuse-fails", what, {"error": "%s: %s" % (type(e).__name__, str(e)[:200]), "expr": expr})
            continue
        col.count("reuse-materializations")
        compare(what, smm, [names[p] for p in idx], want_full[:, idx], expr)


def reuse_subs(tier):
    quick = tier == "quick"
    ctx = {"terms": REUSE_TERMS, "ordered": not quick, "three": False, "outputs": ["pandas"] if quick else ["pandas", "numpy", "sparse"]}
    return [Sub("reuse-new-data", drv_reuse, ctx, shard_depth=2,
                bounds={"terms": REUSE_TERMS, "formulas": "1..2 terms (unordered pairs)" if quick else "1..2 terms (ordered pairs)",
                        "intercept": [True, False], "ensure_full_rank": [True, False], "outputs": ctx["outputs"],
                        "training_rows": REUSE_TRAIN, "new_data": "training rows re-arranged as %r (every order of first appearance of the levels of g; one row repeated)" % (REUSE_ROWS,),
                        "checks": "full spec and every non-empty term subset re-used on the new data: names == labels == parent's names, "
                                  "values == the training matrix's rows, column_indices of the re-used spec"})]


USUB = [("A",), ("a",), ("A", "a"), ("B", "A"), ("b", "A", "a"), ("{a+b}",), ("2.5", "a"), ("poly(a,2)",),
        ("bs(a,df=4)",), ("D",), ("D", "A"), ("A", "B")]
USUB3 = [("A",), ("a",), ("A", "a"), ("B", "A"), ("b", "A", "a"), ("2.5", "a"), ("poly(a,2)",), ("D",)]
FORMS = ["string", "term list with _ordering='none' (intercept none/first/last)"]


def subchecks(tier, seed):
    fr = frames()
    U2, U3 = universe(2), universe(3)
    UQ = quoted_universe()
    UQ2 = [t for t in UQ if len(t) <= 2]
    QNOTE = ("names that need back-quotes (':' , ' ', '.'): every ordered sequence of 1..3 distinct factors of %r with at least one "
             "back-quoted name, i.e. quoted factors in first / middle / last position" % (QPOOL,))
    CNOTE = ("cluster_by is the one ModelSpec option (besides ensure_full_rank) that changes the order in which columns are generated: "
             "the structure / index ranges follow the clustered order while spec.terms keeps the formula order")
    UP = python_universe()
    PNOTE = ("Python-expression factors alone and interacted (first / last) with A, b and each other; additionally every data column "
             "is perturbed and the matrix columns that change must lie inside variable_indices of that column")
    for t in U3 + USUB + UQ + UCLUSTER + UP:  # the hand-written table must describe every universe term
        for f in t:
            assert f in FACTORS
    W = lambda U: [written(t) for t in U]  # noqa: E731
    ALLOUT = ["pandas", "numpy", "sparse"]

    def sub(name, checks, U, nmin, nmax, outputs, frame_ids, shard_depth, first=None, note=None, second=None, cluster_by=None, perturb=False):
        b = {"checks": checks, "terms_per_formula": "%d..%d (+ intercept)" % (nmin, nmax), "universe": W(U), "outputs": outputs,
             "ensure_full_rank": [True, False], "frames": [i + 1 for i in frame_ids], "forms": FORMS}
        if first is not None:
            b["first_term"] = written(first)
        if note:
            b["note"] = note
        if cluster_by:
            b["cluster_by"] = cluster_by
        if second:
            b["optional_extra_term"] = [written(t) if t else None for t in second]
        return Sub(name, drv, {"universe": U, "nmin": nmin, "nmax": nmax, "frames": fr, "outputs": outputs, "frame_ids": frame_ids,
                               "checks": checks, "first": first, "second": second, "cluster_by": cluster_by, "perturb": perturb}, shard_depth=shard_depth, bounds=b)

    if tier == "quick":
        first = U3[seed % len(U3)]
        return [
            sub("meta-le2", ["metadata"], U2, 0, 2, ALLOUT, [0], 3),
            sub("meta-le1-frame2", ["metadata"], U3, 0, 1, ALLOUT, [1], 2),
            sub("subsets-le2", ["subsets"], USUB, 0, 2, ["pandas"], [0], 3),
            sub("subsets-le1-outputs", ["subsets"], U3, 1, 1, ["numpy", "sparse"], [0, 1], 2),
            sub("meta-3-seed-slice", ["metadata"], U2, 3, 3, ["pandas"], [0], 2, first=first,
                note="VERIF_SEED-selected exhaustive slice (first term fixed) of the 3-term scope"),
            sub("meta-quoted-names", ["metadata"], UQ, 1, 1, ["pandas"], [0], 2, second=QSECOND, note=QNOTE),
            sub("subsets-quoted-names", ["subsets"], UQ2, 1, 1, ["pandas"], [1], 2, second=QSECOND, note=QNOTE),
            sub("meta-cluster", ["metadata"], UCLUSTER, 2, 3, ["pandas"], [0], 3, cluster_by=["numerical_factors"], note=CNOTE),
            sub("meta-python-factors", ["metadata"], UP, 1, 1, ["pandas"], [0], 2, second=[None, ("a",)], perturb=True, note=PNOTE),
        ] + reuse_subs(tier)
    return [
        sub("meta-le2", ["metadata"], U3, 0, 2, ALLOUT, [0, 1], 3),
        sub("meta-3", ["metadata"], U2, 3, 3, ["pandas"], [0], 3),
        sub("subsets-le2", ["subsets"], U2, 0, 2, ALLOUT, [0], 3),
        sub("subsets-le2-wide", ["subsets"], U3, 0, 2, ["pandas"], [1], 3),
        sub("subsets-3", ["subsets"], USUB3, 3, 3, ["pandas"], [0], 3),
        sub("meta-quoted-names", ["metadata"], UQ, 1, 1, ALLOUT, [0, 1], 2, second=QSECOND + [("`ns:price`",), ("a",)], note=QNOTE),
        sub("subsets-quoted-names", ["subsets"], UQ, 1, 1, ["pandas", "sparse"], [1], 2, second=QSECOND, note=QNOTE),
        sub("meta-cluster", ["metadata"], UCLUSTER, 2, 3, ALLOUT, [0], 3, cluster_by=["numerical_factors"], note=CNOTE),
        sub("meta-python-factors", ["metadata", "subsets"], UP, 1, 1, ALLOUT, [0], 2, second=[None, ("a",), ("A", "b")], perturb=True, note=PNOTE),
        sub("subsets-cluster", ["subsets"], UCLUSTER, 2, 2, ["pandas"], [1], 3, cluster_by=["numerical_factors"], note=CNOTE),
    ] + reuse_subs(tier)
