"""C12 - spline transforms reproduce the mathematical bases they name.

Bounded-exhaustive check of the real `bs`, `cr`/`cs` and `cc` transforms (taken from formulaic.transforms.TRANSFORMS)
against the exact reference models in models/splines_ref.py, evaluated over the knot vector that the transform
RECORDS in its `_state` dictionary.
"""
import copy
import math
from fractions import Fraction as F

import numpy as np

import props.common  # noqa: F401  (silences warnings)
from mc.explorer import Skip
from mc.runner import Sub
from models import splines_ref as R

from formulaic.transforms import TRANSFORMS

RULE = (
    "Training vector x = every sorted multiset over the grid {0,1/2,1,3/2,2,3,4} + null (+ -1 and 5 as out-of-range "
    "points when the bounds are explicit) up to the length bound, with >= 2 distinct in-range values; x degree 0..5 x "
    "every subset of <= 2 interior grid points as knots (incl. one doubled knot) or every df in degree..degree+3 x "
    "bounds (default / explicit) x include_intercept x the 5 extrapolation modes; then the SAME state dictionary is "
    "re-used on follow-up vectors (a dyadic grid over [-1,5] incl. out-of-range points and a null; in-range only; for "
    "the cubic family also the recorded knots).  Cubic family: cr (= cs) / cc x constraints none/'center' x df or "
    "explicit knots x the 5 extrapolation modes.  Every output row is compared with the exact reference (Cox-de Boor "
    "/ cardinal natural / periodic cubic spline on the recorded knots); the recorded state is compared with what the "
    "arguments imply.  A last sub-check drives the same transforms through model_matrix / ModelSpec re-use and "
    "compares with the direct calls.  Exact per-tier bounds are listed per sub-check.  Non-trivial = the transform "
    "accepted the configuration (or rejected it exactly where documented) and at least two distinct in-range "
    "training values exist."
)
ASSUMPTIONS = [
    "small-scope hypothesis: knot placement, the recursion, boundary closure and the extrapolation rules have no "
    "mechanism that first fails for vectors longer than the bound or for more than two interior knots",
    "evaluation is row-wise (apart from the any-out-of-range test), so one follow-up vector that contains every grid "
    "point stands for every follow-up vector over that grid; an in-range-only follow-up covers the other branch",
    "the reference models in models/splines_ref.py are faithful to the textbook definitions; they are self-tested at "
    "start-up against their defining properties (exactly) and against scipy's BSpline / CubicSpline (numerically)",
    "values are checked on dyadic grid points only: every basis function is a piecewise polynomial of degree <= 5, "
    "so agreement on >= degree+1 points per knot interval pins the piece; intervals with fewer grid points are "
    "checked as a construction (knots, recursion, boundary rules), not pointwise",
    "where the docstrings are silent (the value exactly at the upper bound when a df-quantile knot coincides with it; "
    "zeros in identically-zero columns of a NaN row) the case is counted UNSPECIFIED and not demanded",
]

TOL = 1e-9
NAN = float("nan")
G = [F(0), F(1, 2), F(1), F(3, 2), F(2), F(3), F(4)]
SYM_DEFAULT = G + [None]
SYM_OOR = [F(-1)] + G + [F(5), None]
EXTRAP = ["raise", "clip", "na", "zero", "extend"]
FINE = [F(k, 8) for k in range(-8, 41)] + [None]
COARSE = [F(-1), F(-1, 2), F(0), F(1, 4), F(1, 2), F(1), F(3, 2), F(2), F(5, 2), F(3), F(7, 2), F(4), F(5), None]

BS = TRANSFORMS["bs"]
CUBIC = {"cr": TRANSFORMS["cr"], "cs": TRANSFORMS["cs"], "cc": TRANSFORMS["cc"]}


# ---------------------------------------------------------------------------
# helpers

def fl(v):
    return NAN if v is None else float(v)


def show(v):
    if v is None:
        return "nan"
    if v.denominator > 64 or abs(v.numerator) > 10 ** 6:
        return repr(float(v))  # affinely transformed grid values (exact binary floats)
    return str(v.numerator) if v.denominator == 1 else "%d/%d" % (v.numerator, v.denominator)


class Affine:
    """v -> o + h*v on the grid, with o and h chosen so that every transformed grid value (and k/8 follow-up point) is
    EXACTLY representable as a binary float: the transformed data are then exactly an affine image of the unit-scale
    data, the exact reference applies unchanged to the recorded (transformed) knots, and B-spline / cardinal spline
    bases are affine invariant, basis(o + h x; o + h knots) == basis(x; knots), which is checked as well."""

    def __init__(self, o, h):
        self.o, self.h = F(o), F(h)
        self.identity = (self.o, self.h) == (0, 1)
        self.tag = "" if self.identity else "affine=%r+%r*g :: " % (float(o), float(h))

    def f(self, v):
        if v is None or self.identity:
            return v
        r = self.o + self.h * v
        if F(float(self.o) + float(self.h) * float(v)) != r or F(float(r)) != r:
            raise AssertionError("affine grid value not exactly representable: %r" % ((self.o, self.h, v),))
        return r

    def inv(self, v):
        return v if (v is None or self.identity) else (F(v) - self.o) / self.h

    def grid(self, g):
        k = (id(g), self.o, self.h)
        if k not in _GRIDS:
            _GRIDS[k] = [self.f(v) for v in g]
        return _GRIDS[k]


_GRIDS = {}
IDENT = Affine(0, 1)
AFFINE_PAIRS = [(0, F(1, 2 ** 30)), (0, F(1, 2 ** 10)), (0, 2 ** 10), (0, 2 ** 30), (1000, F(1, 2 ** 10)),
                (10 ** 6, F(1, 2 ** 20)), (16 * 10 ** 8, F(1, 2 ** 10)), (-(10 ** 6), F(1, 2 ** 10))]


def same_float(a, b):
    return float(a) == float(b)


def close_knot(a, b, spread):
    """a computed (quantile) knot against its exact value: 1e-9 of the spread of the data plus a few ulps of the value"""
    a, b = float(a), float(b)
    return abs(a - b) <= TOL * float(spread) + 8 * 2.2e-16 * max(abs(a), abs(b))


def mats_close(A, B, tol=TOL):
    if A.shape != B.shape:
        return False
    na, nb = np.isnan(A), np.isnan(B)
    if not np.array_equal(na, nb):
        return False
    with np.errstate(invalid="ignore"):
        return bool(np.all(na | (np.abs(A - B) <= tol * np.maximum(1.0, np.abs(B)))))


def showx(x):
    return "[" + ",".join(show(v) for v in x) + "]"


def pyx(x):
    return "[" + ", ".join("float('nan')" if v is None else repr(float(v)) for v in x) + "]"


def choose_multiset(c, symbols, max_len, min_len=2):
    """every non-decreasing (in symbol order) sequence of min_len..max_len symbols"""
    n = min_len + c.upto(max_len - min_len)
    out, start = [], 0
    for _ in range(n):
        k = start + c.choose(len(symbols) - start)
        out.append(symbols[k])
        start = k
    return out


def knot_choices(interior, repeated):
    out = [()]
    out += [(a,) for a in interior]
    out += [(a, b) for i, a in enumerate(interior) for b in interior[i + 1:]]
    if repeated:
        out += [(a, a) for a in interior]
    return out


def to_matrix(res, nrows):
    d = dict(res)
    keys = list(d)
    if not keys:
        return keys, np.zeros((nrows, 0))
    return keys, np.column_stack([np.asarray(d[k], dtype=float) for k in keys])


_ARG_MUT = []  # caller-owned argument objects that a call of the current execution changed (drained by guarded())


def freeze(obj):
    """bit-exact, type-aware snapshot of an argument object (lists, dicts, numbers, arrays, Series)"""
    if isinstance(obj, dict):
        return ("dict", tuple((k, freeze(v)) for k, v in obj.items()))
    if isinstance(obj, (list, tuple)):
        return (type(obj).__name__, tuple(freeze(v) for v in obj))
    if isinstance(obj, np.ndarray):
        return ("ndarray", str(obj.dtype), obj.shape, obj.tobytes())
    if hasattr(obj, "to_numpy") and hasattr(obj, "index"):
        return ("series", freeze(obj.to_numpy()), freeze(np.asarray(obj.index)))
    if isinstance(obj, float):
        return ("float", obj.hex())
    return (type(obj).__name__, repr(obj))


def invoke(fn, data, state, kwargs):
    """call the transform with FRESH argument objects (a deep copy of kwargs per call, so that no execution can
    influence another even when the implementation edits its arguments) and check that the objects the caller handed
    over (x, knots list, bounds, ...) are bit-identical afterwards"""
    kw = copy.deepcopy(kwargs)
    before = (freeze(data), freeze(kw))
    try:
        return fn(data, _state=state, **kw)
    finally:
        after = (freeze(data), freeze(kw))
        if after != before:
            which = "x" if after[0] != before[0] else ", ".join(k for k in kwargs if freeze(kw[k]) != freeze(kwargs[k]))
            _ARG_MUT.append({"mutated": which, "before": repr(kwargs)[:300], "after": repr(kw)[:300]})


def guarded(drv, name):
    """wrap a driver: every caller-owned argument mutation seen during the execution becomes a violation"""
    def wrapped(c, ctx, col):
        del _ARG_MUT[:]
        try:
            drv(c, ctx, col)
        finally:
            for m in _ARG_MUT[:1]:
                col.violation("%s :: choices=%r :: caller-owned argument %s changed by the call" % (name, list(c.trace), m["mutated"]),
                              dict(m, repro="k = [1.0]; bs(x, knots=k, _state={}); print(k)  # must still be [1.0]"),
                              sig="caller-argument-mutated")
            del _ARG_MUT[:]
    wrapped.__name__ = drv.__name__
    return wrapped


def call(fn, x, state, kwargs):
    """('OK', keys, matrix) | ('ValueError', msg) | ('ESCAPE', repr)"""
    xv = np.array([fl(v) for v in x], dtype=float)
    try:
        with np.errstate(all="ignore"):
            res = invoke(fn, xv, state, kwargs)
    except ValueError as e:
        return ("ValueError", str(e))
    except Exception as e:  # noqa
        return ("ESCAPE", "%s: %s" % (type(e).__name__, str(e)[:120]))
    keys, M = to_matrix(res, len(x))
    return ("OK", keys, M)


UNSPEC = "unspecified"


def want_matrix(rows, ncols):
    """rows: list of (list of Fractions | None | UNSPEC) -> (float matrix with zero rows where NaN is expected or
    nothing is demanded, mask: 1 = NaN row expected, 2 = unspecified row)"""
    W = np.zeros((len(rows), ncols))
    nanrow = np.zeros(len(rows), dtype=np.int8)
    for r, row in enumerate(rows):
        if row is None:
            nanrow[r] = 1
        elif row is UNSPEC:
            nanrow[r] = 2
        else:
            W[r] = [float(a) for a in row]
    return W, nanrow


def bad_rows(M, W, nanrow, dead=None):
    """indices of rows of M that are not (all-NaN where expected | within tolerance of W elsewhere).
    dead: mask of columns whose basis function is identically zero (empty support); there a 0 is accepted in a NaN row"""
    if M.shape[1] == 0 or M.shape[0] == 0:
        return []
    if dead is not None and dead.any() and not dead.all():
        isn = np.isnan(M[:, ~dead]).all(axis=1) & (np.isnan(M[:, dead]) | (M[:, dead] == 0)).all(axis=1)
    else:
        isn = np.isnan(M).all(axis=1)
    scale = np.maximum(1.0, np.abs(W).max(axis=1))
    with np.errstate(invalid="ignore"):
        okv = (np.abs(M - W) <= TOL * scale[:, None]).all(axis=1)
    return np.nonzero(np.where(nanrow == 1, ~isn, ~okv) & (nanrow != 2))[0].tolist()


def state_digest(state):
    out = []
    for k in sorted(state):
        v = state[k]
        if isinstance(v, np.ndarray):
            v = ("arr", v.shape, tuple(np.asarray(v, dtype=float).ravel().tolist()))
        elif isinstance(v, list):
            v = tuple(float(a) for a in v)
        out.append((k, repr(v)))
    return repr(out)


def states_equal(a, b):
    if set(a) != set(b):
        return False
    for k in a:
        va, vb = a[k], b[k]
        if isinstance(va, np.ndarray) or isinstance(vb, np.ndarray):
            if not (isinstance(va, np.ndarray) and isinstance(vb, np.ndarray) and va.shape == vb.shape
                    and np.array_equal(va, vb, equal_nan=True)):
                return False
        elif va != vb or type(va) is not type(vb):
            return False
    return True


def close(a, b):
    return abs(float(a) - float(b)) <= TOL * max(1.0, abs(float(b)))


_FOLLOW = {}  # (transform, state digest, arguments) -> findings of the follow-up calls; identical inputs => identical result


def emit(col, key, detail, findings):
    for suffix, extra, sig in findings:
        if suffix is None:
            col.count(sig)
        else:
            col.violation(key + suffix, dict(detail, **extra), sig=sig)


# ---------------------------------------------------------------------------
# B-splines

_BS_ROW = {}


def bs_want_row(t, tk, degree, extrap, icpt, v):
    """expected output row for value v (None = NaN row); raise-mode callers never pass out-of-range values.
    tk = float key of the knot tuple t (cache key; hashing Fractions is slow)"""
    if v is None:
        return None
    k = (tk, degree, extrap, icpt, float(v))
    if k not in _BS_ROW:
        if len(_BS_ROW) > 500000:
            _BS_ROW.clear()
        _BS_ROW[k] = _bs_want_row(t, degree, t[0], t[-1], extrap, icpt, v)
    return _BS_ROW[k]


def _bs_want_row(t, degree, lb, ub, extrap, icpt, v):
    cut = (lambda row: list(row) if icpt else list(row[1:]))
    if t[-degree - 2] == t[-1] and (v == ub or (v > ub and extrap == "clip")):
        # A df-quantile knot coincides with the upper bound, so the knot interval that ends at the boundary is empty
        # and some basis functions have an empty support.  "Right boundary closed" can then be read as closing the
        # last NON-EMPTY interval (limit from the left) or the (empty) last interval, which moves the unit mass at
        # x = upper bound between columns; the documentation does not fix the reading, so only the convention-free
        # facts (non-negative, sums to one) are demanded for this one point.
        return UNSPEC
    if lb <= v <= ub:
        row = R.bspline_row(t, degree, v)
    elif extrap == "clip":
        row = R.bspline_row(t, degree, lb if v < lb else ub)
    elif extrap == "na":
        return None
    elif extrap == "zero":
        row = (F(0),) * (len(t) - degree - 1)
    elif extrap == "extend":
        row = R.bspline_row_extended(t, degree, v)
    else:
        raise AssertionError("raise mode with an out-of-range point")
    return cut(row)


_BS_WANT = {}


def fkey(seq):
    """cheap hashable key (hashing Fractions is slow)"""
    return tuple(None if v is None else float(v) for v in seq)


def bs_want(t, degree, extrap, icpt, xs):
    tk = fkey(t)
    k = (tk, degree, extrap, icpt, fkey(xs))
    if k not in _BS_WANT:
        if len(_BS_WANT) > 100000:
            _BS_WANT.clear()
        lb, ub = tk[0], tk[-1]
        ncols = len(t) - degree - 1 - (0 if icpt else 1)
        W, nanrow = want_matrix([bs_want_row(t, tk, degree, extrap, icpt, v) for v in xs], ncols)
        inside = np.array([v is not None and lb <= float(v) <= ub for v in xs], dtype=bool) & (nanrow != 1)
        _BS_WANT[k] = (W, nanrow, inside)
    return _BS_WANT[k]


def bs_rows_findings(M, x, t, degree, extrap, icpt, phase):
    """compare every row; at most one finding per (phase, failure class), carrying the first failing point"""
    W, nanrow, inside = bs_want(t, degree, extrap, icpt, tuple(x))
    out, seen = [], set()
    # basis functions whose knots all coincide (a df-quantile knot on a boundary) are identically zero
    dead = np.array([t[i] == t[i + degree + 1] for i in range(0 if icpt else 1, len(t) - degree - 1)], dtype=bool)
    for r in bad_rows(M, W, nanrow, dead):
        v = x[r]
        if v is None:
            sig = "bs-null-row-not-nan" + ("-degree0" if degree == 0 else "")
        elif inside[r]:
            sig = "bs-value"
        else:
            sig = {"clip": "bs-clip-row", "na": "bs-na-row-not-nan" + ("-degree0" if degree == 0 else ""),
                   "zero": "bs-zero-row", "extend": "bs-extend-row"}[extrap]
            if extrap == "extend" and ((v < t[0] and t[degree + 1] == t[0]) or (v > t[-1] and t[-degree - 2] == t[-1])):
                sig = "bs-extend-row-knot-on-boundary"
        if sig in seen:
            continue
        seen.add(sig)
        out.append((" :: %s point=%s" % (phase, show(v)),
                    {"phase": phase, "point": fl(v), "got_row": M[r].tolist(),
                     "want_row": None if nanrow[r] == 1 else W[r].tolist()}, sig))
    if (nanrow == 2).any():
        out.append((None, None, "unspecified:value-at-upper-bound-with-coincident-knot"))
    if M.shape[1] and inside.any():
        ins = M[inside]
        with np.errstate(invalid="ignore"):
            if icpt and not np.all(np.abs(ins.sum(axis=1) - 1.0) <= TOL) and "bs-value" not in seen:
                out.append((" :: %s rows do not sum to one inside the bounds" % phase, {"phase": phase, "got": ins.tolist()},
                            "bs-not-partition-of-unity"))
            if np.any(ins < -TOL):
                out.append((" :: %s negative value inside the bounds" % phase, {"phase": phase, "got": ins.tolist()},
                            "bs-negative"))
    return out


class LazyRepro(dict):
    """detail dictionary of a follow-up call; the (long) source strings are only built when a finding is reported"""

    def __init__(self, fname, x2, kw_src):
        super().__init__()
        self._args = (fname, x2, kw_src)

    def build(self, **extra):
        fname, x2, kw_src = self._args
        d = {"x2": [fl(v) for v in x2], "reuse": "print(dict(%s(numpy.array(%s), %s, _state=st)))" % (fname, pyx(x2), kw_src)}
        d.update(extra)
        return d


def bs_followups(state, kwargs, kw_src, t, degree, extrap, icpt, want_keys, grid):
    """re-use the recorded state on follow-up vectors; returns findings (suffix, detail, sig)"""
    lbr, ubr = float(t[0]), float(t[-1])
    ncols = len(want_keys)
    out = []
    inrange = [v for v in grid if v is None or lbr <= v <= ubr]
    # "all" = the whole grid (out-of-range points and a null included); "in-range" covers the branch taken when no
    # value is out of range (and is the only vector that raise mode accepts); extend mode has no such branch
    follow = [("all", grid)] + ([("in-range", inrange)] if extrap != "extend" else [])
    for name, x2 in follow:
        st = copy.deepcopy(state)
        res = call(BS, x2, st, kwargs)
        phase = "reuse(%s)" % name
        d2 = LazyRepro("bs", x2, kw_src)
        has_oor = len(x2) != len(inrange)
        if not states_equal(st, state):
            out.append((" :: %s state" % phase, d2.build(before=repr(state), after=repr(st)), "bs-state-mutated-on-reuse"))
        if res[0] == "ESCAPE":
            out.append((" :: %s" % phase, d2.build(error=res[1]), "bs-crash"))
        elif extrap == "raise" and has_oor:
            if res[0] != "ValueError":
                out.append((" :: %s" % phase, d2.build(expected="ValueError (out-of-range value)"), "bs-missing-error"))
        elif res[0] == "ValueError":
            out.append((" :: %s" % phase, d2.build(error=res[1]), "bs-unexpected-error"))
        elif list(res[1]) != want_keys or res[2].shape != (len(x2), ncols):
            out.append((" :: %s columns" % phase, d2.build(got_keys=list(res[1]), want_keys=want_keys), "bs-columns"))
        else:
            for suffix, extra, sig in bs_rows_findings(res[2], x2, t, degree, extrap, icpt, phase):
                out.append((suffix, None if suffix is None else d2.build(**extra), sig))
    return out


def drv_bs(c, ctx, col):
    degree = c.pick(ctx["degrees"])
    extrap = c.pick(EXTRAP)
    icpt = c.flag()
    aff = Affine(*c.pick(ctx["affine"])) if ctx.get("affine") else IDENT
    bmode, max_len, *opt = c.pick(ctx["bounds"])  # "default" | ("both", lo, hi) | ("lower", lo) | ("upper", hi)
    symbols = aff.grid(SYM_DEFAULT if bmode == "default" else SYM_OOR)
    x = choose_multiset(c, symbols, max_len)
    vals = [v for v in x if v is not None]
    if not vals:
        raise Skip()
    lb = aff.f(F(bmode[1])) if bmode != "default" and bmode[0] in ("both", "lower") else min(vals)
    ub = aff.f(F(bmode[-1])) if bmode != "default" and bmode[0] in ("both", "upper") else max(vals)
    inr = sorted(v for v in vals if lb <= v <= ub)
    if len(set(inr)) < 2:
        raise Skip()
    oor = [v for v in vals if not (lb <= v <= ub)]
    if opt and len(x) == max_len and not oor:
        raise Skip()  # "oor" option: vectors of the maximal length are only taken when they contain an out-of-range value
    kwargs = {"degree": degree, "include_intercept": icpt, "extrapolation": extrap}
    if bmode != "default":
        if bmode[0] in ("both", "lower"):
            kwargs["lower_bound"] = int(lb) if (lb.denominator == 1 and aff.identity) else float(lb)
        if bmode[0] in ("both", "upper"):
            kwargs["upper_bound"] = int(ub) if (ub.denominator == 1 and aff.identity) else float(ub)
    df = None
    if ctx["mode"] == "knots":
        inner = c.pick(knot_choices([g for g in aff.grid(G) if lb < g < ub], True))
        if inner:
            kwargs["knots"] = [float(k) for k in inner]
        spec = "knots=%s" % showx(inner)
        nknots = len(inner)
    else:
        df = degree + c.upto(3)
        kwargs["df"] = df
        spec = "df=%d" % df
        nknots = df - degree - (1 if icpt else 0)
    key = aff.tag + "bs :: x=%s degree=%d %s intercept=%s bounds=%s extrapolation=%s" % (
        showx(x), degree, spec, icpt, "default" if bmode == "default" else "/".join(str(b) for b in bmode), extrap)
    kw_src = ", ".join("%s=%r" % kv for kv in kwargs.items())
    detail = {"x": [fl(v) for v in x], "kwargs": dict(kwargs),
              "repro": "import numpy; from formulaic.transforms import basis_spline as bs; st = {}; "
                       "print(dict(bs(numpy.array(%s), %s, _state=st)), st)" % (pyx(x), kw_src)}
    col.sample({"x": showx(x), "kwargs": dict(kwargs)})

    state = {}
    out = call(BS, x, state, kwargs)
    expect_error = None
    if extrap == "raise" and oor:
        expect_error = "out-of-range value with extrapolation='raise'"
    elif df is not None and nknots < 0:
        expect_error = "df smaller than degree (+1 with intercept)"
    if out[0] == "ESCAPE":
        col.violation(key + " :: train", dict(detail, error=out[1]), sig="bs-crash")
        return
    if expect_error:
        col.interesting()
        if out[0] != "ValueError":
            sig = "bs-df-zero-treated-as-unset" if (df == 0 and not (extrap == "raise" and oor)) else "bs-missing-error"
            col.violation(key + " :: train", dict(detail, expected="ValueError: " + expect_error,
                                                   got_columns=len(out[1])), sig=sig)
        else:
            col.count("bs-rejected-as-documented")
        return
    if out[0] == "ValueError":
        col.violation(key + " :: train", dict(detail, error=out[1]), sig="bs-unexpected-error")
        return
    _, keys, M = out
    col.interesting()

    # ---- recorded state ---------------------------------------------------
    if set(state) != {"lower_bound", "upper_bound", "knots"}:
        col.violation(key + " :: state keys", dict(detail, state=repr(state)), sig="bs-state-keys")
        return
    if not (same_float(state["lower_bound"], lb) and same_float(state["upper_bound"], ub)):
        col.violation(key + " :: state bounds", dict(detail, state=repr(state), want=[float(lb), float(ub)]),
                      sig="bs-state-bounds")
        return
    rec = [R.frac(k) for k in state["knots"]]
    nrec = len(rec) - 2 * (degree + 1)
    ok_pad = (nrec >= 0 and all(k == rec[0] for k in rec[:degree + 1]) and all(k == rec[-1] for k in rec[-degree - 1:])
              and rec[0] == lb and rec[-1] == ub)
    if not ok_pad or nrec != nknots:
        col.violation(key + " :: state knots", dict(detail, recorded=state["knots"], want_interior=nknots,
                                                    want="bounds repeated degree+1 times around the interior knots"),
                      sig="bs-state-knots")
        return
    rec_inner = rec[degree + 1:len(rec) - degree - 1]
    if df is None:
        if [float(k) for k in rec_inner] != [float(k) for k in inner]:
            col.violation(key + " :: state knots", dict(detail, recorded=state["knots"], want_interior=[float(k) for k in inner]),
                          sig="bs-state-knots")
            return
    else:
        # The interior knots are quantiles of the training values INSIDE the bounds: that is what clip / na / zero do,
        # what R's bs() does (the docstring promises R's behaviour for 'extend'), and the only reading under which the
        # recorded vector is a knot vector at all (quantiles of out-of-range values can fall outside the bounds).
        want_inner = R.quantiles7(inr, nknots)
        if not all(close_knot(a, b, ub - lb) for a, b in zip(rec_inner, want_inner)):
            from_all = oor and all(close_knot(a, b, ub - lb) for a, b in zip(rec_inner, R.quantiles7(vals, nknots)))
            col.violation(key + " :: state knots", dict(detail, recorded=state["knots"], want_interior=[float(a) for a in want_inner],
                                                        monotone=all(b >= a for a, b in zip(rec, rec[1:]))),
                          sig="bs-df-knots-from-out-of-range-values" if from_all else "bs-df-knots")
            return
    t = tuple(rec)
    if any(b < a for a, b in zip(t, t[1:])):
        col.violation(key + " :: state knots", dict(detail, recorded=state["knots"], want="a non-decreasing knot vector"),
                      sig="bs-state-knots")
        return
    col.state((degree, tuple(float(k) for k in t)))

    # ---- shape --------------------------------------------------------------
    ncols = degree + nknots + (1 if icpt else 0)
    want_keys = list(range(0 if icpt else 1, degree + nknots + 1))
    if list(keys) != want_keys or M.shape != (len(x), ncols) or (df is not None and ncols != df):
        col.violation(key + " :: columns", dict(detail, got_keys=list(keys), want_keys=want_keys, df=df), sig="bs-columns")
        return

    # ---- values on the training vector -------------------------------------
    emit(col, key, detail, bs_rows_findings(M, x, t, degree, extrap, icpt, "train"))

    # ---- affine invariance (reference-free): the same call on the unit-scale pre-image gives the same matrix --------
    if not aff.identity:
        ku = dict(kwargs)
        for k_ in ("lower_bound", "upper_bound"):
            if k_ in ku:
                ku[k_] = float(aff.inv(F(ku[k_])))
        if "knots" in ku:
            ku["knots"] = [float(aff.inv(F(k_))) for k_ in ku["knots"]]
        xu = [aff.inv(v) for v in x]
        su = {}
        ou = call(BS, xu, su, ku)
        if ou[0] == "OK" and [aff.inv(k_) for k_ in rec] != [R.frac(k_) for k_ in su.get("knots", [])]:
            # quantile knots are computed in floating point: at a large offset their rounding error, divided by the small
            # scale, is a visible perturbation of the knot; the exact reference on the RECORDED knots (above) is the
            # oracle there, the reference-free comparison is only made when the recorded knots correspond exactly
            col.count("affine-invariance-not-compared(recorded knots differ by rounding)")
        elif ou[0] != "OK" or list(ou[1]) != list(keys) or not mats_close(M, ou[2]):
            col.violation(key + " :: affine invariance", dict(detail, unit_x=[fl(v) for v in xu], unit_kwargs=ku,
                                                             got=M.tolist(), unit_result=ou[2].tolist() if ou[0] == "OK" else ou[1]),
                          sig="bs-affine-invariance")

    # ---- re-use of the state on follow-up vectors ---------------------------
    fgrid = aff.grid(ctx["followup"])
    vkey = ("bs", state_digest(state), kw_src, len(fgrid))
    if vkey not in _FOLLOW:
        _FOLLOW[vkey] = bs_followups(state, kwargs, kw_src, t, degree, extrap, icpt, want_keys, fgrid)
    else:
        col.count("bs-followup-result-shared-with-identical-state")
    emit(col, key, detail, _FOLLOW[vkey])


# ---------------------------------------------------------------------------
# natural / cyclic cubic splines

CLEAR_REJECTIONS = ("Unable to compute", "must be greater than or equal to", "No data values between",
                    "Invalid requested number of inner knots", "fall below lower bound", "fall above upper bound")


_CUBIC_ROW = {}


def cubic_free_row(t, cyclic, extrap, v, tk=None):
    """expected row of the unconstrained basis (None = NaN row)"""
    if v is None:
        return None
    k = (tk or fkey(t), cyclic, extrap, float(v))
    if k not in _CUBIC_ROW:
        if len(_CUBIC_ROW) > 500000:
            _CUBIC_ROW.clear()
        _CUBIC_ROW[k] = _cubic_free_row(t, cyclic, extrap, v)
    return _CUBIC_ROW[k]


def _cubic_free_row(t, cyclic, extrap, v):
    lb, ub = t[0], t[-1]
    n = len(t) - 1 if cyclic else len(t)
    fn = R.periodic_cardinal_row if cyclic else R.natural_cardinal_row
    if lb <= v <= ub:
        return list(fn(t, v))
    if extrap == "clip":
        return list(fn(t, lb if v < lb else ub))
    if extrap == "na":
        return None
    if extrap == "zero":
        return [F(0)] * n
    if extrap == "extend":
        return list(fn(t, v))  # natural: linear continuation; periodic: wrapped
    raise AssertionError("raise mode with an out-of-range point")


_CUBIC_WANT = {}


def cubic_want(t, cyclic, extrap, xs):
    tk = fkey(t)
    k = (tk, cyclic, extrap, fkey(xs))
    if k not in _CUBIC_WANT:
        if len(_CUBIC_WANT) > 100000:
            _CUBIC_WANT.clear()
        n = len(t) - 1 if cyclic else len(t)
        W, nanrow = want_matrix([cubic_free_row(t, cyclic, extrap, v, tk) for v in xs], n)
        inside = np.array([v is not None and tk[0] <= float(v) <= tk[-1] for v in xs], dtype=bool)
        _CUBIC_WANT[k] = (W, nanrow, inside)
    return _CUBIC_WANT[k]


def cubic_rows_findings(M, x, t, cyclic, extrap, Q, phase, small):
    W, nanrow, inside = cubic_want(t, cyclic, extrap, tuple(x))
    if Q is not None:
        W = W @ Q
    out, seen = [], set()
    for r in bad_rows(M, W, nanrow):
        v = x[r]
        if v is None:
            sig = "cubic-null-row-not-nan"
        elif inside[r]:
            sig = "cubic-value" + small
        else:
            sig = "cubic-%s-row%s" % (extrap, small)
        if sig in seen:
            continue
        seen.add(sig)
        out.append((" :: %s point=%s" % (phase, show(v)),
                    {"phase": phase, "point": fl(v), "got_row": M[r].tolist(),
                     "want_row": None if nanrow[r] else W[r].tolist()}, sig))
    return out


def cubic_call_follow(fn, state, kwargs, kw_src, t, extrap, want_keys, name, x2):
    """one follow-up call on a copy of the recorded state -> (matrix | 'raised' | None, findings, lazy detail)"""
    lbr, ubr = float(t[0]), float(t[-1])
    st = copy.deepcopy(state)
    res = call(fn, x2, st, kwargs)
    phase = "reuse(%s)" % name
    d2 = LazyRepro("f", x2, kw_src)
    out = []
    if not states_equal(st, state):
        out.append((" :: %s state" % phase, d2.build(before=repr(state), after=repr(st)), "cubic-state-mutated-on-reuse"))
    has_oor = any(v is not None and not (lbr <= v <= ubr) for v in x2)
    if res[0] == "ESCAPE":
        out.append((" :: %s" % phase, d2.build(error=res[1]), "cubic-crash"))
        return None, out, d2
    if extrap == "raise" and has_oor:
        if res[0] != "ValueError":
            out.append((" :: %s" % phase, d2.build(expected="ValueError (out-of-range value)"), "cubic-missing-error"))
        return "raised", out, d2
    if res[0] == "ValueError":
        out.append((" :: %s" % phase, d2.build(error=res[1]), "cubic-unexpected-error"))
        return None, out, d2
    if list(res[1]) != want_keys or res[2].shape != (len(x2), len(want_keys)):
        out.append((" :: %s columns" % phase, d2.build(got_keys=list(res[1]), want_keys=want_keys), "cubic-columns"))
        return None, out, d2
    return res[2], out, d2


def drv_cubic(c, ctx, col):
    kind = c.pick(ctx["kinds"])
    cons = c.pick(ctx["constraints"])
    extrap = c.pick(EXTRAP)
    aff = Affine(*c.pick(ctx["affine"])) if ctx.get("affine") else IDENT
    bmode, max_len, *opt = c.pick(ctx["bounds"])
    cyclic = kind == "cc"
    symbols = aff.grid(SYM_DEFAULT if bmode == "default" else SYM_OOR)
    x = choose_multiset(c, symbols, max_len)
    vals = [v for v in x if v is not None]
    if not vals:
        raise Skip()
    lb = aff.f(F(bmode[1])) if bmode != "default" else min(vals)
    ub = aff.f(F(bmode[2])) if bmode != "default" else max(vals)
    inr = sorted(v for v in vals if lb <= v <= ub)
    if len(set(inr)) < 2:
        raise Skip()
    oor = [v for v in vals if not (lb <= v <= ub)]
    if opt and len(x) == max_len and not oor:
        raise Skip()  # "oor" option: vectors of the maximal length are only taken when they contain an out-of-range value
    has_null = len(vals) != len(x)
    kwargs = {"extrapolation": extrap}
    if cons is not None:
        kwargs["constraints"] = cons
    if bmode != "default":
        kwargs["lower_bound"], kwargs["upper_bound"] = float(lb), float(ub)
    ncons = 1 if cons else 0
    specs = [("df", d) for d in ctx["dfs"]] + [("knots", k) for k in knot_choices([g for g in aff.grid(G) if lb < g < ub], False)]
    what, val = c.pick(specs)
    if what == "df":
        kwargs["df"] = val
        n_inner = val - 2 + ncons + (1 if cyclic else 0)
        spec = "df=%d" % val
    else:
        kwargs["knots"] = [float(k) for k in val]
        n_inner = len(val)
        spec = "knots=%s" % showx(val)
    key = aff.tag + "%s :: x=%s %s constraints=%s bounds=%s extrapolation=%s" % (
        kind, showx(x), spec, cons, "default" if bmode == "default" else "%s/%s" % (bmode[1], bmode[2]), extrap)
    kw_src = ", ".join("%s=%r" % kv for kv in kwargs.items())
    fname = {"cr": "natural_cubic_spline", "cs": "natural_cubic_spline", "cc": "cyclic_cubic_spline"}[kind]
    detail = {"x": [fl(v) for v in x], "kwargs": dict(kwargs),
              "repro": "import numpy; from formulaic.transforms import %s as f; st = {}; "
                       "print(dict(f(numpy.array(%s), %s, _state=st)), st)" % (fname, pyx(x), kw_src)}
    col.sample({"transform": kind, "x": showx(x), "kwargs": dict(kwargs)})
    fn = CUBIC[kind]

    state = {}
    out = call(fn, x, state, kwargs)
    if out[0] == "ESCAPE":
        col.violation(key + " :: train", dict(detail, error=out[1]), sig="cubic-crash")
        return
    if extrap == "raise" and oor:
        col.interesting()
        if out[0] != "ValueError":
            col.violation(key + " :: train", dict(detail, expected="ValueError (out-of-range value)"), sig="cubic-missing-error")
        else:
            col.count("cubic-rejected-as-documented")
        return
    if out[0] == "ValueError":
        if what == "df" and val < (1 if (cyclic or ncons) else 2) and "must be greater than or equal to" in out[1]:
            col.count("cubic-rejected-as-documented")
            return
        if any(m in out[1] for m in CLEAR_REJECTIONS):
            col.count("cubic-rejected-with-clear-error")
            col.violation(key + " :: train", dict(detail, error=out[1]), sig="cubic-unexpected-rejection")
            return
        sig = "cubic-unclear-error-two-knots" if (not cyclic and n_inner == 0) else "cubic-unclear-error"
        col.violation(key + " :: train", dict(detail, error=out[1]), sig=sig)
        return
    _, keys, M = out
    col.interesting()

    # ---- recorded state ---------------------------------------------------
    if set(state) != {"lower_bound", "upper_bound", "knots", "constraints", "cyclic"} or state["cyclic"] is not cyclic:
        col.violation(key + " :: state keys", dict(detail, state=repr(state)), sig="cubic-state-keys")
        return
    if not (same_float(state["lower_bound"], lb) and same_float(state["upper_bound"], ub)):
        col.violation(key + " :: state bounds", dict(detail, state=repr(state)), sig="cubic-state-bounds")
        return
    rec = [R.frac(k) for k in state["knots"]]
    if what == "knots":
        cands = [sorted(set([lb, ub] + list(val)))]
    else:
        # "equally spaced quantiles of the input data falling between the bounds": of the distinct values (mgcv/patsy)
        # or of the raw values - the docstrings do not say; out-of-range training values as for bs
        cands = [[lb] + R.quantiles7(sorted(set(inr)), n_inner) + [ub], [lb] + R.quantiles7(inr, n_inner) + [ub]]
    if len(rec) != n_inner + 2 or not any(all(close_knot(a, b, ub - lb) for a, b in zip(rec, cand)) for cand in cands):
        col.violation(key + " :: state knots", dict(detail, recorded=state["knots"], want=[float(a) for a in cands[0]]),
                      sig="cubic-state-knots")
        return
    t = tuple(rec)
    if any(b <= a for a, b in zip(t, t[1:])):
        col.violation(key + " :: state knots", dict(detail, recorded=state["knots"], want="strictly increasing knots"),
                      sig="cubic-state-knots")
        return
    col.state((kind, tuple(float(k) for k in t), cons))
    nfree = len(t) - 1 if cyclic else len(t)
    ncols = nfree - ncons
    small = "-fewer-than-3-segments" if (cyclic and nfree < 3) else ""

    want_keys = list(range(1, ncols + 1))
    if list(keys) != want_keys or M.shape != (len(x), ncols) or (what == "df" and ncols != val):
        col.violation(key + " :: columns", dict(detail, got_keys=list(keys), want_keys=want_keys), sig="cubic-columns")
        return

    # ---- re-use of the state: ONE follow-up vector = the recorded knots followed by the grid --------------------
    # (raise mode: the in-range part of the grid, plus a second call with the whole grid that must raise).
    # With a constraint the rows at the knots ARE the map Q from the cardinal basis to the constrained columns
    # (the free basis is the identity at the knots), so the follow-up is evaluated before the training rows.
    if cons and not np.all(np.isfinite(np.asarray(state["constraints"], dtype=float))):
        # Docstring: the centering constraint is computed from the input data.  Nulls (and, with 'na', out-of-range
        # values, which "are set to nan") are rows that the materializer later drops: the constraint must not be
        # poisoned by them.
        if has_null or (extrap == "na" and oor):
            col.violation(key + " :: centering constraint is NaN", dict(detail, constraints=repr(state["constraints"]),
                                                                       got=M.tolist()),
                          sig="cubic-center-nan-poisons-all-rows")
        else:
            col.violation(key + " :: centering constraint is NaN", dict(detail, constraints=repr(state["constraints"])),
                          sig="cubic-center-constraint-not-finite")
        return
    if not cons and state["constraints"] is not None:
        col.violation(key + " :: state constraints", dict(detail, state=repr(state)), sig="cubic-state-keys")
        return
    grid = aff.grid(ctx["followup_df"] if what == "df" else ctx["followup"])
    vkey = (kind, state_digest(state), kw_src, len(grid))
    if vkey not in _FOLLOW:
        lbf, ubf = float(t[0]), float(t[-1])
        kn = list(t)
        x2 = kn + ([v for v in grid if v is None or lbf <= v <= ubf] if extrap == "raise" else grid)
        M2, fnd, d2 = cubic_call_follow(fn, state, kwargs, kw_src, t, extrap, want_keys, "knots+grid", x2)
        Qm = None
        if M2 is not None and not isinstance(M2, str):
            if cons:
                Qm = M2[:nfree]
                if not np.all(np.isfinite(Qm)) or np.linalg.matrix_rank(Qm, tol=1e-8) != ncols:
                    fnd.append((" :: constrained basis at the knots", {"at_knots": Qm.tolist()}, "cubic-center-rank" + small))
                    Qm = None
            if not cons or Qm is not None:
                for suffix, extra, sig in cubic_rows_findings(M2, x2, t, cyclic, extrap, Qm, "reuse(knots+grid)", small):
                    fnd.append((suffix, d2.build(**extra), sig))
        if extrap == "raise":
            _, f3, _ = cubic_call_follow(fn, state, kwargs, kw_src, t, extrap, want_keys, "all", grid)
            fnd += f3
        _FOLLOW[vkey] = (Qm, fnd, M2 is not None and not isinstance(M2, str))
    else:
        col.count("cubic-followup-result-shared-with-identical-state")
    Q, fnd, usable = _FOLLOW[vkey]
    emit(col, key, detail, fnd)
    if not usable or (cons and Q is None):
        return

    # ---- centering: zero column means on the training data <=> (mean of the free training rows) . Q == 0 ---------
    if cons:
        # the rows the transform returns for the training data: clipped / continued / wrapped / zeroed ('zero' mode: the
        # zero rows of out-of-range values are part of the training matrix and count in the column means)
        W, nanrow, _ = cubic_want(t, cyclic, extrap, tuple(x))
        live = nanrow == 0
        rows = [cubic_free_row(t, cyclic, extrap, v) for v in x]
        rows = [r for r in rows if r is not None]
        cref = [sum(r[i] for r in rows) / len(rows) for i in range(nfree)]
        resid = np.array([float(a) for a in cref]) @ Q
        means = M[live].mean(axis=0)
        if not (np.all(np.abs(resid) <= TOL) and np.all(np.isfinite(means)) and np.all(np.abs(means) <= TOL)):
            col.violation(key + " :: column means on the training data", dict(detail, column_means=means.tolist(),
                                                                             reference_mean_times_Q=resid.tolist()),
                          sig="cubic-center-nonzero-mean" + ("-zeroed-rows" if (extrap == "zero" and oor) else "") + small)
            return

    # ---- values on the training vector -------------------------------------
    emit(col, key, detail, cubic_rows_findings(M, x, t, cyclic, extrap, Q, "train", small))

    # ---- affine invariance (reference-free; unconstrained basis only: the absorbed constraint is fixed only up to
    # the orientation chosen by the QR factorisation) ----------------------------------------------------------------
    if not aff.identity and not cons:
        ku = dict(kwargs)
        for k_ in ("lower_bound", "upper_bound"):
            if k_ in ku:
                ku[k_] = float(aff.inv(F(ku[k_])))
        if "knots" in ku:
            ku["knots"] = [float(aff.inv(F(k_))) for k_ in ku["knots"]]
        xu = [aff.inv(v) for v in x]
        su = {}
        ou = call(fn, xu, su, ku)
        if ou[0] == "OK" and [aff.inv(k_) for k_ in rec] != [R.frac(k_) for k_ in su.get("knots", [])]:
            col.count("affine-invariance-not-compared(recorded knots differ by rounding)")
        elif ou[0] != "OK" or list(ou[1]) != list(keys) or not mats_close(M, ou[2]):
            col.violation(key + " :: affine invariance", dict(detail, unit_x=[fl(v) for v in xu], unit_kwargs=ku,
                                                             got=M.tolist(), unit_result=ou[2].tolist() if ou[0] == "OK" else ou[1]),
                          sig="cubic-affine-invariance")


# ---------------------------------------------------------------------------
# the same transforms reached through a formula: model_matrix(...) and ModelSpec re-use (differential)

FORMULA_TERMS = [
    ("bs", {"degree": 0, "knots": [1.0]}), ("bs", {"degree": 1, "df": 3}), ("bs", {"degree": 3, "df": 5, "include_intercept": True}),
    ("bs", {"degree": 2, "knots": [1.0, 1.5], "lower_bound": 0, "upper_bound": 4}),
    ("cr", {"df": 3}), ("cs", {"df": 4, "constraints": "center"}), ("cr", {"knots": [1.0], "lower_bound": 0.0, "upper_bound": 4.0}),
    ("cc", {"df": 3}), ("cc", {"df": 3, "constraints": "center"}),
]


def drv_formula(c, ctx, col):
    import pandas as pd
    from formulaic import model_matrix

    alias, kw = c.pick(FORMULA_TERMS)
    extrap = c.pick(EXTRAP)
    explicit = "lower_bound" in kw
    x = choose_multiset(c, SYM_OOR if explicit else SYM_DEFAULT, ctx["max_len"])
    vals = [v for v in x if v is not None]
    if len(set(v for v in vals if 0 <= v <= 4)) < 2:
        raise Skip()
    kwargs = dict(kw, extrapolation=extrap)
    term = "%s(x, %s)" % (alias, ", ".join("%s=%r" % kv for kv in kwargs.items()))
    key = "formula :: %r x=%s" % (term, showx(x))
    detail = {"formula": term + " - 1", "x": [fl(v) for v in x],
              "repro": "import pandas, numpy; from formulaic import model_matrix; m = model_matrix(%r, pandas.DataFrame({'x': %s})); "
                       "print(m, m.model_spec.transform_state)" % (term + " - 1", pyx(x))}
    col.sample({"formula": term + " - 1", "x": showx(x)})
    fn = TRANSFORMS[alias]
    st = {}
    direct = call(fn, x, st, kwargs)
    try:
        with np.errstate(all="ignore"):
            mm = model_matrix(term + " - 1", pd.DataFrame({"x": [fl(v) for v in x]}))
        got = ("OK", mm)
    except Exception as e:  # noqa  (FactorEvaluationError wraps the transform's error)
        got = ("ERR", "%s: %s" % (type(e).__name__, str(e)[:160]))
    if direct[0] != "OK" or got[0] != "OK":
        if (direct[0] == "OK") != (got[0] == "OK"):
            col.violation(key + " :: error", dict(detail, direct=direct[0:2] if direct[0] != "OK" else "OK", formula_path=got[1] if got[0] != "OK" else "OK"),
                          sig="formula-path-differs-error")
        else:
            col.count("both-paths-reject")
        return
    col.interesting()
    _, keys, D = direct
    kept = [i for i in range(len(x)) if not np.isnan(D[i]).any()]
    A = np.asarray(mm, dtype=float)
    if list(mm.index) != kept or A.shape != (len(kept), D.shape[1]) or not np.allclose(A, D[kept], rtol=0, atol=1e-12):
        col.violation(key + " :: values", dict(detail, formula_path=A.tolist(), rows=list(mm.index), direct=D.tolist()),
                      sig="formula-path-differs")
        return
    ts = mm.model_spec.transform_state
    if list(ts) != [term] or not states_equal(ts[term], st):
        col.violation(key + " :: transform_state", dict(detail, transform_state=repr(ts), direct_state=repr(st)),
                      sig="formula-path-state-differs")
        return
    grid = [v for v in COARSE if v is not None and (extrap != "raise" or float(st["lower_bound"]) <= v <= float(st["upper_bound"]))]
    snap = copy.deepcopy(st)
    d2 = call(fn, grid, st, kwargs)
    try:
        with np.errstate(all="ignore"):
            m2 = mm.model_spec.get_model_matrix(pd.DataFrame({"x": [fl(v) for v in grid]}))
        g2 = ("OK", m2)
    except Exception as e:  # noqa
        g2 = ("ERR", "%s: %s" % (type(e).__name__, str(e)[:160]))
    if d2[0] != "OK" or g2[0] != "OK":
        col.violation(key + " :: reuse error", dict(detail, direct=d2[0:2] if d2[0] != "OK" else "OK", formula_path=g2[1] if g2[0] != "OK" else "OK"),
                      sig="formula-path-differs-error")
        return
    D2 = d2[2]
    kept2 = [i for i in range(len(grid)) if not np.isnan(D2[i]).any()]
    A2 = np.asarray(g2[1], dtype=float)
    if (list(g2[1].index) != kept2 or A2.shape != (len(kept2), D2.shape[1]) or not np.allclose(A2, D2[kept2], rtol=0, atol=1e-12)
            or not states_equal(mm.model_spec.transform_state[term], snap)):
        col.violation(key + " :: reuse values", dict(detail, new_x=[fl(v) for v in grid], formula_path=A2.tolist(),
                                                     rows=list(g2[1].index), direct=D2.tolist()), sig="formula-path-differs")


# ---------------------------------------------------------------------------
# input container / dtype: the result must not depend on how the same numbers are stored (differential)

CONTAINER_TERMS = [
    ("bs", {"degree": 0, "knots": [2.0]}), ("bs", {"degree": 1, "df": 3}), ("bs", {"degree": 3, "knots": [2.0]}),
    ("bs", {"degree": 2, "df": 4, "include_intercept": True}),
    ("cr", {"df": 3}), ("cr", {"knots": [2.0], "constraints": "center"}),
    ("cc", {"df": 3}), ("cc", {"knots": [2.0]}), ("cc", {"df": 3, "constraints": "center"}),
]
CONTAINERS = ["float32", "int64", "int32", "list", "series", "series-index", "series-int64-index"]
SYM_INT = [F(v) for v in (-1, 0, 1, 2, 3, 4, 5)] + [None]
INT_FOLLOW = [F(v) for v in (-1, 0, 1, 2, 3, 4, 5)]


def make_container(kind, vals):
    """the values stored as the given container, or None when it cannot hold them (nulls / fractions in an int array)"""
    import pandas as pd

    integral = all(v is not None and v.denominator == 1 for v in vals)
    floats = [fl(v) for v in vals]
    if kind == "float64":
        return np.array(floats, dtype=np.float64)
    if kind == "float32":
        return np.array(floats, dtype=np.float32)
    if kind in ("int64", "int32"):
        return np.array([int(v) for v in vals], dtype=kind) if integral else None
    if kind == "list":
        return [int(v) for v in vals] if integral else floats
    if kind == "series":
        return pd.Series(floats)
    if kind == "series-index":
        return pd.Series(floats, index=list(range(10 + len(vals), 10, -1)))
    if kind == "series-int64-index":
        return pd.Series([int(v) for v in vals], dtype="int64", index=list(range(10 + len(vals), 10, -1))) if integral else None
    raise AssertionError(kind)


def call_raw(fn, data, n, state, kwargs):
    try:
        with np.errstate(all="ignore"):
            res = invoke(fn, data, state, kwargs)
    except ValueError as e:
        return ("ValueError", str(e))
    except Exception as e:  # noqa
        return ("ESCAPE", "%s: %s" % (type(e).__name__, str(e)[:120]))
    try:
        keys, M = to_matrix(res, n)
    except Exception as e:  # noqa
        return ("ESCAPE", "malformed result: %s: %s" % (type(e).__name__, str(e)[:120]))
    return ("OK", keys, M)


def states_close(a, b, tol):
    if set(a) != set(b):
        return False
    for k in a:
        va, vb = a[k], b[k]
        if va is None or vb is None or isinstance(va, (bool, str)):
            if va is not vb and va != vb:
                return False
        else:
            A, B = np.atleast_1d(np.asarray(va, dtype=float)), np.atleast_1d(np.asarray(vb, dtype=float))
            if A.shape != B.shape or not np.all(np.abs(A - B) <= tol * np.maximum(1.0, np.abs(B))):
                return False
    return True


def drv_container(c, ctx, col):
    alias, kw = c.pick(CONTAINER_TERMS)
    extrap = c.pick(EXTRAP)
    bmode, max_len, *opt = c.pick(ctx["bounds"])  # "default" | ("both", lo, hi) with fractional bounds
    x = choose_multiset(c, SYM_INT, max_len)
    vals = [v for v in x if v is not None]
    if not vals:
        raise Skip()
    lb = F(bmode[1]) if bmode != "default" else min(vals)
    ub = F(bmode[2]) if bmode != "default" else max(vals)
    if len(set(v for v in vals if lb <= v <= ub)) < 2:
        raise Skip()
    oor = [v for v in vals if not (lb <= v <= ub)]
    if opt and len(x) == max_len and not oor:
        raise Skip()
    kwargs = dict(kw, extrapolation=extrap)
    if bmode != "default":
        kwargs["lower_bound"], kwargs["upper_bound"] = float(lb), float(ub)
    fn = TRANSFORMS[alias]
    kw_src = ", ".join("%s=%r" % kv for kv in kwargs.items())
    key0 = "container :: %s(x, %s) x=%s" % (alias, kw_src, showx(x))
    col.sample({"term": "%s(x, %s)" % (alias, kw_src), "x": showx(x), "containers": CONTAINERS})
    x2 = [v for v in INT_FOLLOW if extrap != "raise" or lb <= v <= ub]

    st0 = {}
    base = call_raw(fn, make_container("float64", x), len(x), st0, kwargs)
    base2 = call_raw(fn, make_container("float64", x2), len(x2), copy.deepcopy(st0), kwargs) if base[0] == "OK" else None
    col.interesting()
    for kind in CONTAINERS:
        data = make_container(kind, x)
        if data is None:
            col.count("container-cannot-hold-the-values")
            continue
        tol = 1e-5 if kind == "float32" else TOL
        key = "%s container=%s" % (key0, kind)
        detail = {"x": [fl(v) for v in x], "container": kind, "kwargs": dict(kwargs),
                  "repro": "same call with x stored as %s versus numpy float64" % kind}
        st = {}
        got = call_raw(fn, data, len(x), st, kwargs)
        if got[0] == "ESCAPE" or got[0] != base[0]:
            col.violation(key + " :: train outcome", dict(detail, float64=base[:2] if base[0] != "OK" else "OK",
                                                          container=got[:2] if got[0] != "OK" else "OK"),
                          sig="container-changes-outcome")
            continue
        if got[0] != "OK":
            col.count("both-reject")
            continue
        if list(got[1]) != list(base[1]) or not mats_close(got[2], base[2], tol):
            col.violation(key + " :: train values", dict(detail, float64=base[2].tolist(), container=got[2].tolist()),
                          sig="container-changes-values")
            continue
        if not states_close(st, st0, tol):
            col.violation(key + " :: state", dict(detail, float64=repr(st0), container=repr(st)), sig="container-changes-state")
            continue
        got2 = call_raw(fn, make_container(kind, x2), len(x2), st, kwargs)
        if got2[0] != base2[0] or (got2[0] == "OK" and (list(got2[1]) != list(base2[1]) or not mats_close(got2[2], base2[2], tol))):
            col.violation(key + " :: reuse values", dict(detail, x2=[fl(v) for v in x2],
                                                         float64=base2[2].tolist() if base2[0] == "OK" else base2[:2],
                                                         container=got2[2].tolist() if got2[0] == "OK" else got2[:2]),
                          sig="container-changes-values")


# ---------------------------------------------------------------------------
# one caller-owned knots list used by several fresh fits (direct calls, two terms of one formula, two model_matrix calls)

def drv_shared(c, ctx, col):
    import pandas as pd
    from formulaic import model_matrix

    kind = c.pick(["bs", "cr", "cc"])
    degree = c.pick(ctx["degrees"]) if kind == "bs" else None
    extrap = c.pick(EXTRAP)
    x = choose_multiset(c, G, ctx["max_len"])
    if len(set(x)) < 2:
        raise Skip()
    lb, ub = min(x), max(x)
    inner = c.pick(knot_choices([g for g in G if lb < g < ub], kind == "bs"))
    if not inner:
        raise Skip()
    z = list(reversed(x))
    klist = [float(k) for k in inner]          # ONE list object, owned by the caller, handed to every fit below
    original = list(klist)
    opts = {"extrapolation": extrap}
    if kind == "bs":
        opts["degree"] = degree
    osrc = ", ".join("%s=%r" % kv for kv in opts.items())
    key = "shared-knots :: %s(., knots=k, %s) k=%s x=%s" % (kind, osrc, showx(inner), showx(x))
    detail = {"x": [fl(v) for v in x], "k": original,
              "repro": "k = %r; f(x, knots=k, %s, _state={}); f(x, knots=k, %s, _state={})  # second fit must equal the first; k unchanged"
                       % (original, osrc, osrc)}
    col.sample({"transform": kind, "k": original, "x": showx(x), "options": opts})
    fn = TRANSFORMS[kind]
    cyclic = kind == "cc"
    if kind == "bs":
        t = (lb,) * (degree + 1) + tuple(inner) + (ub,) * (degree + 1)
        ref = {tuple(v): bs_want(t, degree, extrap, False, tuple(v))[0] for v in (x, z)}
    else:
        t = tuple(sorted(set((lb, ub) + tuple(inner))))
        ref = {tuple(v): cubic_want(t, cyclic, extrap, tuple(v))[0] for v in (x, z)}
    col.interesting()

    def bad(name, M, v):
        W = ref[tuple(v)]
        if M is None or M.shape != W.shape or not mats_close(M, W):
            col.violation("%s :: %s" % (key, name), dict(detail, fit=name, got=None if M is None else M.tolist(), want=W.tolist(),
                                                       k_now=list(klist)), sig="shared-argument-later-fit-differs")
            return True
        return False

    # -- direct calls: three fresh fits (fresh state each) from the same list object
    for name, v in (("direct fit 1 (x)", x), ("direct fit 2 (z = x reversed)", z), ("direct fit 3 (x)", x)):
        try:
            with np.errstate(all="ignore"):
                res = fn(np.array([float(a) for a in v]), knots=klist, _state={}, **opts)
            M = to_matrix(res, len(v))[1]
        except Exception as e:  # noqa
            col.violation("%s :: %s" % (key, name), dict(detail, error="%s: %s" % (type(e).__name__, str(e)[:120])),
                          sig="shared-argument-later-fit-differs")
            return
        if bad(name, M, v):
            return
    # -- two terms of one formula, and a second model_matrix call, all reading the same context variable k
    formula = "%s(x, knots=k, %s) + %s(z, knots=k, %s) - 1" % (kind, osrc, kind, osrc)
    data = pd.DataFrame({"x": [float(a) for a in x], "z": [float(a) for a in z]})
    ncol = ref[tuple(x)].shape[1]
    for name in ("model_matrix call 1", "model_matrix call 2"):
        try:
            with np.errstate(all="ignore"):
                A = np.asarray(model_matrix(formula, data, context={"k": klist}), dtype=float)
        except Exception as e:  # noqa
            col.violation("%s :: %s" % (key, name), dict(detail, formula=formula, error="%s: %s" % (type(e).__name__, str(e)[:160])),
                          sig="shared-argument-later-fit-differs")
            return
        if A.shape[1] != 2 * ncol:
            col.violation("%s :: %s" % (key, name), dict(detail, formula=formula, columns=A.shape[1], want_columns=2 * ncol, k_now=list(klist)),
                          sig="shared-argument-later-fit-differs")
            return
        if bad(name + ", term on x", A[:, :ncol], x) or bad(name + ", term on z", A[:, ncol:], z):
            return
    if freeze(klist) != freeze(original):
        col.violation(key + " :: k after the fits", dict(detail, k_now=list(klist)), sig="caller-argument-mutated")


for _n in ("drv_bs", "drv_cubic", "drv_formula", "drv_container", "drv_shared"):
    globals()[_n] = guarded(globals()[_n], _n[4:])


# ---------------------------------------------------------------------------

def selftest():
    R.selftest()
    assert TRANSFORMS["cs"] is TRANSFORMS["cr"]


def subchecks(tier, seed):
    selftest()
    quick = tier == "quick"
    both = ("both", 0, 4)
    narrow = ("both", F(1, 2), 3)
    degs = [0, 1, 2, 3, 4, 5]
    # (bounds mode, maximal length of the training vector) per sub-check
    if quick:
        # "oor": of the vectors of the maximal length only those with an out-of-range training value (shorter ones: all)
        bnd = {"bs-knots": [("default", 3), (both, 2)], "bs-df": [("default", 4), (both, 3, "oor")],
               "cubic": [("default", 3), (both, 3, "oor"), (narrow, 3, "oor")]}
        dfs, fl_len = [3, 4, 5], 2
    else:
        bnd = {"bs-knots": [("default", 4), (both, 3), (narrow, 3), (("lower", 0), 3), (("upper", 4), 3)],
               "bs-df": [("default", 5), (both, 5), (narrow, 4)],
               "cubic": [("default", 5), (both, 4), (narrow, 3)]}
        dfs, fl_len = [2, 3, 4, 5, 6], 3

    def btxt(name):
        out = []
        for b, n, *opt in bnd[name]:
            if b == "default":
                out.append("bounds from the data: x = sorted multisets of 2..%d symbols of {0,1/2,1,3/2,2,3,4,null}" % n)
            else:
                what = "explicit bounds %s..%s" % (b[1], b[2]) if b[0] == "both" else "%s bound only (%s)" % (b[0], b[1])
                out.append("%s: x = sorted multisets of 2..%d symbols of {-1,0,1/2,1,3/2,2,3,4,5,null}%s"
                           % (what, n, " (length %d: only those containing an out-of-range value)" % n if opt else ""))
        return out + [">= 2 distinct in-range values required"]

    # Sub-checks are split by the region in which a defect class lives (degree 0; natural / cyclic), so that a flood of
    # one class of violations cannot crowd the others out of the runner's report.
    subs = []
    for suffix, dd, dtxt in (("-degree0", [0], "0"), ("", degs[1:], "1..5")):
        subs.append(
            Sub("bs-knots" + suffix, drv_bs, {"mode": "knots", "degrees": dd, "bounds": bnd["bs-knots"], "followup": FINE},
                shard_depth=4,
                bounds={"x and bounds": btxt("bs-knots"), "degree": dtxt, "include_intercept": "False | True",
                        "knots": "every subset of <= 2 grid points strictly inside the bounds + every doubled knot",
                        "extrapolation": EXTRAP,
                        "follow-up vectors (state re-use)": "k/8 for k=-8..40 plus a null; its in-range part plus a null"}))
        subs.append(
            Sub("bs-df" + suffix, drv_bs, {"mode": "df", "degrees": dd, "bounds": bnd["bs-df"], "followup": COARSE},
                shard_depth=4,
                bounds={"x and bounds": btxt("bs-df"), "degree": dtxt, "include_intercept": "False | True",
                        "df": "degree..degree+3", "extrapolation": EXTRAP,
                        "follow-up vectors (state re-use)": "13 dyadic points in -1..5 plus a null; its in-range part plus a null"}))
    for name, kind, ktxt in (("cubic-natural", "cr", "cr (cs is the same function object, asserted at start-up)"),
                             ("cubic-cyclic", "cc", "cc")):
        for suffix, cons in (("-center", "center"), ("", None)):
            subs.insert(0 if cons else len(subs),
                Sub(name + suffix, drv_cubic, {"kinds": [kind], "constraints": [cons], "bounds": bnd["cubic"], "dfs": dfs,
                                               "followup": FINE, "followup_df": COARSE},
                    shard_depth=4,
                    bounds={"transform": ktxt, "constraints": repr(cons), "x and bounds": btxt("cubic"),
                            "df": "%d..%d" % (dfs[0], dfs[-1]),
                            "knots": "every subset of <= 2 grid points strictly inside the bounds", "extrapolation": EXTRAP,
                            "follow-up vectors (state re-use)": "the recorded knots followed by the k/8 grid (explicit knots) "
                                                                "or 13 dyadic points (df) in -1..5 plus a null"}))
    subs.sort(key=lambda sub: ("degree0" in sub.name, not sub.name.startswith("cubic")))  # rarer defect classes first

    # ---- affinely transformed grids o + h*G (scale / offset of the data) and input containers ----------------------
    pairs = [AFFINE_PAIRS[i] for i in (0, 3, 5, 6)] if quick else AFFINE_PAIRS
    ptxt = ["%r + %r * g" % (float(o), float(h)) for o, h in pairs]
    adeg = [1, 3] if quick else degs
    a_df = [("default", 2), (both, 2)] if quick else [("default", 3), (both, 2)]
    a_kn = [("default", 2), (both, 2)]
    a_cu = [("default", 2)] if quick else [("default", 3), (both, 2)]
    extra = [
        Sub("bs-df-affine", drv_bs, {"mode": "df", "degrees": adeg, "bounds": a_df, "followup": COARSE, "affine": pairs},
            shard_depth=4,
            bounds={"grid": ptxt, "x and bounds": [repr(b) for b in a_df], "degree": adeg, "df": "degree..degree+3",
                    "checks": "exact reference on the recorded (transformed) knots + equality with the unit-scale call"}),
        Sub("cubic-affine", drv_cubic, {"kinds": ["cr", "cc"], "constraints": [None, "center"], "bounds": a_cu,
                                        "dfs": [3] if quick else [3, 4], "followup": COARSE, "followup_df": COARSE, "affine": pairs},
            shard_depth=4,
            bounds={"grid": ptxt, "x and bounds": [repr(b) for b in a_cu], "df": "3" if quick else "3..4",
                    "knots": "every subset of <= 2 interior grid points", "constraints": "None | 'center'"}),
        Sub("container", drv_container,
            {"bounds": [("default", 2), (narrow, 3, "oor")] if quick else [("default", 3), (narrow, 3), (both, 3, "oor")]},
            shard_depth=2,
            bounds={"terms": ["%s(x, %s)" % (a, ", ".join("%s=%r" % kv for kv in k.items())) for a, k in CONTAINER_TERMS],
                    "containers": CONTAINERS, "x": "sorted multisets of integers -1..5 and null", "extrapolation": EXTRAP,
                    "bounds": "from the data | explicit fractional bounds 1/2..3" + ("" if quick else " | 0..4"),
                    "follow-up": "the integers -1..5 with the recorded state"}),
    ]
    if not quick:
        extra.insert(1, Sub("bs-knots-affine", drv_bs, {"mode": "knots", "degrees": adeg, "bounds": a_kn, "followup": FINE,
                                                        "affine": pairs},
                            shard_depth=4, bounds={"grid": ptxt, "x and bounds": [repr(b) for b in a_kn], "degree": adeg}))
    subs = subs + extra
    return subs + ([

        Sub("bs-df-seed-slice", drv_bs, {"mode": "df", "degrees": [degs[seed % 6]], "bounds": [(narrow, 3), (both, 3)],
                                         "followup": COARSE},
            shard_depth=4,
            bounds={"note": "VERIF_SEED-selected exhaustive slice of the thorough scope (one degree, out-of-range training "
                            "values with explicit bounds)", "degree": degs[seed % 6],
                    "x and bounds": ["explicit bounds 1/2..3 and 0..4: x = sorted multisets of 2..3 symbols of "
                                     "{-1,0,1/2,1,3/2,2,3,4,5,null}"], "df": "degree..degree+3"}),
    ] if quick else []) + [
        Sub("shared-arguments", drv_shared, {"degrees": [0, 3] if quick else [0, 1, 2, 3, 5], "max_len": 2 if quick else 3}, shard_depth=3,
            bounds={"transforms": "bs | cr | cc", "knots": "every non-empty subset of <= 2 interior grid points (+ doubled for bs), ONE list object",
                    "fits": "3 direct fresh fits, 2 terms of one formula, 2 model_matrix calls", "x": "sorted multisets of 2..%d grid points" % (2 if quick else 3),
                    "extrapolation": EXTRAP}),
        Sub("formula-path", drv_formula, {"max_len": fl_len}, shard_depth=2,
            bounds={"terms": ["%s(x, %s)" % (a, ", ".join("%s=%r" % kv for kv in k.items())) for a, k in FORMULA_TERMS],
                    "extrapolation": EXTRAP, "x": "sorted multisets of 2..%d grid symbols" % fl_len,
                    "new data": "13 dyadic points in -1..5 through model_spec.get_model_matrix"}),
    ]
