"""C03 - rank reduction yields a structurally full-rank matrix with unchanged span."""
import itertools

import numpy as np
import pandas as pd

from mc.explorer import Skip
from mc.runner import Sub
from models import atoms as AT

from formulaic import Formula
from formulaic.materializers import PandasMaterializer
from formulaic.materializers.types import EvaluatedFactor, FactorValues
from formulaic.parser.types import Factor, Term

RULE = (
    "Engine (i): the real rank-reduction code (_cluster_terms, _get_scoped_terms, "
    "_get_scoped_terms_spanned_by_evaled_factors, _simplify_scoped_terms) is run on a stub factor cache for every subset "
    "of the interaction lattice over 4 factors (three factor-kind configurations) and for every ordered list of <= N "
    "lattice terms (the intercept being one of them), with and without numerical-factor clustering; the emitted scoped "
    "terms are expanded into atoms and must contain every atom of the unreduced design exactly once.  Engine (ii): real "
    "matrices on fully crossed data for every ordered term list x built-in contrast: numeric rank(R) == ncols(R) and "
    "rank([R|F]) == rank(F) == rank(R); the atom verdict computed from model_spec.structure must agree with the numeric "
    "verdict and with the stub run.  Non-trivial = the term list contains a categorical factor in >= 2 terms or an interaction."
)
ASSUMPTIONS = [
    "atoms W_S (x) numeric factors are linearly independent on fully crossed data in general position (standard ANOVA decomposition)",
    "level counts beyond 4 per factor are not run end to end; the atom algebra is independent of level counts",
    "numeric ranks use an SVD with a gap requirement (smallest kept singular value >= 1e6 x largest discarded); cases without a gap are counted as inconclusive, never as violations",
]

CONFIGS = {
    "spline-spans": {"P": ("numerical", True), "A": ("categorical", True), "B": ("categorical", True), "a": ("numerical", False)},
    "falsy-levels": {"K": ("categorical", True), "E": ("categorical", True), "F": ("categorical", True), "a": ("numerical", False)},
    "onelevel": {"S": ("categorical", True), "B": ("categorical", True), "A": ("categorical", True), "a": ("numerical", False)},
    "2cat+2num": {"A": ("categorical", True), "B": ("categorical", True), "a": ("numerical", False), "b": ("numerical", False)},
    "3cat+1num": {"A": ("categorical", True), "B": ("categorical", True), "C": ("categorical", True), "a": ("numerical", False)},
    "cat+nospan+2num": {"A": ("categorical", True), "N": ("categorical", False), "a": ("numerical", False), "b": ("numerical", False)},
    "4cat": {"A": ("categorical", True), "B": ("categorical", True), "C": ("categorical", True), "D": ("categorical", True)},
}


def lattice(names):
    out = []
    for k in range(1, len(names) + 1):
        for comb in itertools.combinations(names, k):
            out.append(comb)
    return out


_STUBS = {}


def stub_materializer(cfg_name):
    if cfg_name not in _STUBS:
        m = PandasMaterializer(pd.DataFrame({"x": [1.0]}))
        for name, (kind, spans) in CONFIGS[cfg_name].items():
            m.factor_cache[name] = EvaluatedFactor(
                factor=Factor(name), values=FactorValues("stub", kind=kind, spans_intercept=spans))
        m.factor_cache["1"] = EvaluatedFactor(factor=Factor("1", eval_method="literal"), values=FactorValues(1, kind="constant"))
        _STUBS[cfg_name] = m
    return _STUBS[cfg_name]


class StubBindingError(Exception):
    """the library's internal rank-reduction functions could not be driven on the stub cache (their private interface changed)"""


def run_stub(cfg_name, term_tuples, cluster):
    try:
        return _run_stub(cfg_name, term_tuples, cluster)
    except (AttributeError, TypeError) as e:
        raise StubBindingError("%s: %s" % (type(e).__name__, e))


def _run_stub(cfg_name, term_tuples, cluster):
    """-> list of (term tuple, [scoped term as [(name, spans, reduced)]]) from the REAL rank-reduction code"""
    m = stub_materializer(cfg_name)
    terms = [Term([Factor(f, eval_method="literal" if f == "1" else "lookup") for f in t]) for t in term_tuples]
    from formulaic.materializers.types import ClusterBy
    terms = m._cluster_terms(terms, cluster_by=ClusterBy.NUMERICAL_FACTORS if cluster else ClusterBy.NONE)
    cfg = CONFIGS[cfg_name]
    out = []
    for term, scoped_terms in m._get_scoped_terms(terms, ensure_full_rank=True):
        sts = []
        for st in scoped_terms:
            sts.append([(sf.factor.expr, cfg[sf.factor.expr][1], bool(sf.reduced)) for sf in st.factors])
        out.append((tuple(f.expr for f in term.factors), sts))
    return out


def atom_check(col, key, cfg_name, term_tuples, emitted, extra=None):
    cfg = CONFIGS[cfg_name]
    unreduced = []
    for t in term_tuples:
        fs = [f for f in t if f != "1"]
        unreduced.append(([f for f in fs if cfg[f][1]], [f for f in fs if not cfg[f][1]]))
    v = AT.verdict(unreduced, [st for _, sts in emitted for st in sts])
    if not v["full_rank"] or not v["same_span"]:
        d = {"config": cfg_name, "terms": [":".join(t) for t in term_tuples],
             "emitted": [(":".join(t), [":".join(n + ("-" if r else "") for n, s, r in st) or "1" for st in sts]) for t, sts in emitted],
             "verdict": v}
        d.update(extra or {})
        col.violation(key, d, sig="atoms:" + ("duplicate" if not v["full_rank"] else "span-changed"))
    return v


def nontrivial(term_tuples, cfg):
    cats = [f for t in term_tuples for f in t if f != "1" and cfg[f][1]]
    return len(cats) != len(set(cats)) or any(len(t) > 1 for t in term_tuples)


def drv_subsets(c, ctx, col):
    cfg_name = c.pick(ctx["configs"])
    lat = lattice(list(CONFIGS[cfg_name]))
    chosen = [t for t in lat if c.flag()]
    if not chosen:
        raise Skip()
    icpt = not c.flag()
    cluster = c.flag()
    terms = ([("1",)] if icpt else []) + chosen  # lattice order is degree order
    key = "subset %s terms=%s cluster=%s" % (cfg_name, "+".join(":".join(t) for t in terms), cluster)
    try:
        emitted = run_stub(cfg_name, terms, cluster)
    except StubBindingError:
        # the atom engine drives private functions; if their interface changed it cannot decide anything (the numeric engine, which only uses
        # the public API, still does)
        col.count("stub-binding-failed")
        raise Skip()
    atom_check(col, key, cfg_name, terms, emitted)
    if nontrivial(terms, CONFIGS[cfg_name]):
        col.interesting()
    col.sample({"config": cfg_name, "terms": [":".join(t) for t in terms], "cluster_by_numerical_factors": cluster})


def drv_ordered(c, ctx, col):
    cfg_name = c.pick(ctx["configs"])
    lat = [("1",)] + lattice(list(CONFIGS[cfg_name]))
    n = 1 + c.upto(ctx["N"] - 1)
    idx = []
    for _ in range(n):
        i = c.choose(len(lat))
        if i in idx:
            raise Skip()
        idx.append(i)
    cluster = c.flag()
    terms = [lat[i] for i in idx]
    if ctx.get("permute"):
        # every written order of the factors inside each interaction (a:A vs A:a, A:B:a vs B:a:A, ...)
        terms = [tuple(c.perm(list(t))) if len(t) > 1 else t for t in terms]
    key = "ordered %s terms=%s cluster=%s" % (cfg_name, " + ".join(":".join(t) for t in terms), cluster)
    try:
        emitted = run_stub(cfg_name, terms, cluster)
    except StubBindingError:
        # the atom engine drives private functions; if their interface changed it cannot decide anything (the numeric engine, which only uses
        # the public API, still does)
        col.count("stub-binding-failed")
        raise Skip()
    atom_check(col, key, cfg_name, terms, emitted)
    if nontrivial(terms, CONFIGS[cfg_name]):
        col.interesting()
    col.sample({"config": cfg_name, "ordered_terms": [":".join(t) for t in terms], "cluster_by_numerical_factors": cluster})


# ---------------------------------------------------------------------------
# engine (ii): real matrices

CONTRASTS = [None, "contr.treatment('y')" , "contr.SAS", "contr.sum", "contr.helmert", "contr.helmert(scale=True)", "contr.diff", "contr.poly"]


def crossed_frame(reps=3):
    rows = []
    av = [2.0, 3.0, 5.0, 7.0, 11.0, 13.0, 17.0, 19.0, 23.0, 29.0, 31.0, 37.0]
    i = 0
    for rep in range(reps):
        for x in "xyz":
            for y in "uv":
                rows.append({"S": "s", "A": x, "B": y, "a": av[i % len(av)] + 0.37 * rep + 0.11 * i, "b": ((i * 7) % 11) + 1.5 + 0.29 * rep})
                i += 1
    df = pd.DataFrame(rows)
    df["A"] = df["A"].astype(object)
    df["B"] = df["B"].astype(object)
    df["S"] = df["S"].astype(object)
    # categorical columns whose FIRST (reference) level is falsy: integer 0, the empty string, False
    df["K"] = pd.Categorical([[0, 1, 2][i % 3] for i in range(len(df))], categories=[0, 1, 2])
    df["E"] = pd.Series([["", "b"][(i // 3) % 2] for i in range(len(df))], dtype=object)
    df["F"] = pd.Series([[False, True][(i // 6) % 2] for i in range(len(df))], dtype=object)
    return df


def falsy_frame():
    """fully crossed K(0,1,2) x E('', 'b') x F(False, True), three replicates with distinct a in every cell"""
    rows, i = [], 0
    for rep in range(3):
        for k in (0, 1, 2):
            for e in ("", "b"):
                for f in (False, True):
                    rows.append({"K": k, "E": e, "F": f, "a": 2.0 + 1.37 * i + 0.41 * rep * rep + (i % 7) * 0.113})
                    i += 1
    df = pd.DataFrame(rows)
    df["K"] = pd.Categorical(df["K"], categories=[0, 1, 2])
    df["E"] = df["E"].astype(object)
    df["F"] = df["F"].astype(object)
    return df


def gap_rank(M):
    if M.shape[1] == 0:
        return 0, True
    s = np.linalg.svd(np.asarray(M, dtype=float), compute_uv=False)
    if len(s) == 0 or s[0] == 0:
        return 0, True
    r = int((s > 1e-8 * s[0]).sum())
    conclusive = r == len(s) or s[r - 1] >= 1e6 * s[r] if r > 0 else True
    return r, bool(conclusive)


SPLINE = "bs(b, df=4, include_intercept=True)"


def fexpr(name, contrast):
    if name == "P":
        return SPLINE  # a NUMERIC multi-column factor that spans the intercept
    if name in ("A", "B", "S"):
        if contrast is None:
            return name
        if "treatment" in contrast and name == "B":
            return "C(B, contr.treatment('v'))"
        return "C(%s, %s)" % (name, contrast)
    return name


def drv_numeric(c, ctx, col):
    names = ctx["names"]
    lat = [("1",)] + lattice(names)
    contrast = c.pick(ctx["contrasts"])
    n = 1 + c.upto(ctx["N"] - 1)
    idx = []
    for _ in range(n):
        i = c.choose(len(lat))
        if i in idx:
            raise Skip()
        idx.append(i)
    terms = [lat[i] for i in idx]
    if ctx.get("permute"):
        terms = [tuple(c.perm(list(t))) if len(t) > 1 else t for t in terms]
    cluster = c.flag() if ctx.get("cluster") else False
    cb = "numerical_factors" if cluster else "none"
    df = ctx["frame"]
    tl = [Term([Factor("1", eval_method="literal")]) if t == ("1",) else
          Term([Factor(fexpr(f, contrast), eval_method="lookup" if fexpr(f, contrast) == f else "python") for f in t]) for t in terms]
    desc = " + ".join(":".join(fexpr(f, contrast) if f != "1" else "1" for f in t) for t in terms)
    key = "numeric terms=[%s] (ordering none)%s" % (desc, " cluster_by=numerical_factors" if cluster else "")
    fo = Formula(tl, _ordering="none")
    try:
        R = fo.get_model_matrix(df, output=ctx.get("output", "numpy"), cluster_by=cb)
        F = fo.get_model_matrix(df, output=ctx.get("output", "numpy"), ensure_full_rank=False, cluster_by=cb)
    except Exception as e:  # noqa
        col.violation(key, {"error": "%s: %s" % (type(e).__name__, e)}, sig="materialization-raised:" + type(e).__name__)
        return
    from props.common import dense
    Rm, Fm = dense(R), dense(F)
    if Rm.shape[0] != len(df) or Fm.shape[0] != len(df) or np.isnan(Rm).any() or np.isnan(Fm).any():
        col.violation(key, {"formula": desc, "shape_reduced": list(Rm.shape), "shape_unreduced": list(Fm.shape), "rows": len(df)}, sig="numeric:rows-or-nan")
        return
    r, c1 = gap_rank(Rm)
    rf, c2 = gap_rank(Fm)
    rj, c3 = gap_rank(np.hstack([Rm, Fm]))
    cfg_name = ctx.get("cfg", "2cat+2num")
    # atom verdict from the flags the real run recorded in model_spec.structure
    emitted = []
    for s in R.model_spec.structure:
        sts = []
        for st in s.scoped_terms:
            sts.append([(_base(sf.factor.expr), CONFIGS[cfg_name][_base(sf.factor.expr)][1], bool(sf.reduced)) for sf in st.factors])
        emitted.append((tuple(_base(f.expr) for f in s.term.factors), sts))
    try:
        stub = run_stub(cfg_name, terms, cluster)
    except StubBindingError:
        col.count("stub-binding-failed")
        stub = emitted
    if [sts for _, sts in emitted] != [sts for _, sts in stub]:
        col.violation(key, {"structure_flags": [sts for _, sts in emitted], "stub_flags": [sts for _, sts in stub]}, sig="binding:stub-vs-real-flags")
    v = atom_check(col, key, cfg_name, terms, emitted, extra={"formula": desc})
    if nontrivial(terms, CONFIGS[cfg_name]):
        col.interesting()
    col.sample({"terms": desc, "ncols_reduced": int(Rm.shape[1]), "ncols_full": int(Fm.shape[1]), "rank": r})
    if not (c1 and c2 and c3):
        col.count("numeric-inconclusive")
        return
    num_full_rank = r == Rm.shape[1]
    num_same_span = r == rf == rj
    if not num_full_rank or not num_same_span:
        col.violation(key, {"formula": desc, "ncols_R": int(Rm.shape[1]), "rank_R": r, "rank_F": rf, "rank_joint": rj,
                            "columns": list(R.model_spec.column_names)},
                      sig="numeric:" + ("rank-deficient" if not num_full_rank else "span-changed"))
    if (num_full_rank, num_same_span) != (v["full_rank"], v["same_span"]):
        col.violation(key, {"formula": desc, "numeric": (num_full_rank, num_same_span), "atoms": (v["full_rank"], v["same_span"])},
                      sig="binding:atoms-vs-numeric")
    # number of columns must equal the dimension the atoms predict
    dims = ctx.get("dims", {"A": 2, "B": 1})
    want_dim = 0
    seen = set()
    for t in terms:
        fs = [f for f in t if f != "1"]
        for a in AT.term_atoms([f for f in fs if f in dims], [f for f in fs if f not in dims]):
            if a not in seen:
                seen.add(a)
                d = 1
                for f in a[0]:
                    d *= dims[f]
                want_dim += d
    if Rm.shape[1] != want_dim:
        col.violation(key, {"formula": desc, "ncols": int(Rm.shape[1]), "atom_dimension": want_dim}, sig="numeric:column-count")


def drv_numeric_plain(c, ctx, col):
    """numeric engine only (no atom binding): ordered lists of terms that may carry literal scalings and that may involve a NUMERIC column whose
    name looks like the printed form of a reduced categorical factor (`A-`)"""
    pool = ctx["terms"]  # tuples of factor names; literals are factor names that are numbers
    n = 1 + c.upto(ctx["N"] - 1)
    idx = []
    for _ in range(n):
        i = c.choose(len(pool))
        if i in idx:
            raise Skip()
        idx.append(i)
    terms = [pool[i] for i in idx]
    # the parser rejects the same term twice with different scalings: skip lists in which two terms have the same non-literal factors
    keys = [tuple(sorted(f for f in t if not _is_lit(f))) for t in terms]
    if len(set(keys)) < len(keys):
        raise Skip()
    icpt = c.flag()
    cluster = c.flag()
    cb = "numerical_factors" if cluster else "none"
    df = ctx["frame"]
    tl = ([Term([Factor("1", eval_method="literal")])] if icpt else []) + [
        Term([Factor(f, eval_method="literal" if _is_lit(f) else "lookup") for f in t]) for t in terms]
    desc = " + ".join((["1"] if icpt else []) + [":".join(("`%s`" % f) if not f.isidentifier() and not _is_lit(f) else f for f in t) for t in terms])
    key = "numeric-plain terms=[%s] (ordering none)%s" % (desc, " cluster_by=numerical_factors" if cluster else "")
    fo = Formula(tl, _ordering="none")
    try:
        R = fo.get_model_matrix(df, output="numpy", cluster_by=cb)
        F = fo.get_model_matrix(df, output="numpy", ensure_full_rank=False, cluster_by=cb)
    except Exception as e:  # noqa
        col.violation(key, {"error": "%s: %s" % (type(e).__name__, e)}, sig="materialization-raised:" + type(e).__name__)
        return
    from props.common import dense
    Rm, Fm = dense(R), dense(F)
    r, c1 = gap_rank(Rm)
    rf, c2 = gap_rank(Fm)
    rj, c3 = gap_rank(np.hstack([Rm, Fm]))
    col.interesting()
    col.sample({"terms": desc, "ncols_reduced": int(Rm.shape[1]), "ncols_full": int(Fm.shape[1]), "rank": r})
    if not (c1 and c2 and c3):
        col.count("numeric-inconclusive")
        return
    if r != Rm.shape[1] or not (r == rf == rj):
        col.violation(key, {"formula": desc, "ncols_R": int(Rm.shape[1]), "rank_R": r, "rank_F": rf, "rank_joint": rj, "columns": list(R.model_spec.column_names)},
                      sig="numeric:" + ("rank-deficient" if r != Rm.shape[1] else "span-changed"))


def _is_lit(f):
    try:
        float(f)
        return True
    except ValueError:
        return False


def plain_terms():
    base = [("A",), ("B",), ("a",), ("A", "B"), ("A", "a"), ("a", "A", "B"), ("A-",), ("A-", "B"), ("A-", "A")]
    out = list(base)
    # a numeric column whose name sorts BEFORE the categorical it interacts with (n < z), factors written in both orders; and two numeric
    # factors written in different orders in different terms (matters when terms are clustered by their numeric factors)
    out += [("n", "z"), ("z", "n"), ("z", "n", "B"), ("B", "z", "n"), ("n", "z", "B"), ("a", "n", "A"), ("n", "a", "B"), ("n", "a"), ("a", "n")]
    for t in base[:6]:
        out.append(("2",) + t)
        out.append(t + ("2.5",))
    return out


def _base(expr):
    if expr.startswith("C("):
        return expr[2]
    if expr.startswith("bs("):
        return "P"
    return expr


def subchecks(tier, seed):
    quick = tier == "quick"
    fr = crossed_frame()
    subs = [
        Sub("atoms-subsets", drv_subsets, {"configs": ["2cat+2num"] if quick else list(CONFIGS)}, shard_depth=8,
            bounds={"factor_configs": ["2cat+2num"] if quick else list(CONFIGS), "lattice_terms": 15, "subsets": "all 2^15", "x": "intercept, clustering"}),
        Sub("atoms-ordered", drv_ordered, {"configs": list(CONFIGS), "N": 3 if quick else 4}, shard_depth=3,
            bounds={"factor_configs": list(CONFIGS), "max_terms": 3 if quick else 4, "universe": "intercept + 15 lattice terms"}),
        Sub("atoms-ordered-factor-orders", drv_ordered, {"configs": ["2cat+2num"] if quick else ["2cat+2num", "3cat+1num"], "N": 2 if quick else 3, "permute": True},
            shard_depth=3, bounds={"max_terms": 2 if quick else 3, "universe": "intercept + 15 lattice terms, every written factor order inside each interaction"}),
        Sub("numeric-rank-clustered", drv_numeric, {"names": ["A", "B", "a", "b"], "N": 2 if quick else 3, "contrasts": [None], "frame": fr, "cluster": True},
            shard_depth=3, bounds={"factors": ["A(3)", "B(2)", "a", "b"], "max_terms": 2 if quick else 3, "cluster_by": ["none", "numerical_factors"]}),
        Sub("numeric-rank", drv_numeric, {"names": ["A", "B", "a"], "N": 3 if quick else 4, "contrasts": CONTRASTS[:4] if quick else CONTRASTS, "frame": fr},
            shard_depth=3, bounds={"factors": ["A(3)", "B(2)", "a"], "max_terms": 3 if quick else 4,
                                   "contrasts": [str(x) for x in (CONTRASTS[:4] if quick else CONTRASTS)], "rows": len(fr)}),
    ]
    subs.append(Sub("numeric-rank-factor-orders", drv_numeric, {"names": ["A", "B", "a"], "N": 2 if quick else 3, "contrasts": [None] if quick else [None, "contr.sum"],
                                                                "frame": fr, "permute": True}, shard_depth=3,
                    bounds={"factors": ["A(3)", "B(2)", "a"], "max_terms": 2 if quick else 3, "factor_orders": "every written order inside each interaction"}))
    subs.append(Sub("numeric-rank-one-level", drv_numeric, {"names": ["S", "B", "a"], "N": 3, "contrasts": [None, "contr.sum"] if quick else CONTRASTS[:1] + CONTRASTS[2:],
                                                            "frame": fr, "cfg": "onelevel", "dims": {"S": 0, "B": 1, "A": 2}}, shard_depth=3,
                    bounds={"factors": ["S (one level)", "B(2)", "a"], "max_terms": 3}))
    subs.append(Sub("numeric-rank-spanning-spline", drv_numeric, {"names": ["P", "A", "a"], "N": 3, "contrasts": [None], "frame": crossed_frame(reps=10),
                                                                  "cfg": "spline-spans", "dims": {"P": 3, "A": 2, "B": 1}}, shard_depth=3,
                    bounds={"factors": ["bs(b, df=4, include_intercept=True) (numeric, spans the intercept)", "A(3)", "a"], "max_terms": 3}))
    subs.append(Sub("numeric-rank-falsy-levels", drv_numeric, {"names": ["K", "E", "F", "a"], "N": 2 if quick else 3, "contrasts": [None], "frame": falsy_frame(),
                                                               "cfg": "falsy-levels", "dims": {"K": 2, "E": 1, "F": 1}}, shard_depth=3,
                    bounds={"factors": ["K (levels 0,1,2)", "E (levels '', 'b')", "F (levels False, True)", "a"], "max_terms": 2 if quick else 3}))
    frp = fr.copy()
    frp.index = [(7 * i + 3) % len(frp) for i in range(len(frp))]  # index labels: a permutation of the positions
    subs.append(Sub("numeric-rank-pandas-permuted-index", drv_numeric, {"names": ["A", "B", "a"], "N": 2 if quick else 3, "contrasts": [None, "contr.sum"], "frame": frp,
                                                                        "output": "pandas"}, shard_depth=3,
                    bounds={"factors": ["A(3)", "B(2)", "a"], "max_terms": 2 if quick else 3, "output": "pandas", "index": "labels are a permutation of 0..n-1",
                            "contrasts": ["None", "contr.sum"]}))
    frn = fr.copy()
    frn["A-"] = [1.7 + 0.9 * i + 0.31 * ((i * 5) % 7) for i in range(len(frn))]  # a NUMERIC column named like a reduced factor
    frn["z"] = frn["A"]  # a categorical column with a lower-case name
    frn["n"] = [0.3 + 1.1 * i + 0.17 * ((i * 3) % 5) for i in range(len(frn))]  # ... and a numeric one that sorts before it
    subs.append(Sub("numeric-rank-scalings-and-odd-names", drv_numeric_plain, {"terms": plain_terms(), "N": 2 if quick else 3, "frame": frn}, shard_depth=2,
                    bounds={"terms": [":".join(t) for t in plain_terms()], "max_terms": 2 if quick else 3, "x": "intercept on/off",
                            "note": "literal scalings in any position; a numeric column literally named 'A-'"}))
    if not quick:
        subs.append(Sub("numeric-rank-4factors", drv_numeric, {"names": ["A", "B", "a", "b"], "N": 2, "contrasts": [None, "contr.sum"], "frame": fr},
                        shard_depth=3, bounds={"factors": ["A(3)", "B(2)", "a", "b"], "max_terms": 2}))
    return subs
