"""C06 - missing-data policy removes exactly the right rows, by position, and reports it."""
import numpy as np
import pandas as pd

from mc.explorer import Skip
from mc.runner import Sub
from props.common import dense

from formulaic import Formula, ModelSpec, model_matrix
from formulaic.materializers import PandasMaterializer
from formulaic.utils.structured import Structured

RULE = (
    "Frames of n rows with numeric column a, text column A and response y: EVERY null pattern over (a, A) (and y for "
    "two-sided formulas) x index kind (default, strings, non-unique, unsorted ints) x formula x caller drop set x entry "
    "point x output x policy, split over sub-checks so that each pair of dimensions is fully crossed somewhere.  The kept-row "
    "set is predicted by a reference null model (a row is kept iff no variable used by the formula is null there and the "
    "caller did not list it); the output must equal the matrix built on data.iloc[kept] without null handling, carry "
    "data.index[kept] (pandas output), and leave the caller's set equal to the positions removed.  Non-trivial = at least "
    "one row is removed and at least one is kept."
)
ASSUMPTIONS = [
    "formulas are restricted to element-wise factors, so a factor is null at row i iff one of its input columns is",
    "the expected values are a differential against the same library on the clean sub-frame: this check decides row "
    "selection, index and drop-set reporting; column values are C02's subject",
    "na_action='ignore' combined with a caller drop set is not checked (the property is silent)",
]

# formula -> (columns whose nulls make an evaluated factor null, is_structured)
FORMULAS = {
    "a": (["a"], False),
    "A": (["A"], False),
    "a + A": (["a", "A"], False),
    "a:A": (["a", "A"], False),
    "C(A)": (["A"], False),
    "{a+1}": (["a"], False),
    "y ~ a": (["y", "a"], True),
    "y ~ a | A": (["y", "a", "A"], True),
    "hashed(A, levels=3) + a": (["a"], False),  # hashed() stringifies its input: a null in A is not null after evaluation
    # parts without any column still have rows (and, on pandas output, an index)
    "y ~ 0": (["y"], True),
    "y ~ a | 0": (["y", "a"], True),
    "0": ([], False),
}
INDEXES = {
    "default": lambda n: None,
    "strings": lambda n: ["r%d" % i for i in range(n)],
    "nonunique": lambda n: [0, 0, 1, 1][:n],
    "unsorted": lambda n: [2, 0, 1, 3][:n] if n <= 4 else list(range(n))[::-1],
    # RangeIndex objects whose labels are not the positions
    "range-offset": lambda n: pd.RangeIndex(4, 4 + n),
    "range-step": lambda n: pd.RangeIndex(0, 2 * n, 2),
}
DROPSETS = {"none": None, "empty": (), "{0}": (0,), "{0,2}": (0, 2), "{1}": (1,)}
AVALS = [1.5, -2.0, 3.25, 7.0]
TVALS = ["x", "y", "x", "z"]
YVALS = [10.0, 20.0, 30.0, 40.0]


A_DTYPES = ["float64", "Int64", "Float64", "boolean", "float32"]
T_DTYPES = ["object", "category", "string"]


def make_frame(n, a_null, A_null, y_null, index_kind, a_dtype="float64", t_dtype="object"):
    a = [np.nan if i in a_null else AVALS[i] for i in range(n)]
    A = [None if i in A_null else TVALS[i] for i in range(n)]
    y = [np.nan if i in y_null else YVALS[i] for i in range(n)]
    df = pd.DataFrame({"a": a, "A": pd.Series(A, dtype=object), "y": y})
    if a_dtype == "Int64":
        df["a"] = pd.array([pd.NA if i in a_null else int(2 + 3 * i) for i in range(n)], dtype="Int64")
    elif a_dtype == "boolean":
        df["a"] = pd.array([pd.NA if i in a_null else bool(i % 2) for i in range(n)], dtype="boolean")
    elif a_dtype != "float64":
        df["a"] = df["a"].astype(a_dtype)
    if t_dtype == "category":
        df["A"] = pd.Categorical(A)
    elif t_dtype == "string":
        df["A"] = pd.array(A, dtype="string")
    idx = INDEXES[index_kind](n)
    if idx is not None:
        df.index = idx
    return df



def parts_of(mm):
    if isinstance(mm, Structured):
        return list(mm._flatten())
    return [mm]


def call(entry, formula, data, drop, overrides):
    """the six ways of asking for the same matrix"""
    if entry == "model_matrix":
        return model_matrix(formula, data, drop_rows=drop, **overrides)
    if entry == "Formula.get_model_matrix":
        return Formula(formula).get_model_matrix(data, drop_rows=drop, **overrides)
    if entry == "ModelSpec.from_spec(**opts).get_model_matrix":
        return ModelSpec.from_spec(formula, **overrides).get_model_matrix(data, drop_rows=drop)
    if entry == "ModelSpec.get_model_matrix(**overrides)":
        return ModelSpec.from_spec(formula).get_model_matrix(data, drop_rows=drop, **overrides)
    if entry == "PandasMaterializer.get_model_matrix":
        return PandasMaterializer(data).get_model_matrix(formula, drop_rows=drop, **overrides)
    if entry == "PandasMaterializer used for an earlier call":
        # one materializer object serves two calls: the first (other formulas sharing the factors, its own drop set) must leave no trace
        m = PandasMaterializer(data)
        for warm in ("a", "A", "y ~ a + A"):
            try:
                m.get_model_matrix(warm, drop_rows=set(), **overrides)
            except Exception:  # noqa - the warm-up calls are not the subject
                pass
        return m.get_model_matrix(formula, drop_rows=drop, **overrides)
    if entry in ("model_matrix(matrix, **overrides)", "model_matrix(spec, **overrides)", "PandasMaterializer.get_model_matrix(matrix, **overrides)"):
        # a matrix built earlier (on clean data, default policy) is re-used as the specification; the overrides must win
        clean = make_frame(len(data), (), (), (), "default")
        first = model_matrix(formula, clean)
        if entry == "model_matrix(matrix, **overrides)":
            return model_matrix(first, data, drop_rows=drop, **overrides)
        if entry == "model_matrix(spec, **overrides)":
            return model_matrix(first.model_spec, data, drop_rows=drop, **overrides)
        return PandasMaterializer(data).get_model_matrix(first, drop_rows=drop, **overrides)
    raise AssertionError(entry)


ENTRIES = ["model_matrix", "Formula.get_model_matrix", "ModelSpec.from_spec(**opts).get_model_matrix",
           "ModelSpec.get_model_matrix(**overrides)", "PandasMaterializer.get_model_matrix", "PandasMaterializer used for an earlier call"]


def check_drop(col, key, formula, df, nulls, dropname, entry, output, detail):
    n = len(df)
    caller = DROPSETS[dropname]
    drop = set(caller) if caller is not None else None
    if caller is not None and any(i >= n for i in caller):
        raise Skip()
    kept = [i for i in range(n) if i not in (caller or ()) and i not in nulls]
    removed = set(range(n)) - set(kept)
    if kept and removed:
        col.interesting()
    overrides = {"output": output}
    try:
        got = call(entry, formula, df, drop, overrides)
    except Exception as e:  # noqa
        col.violation(key, dict(detail, error="%s: %s" % (type(e).__name__, str(e)[:200])), sig="drop:raised:" + type(e).__name__)
        return
    clean = df.iloc[kept]
    try:
        want = model_matrix(formula, clean, na_action="ignore", output=output) if kept else None
    except Exception as e:  # noqa
        raise Skip()
    gp = parts_of(got)
    wp = parts_of(want) if want is not None else [None] * len(gp)
    for j, (g, w) in enumerate(zip(gp, wp)):
        G = dense(g)
        if G.shape[0] != len(kept):
            col.violation(key, dict(detail, part=j, rows=int(G.shape[0]), expected_rows=len(kept), kept=kept),
                          sig="drop:wrong-row-count")
            return
        if w is not None:
            Wd = dense(w)
            if G.shape != Wd.shape or not np.allclose(G, Wd, rtol=1e-12, atol=1e-12, equal_nan=True):
                col.violation(key, dict(detail, part=j, got=G.tolist(), want=Wd.tolist(), kept=kept), sig="drop:wrong-rows")
                return
        if output == "pandas":
            if list(g.index) != list(df.index[kept]):
                col.violation(key, dict(detail, part=j, index=list(g.index), expected_index=list(df.index[kept])), sig="drop:wrong-index")
                return
    if drop is not None:
        after = {int(i) for i in drop}
        if after != removed:
            col.violation(key, dict(detail, drop_set_after=sorted(after), expected=sorted(removed)), sig="drop:drop-set-not-updated")


def null_rows(formula, a_null, A_null, y_null):
    cols, _ = FORMULAS[formula]
    s = set()
    if "a" in cols:
        s |= set(a_null)
    if "A" in cols:
        s |= set(A_null)
    if "y" in cols:
        s |= set(y_null)
    return s


def pattern(c, n, max_nulls=None):
    s = tuple(i for i in range(n) if c.flag())
    if max_nulls is not None and len(s) > max_nulls:
        raise Skip()
    return s


def drv_core(c, ctx, col):
    """all null patterns x index kinds x drop sets (entry = model_matrix, pandas)"""
    n = ctx["n"]
    formula = c.pick(ctx["formulas"])
    a_null, A_null = pattern(c, n), pattern(c, n)
    y_null = pattern(c, n, 1) if "y" in FORMULAS[formula][0] else ()
    index_kind = c.pick(list(INDEXES))
    dropname = c.pick(ctx["dropsets"])
    df = make_frame(n, a_null, A_null, y_null, index_kind)
    nulls = null_rows(formula, a_null, A_null, y_null)
    detail = {"formula": formula, "a_null": a_null, "A_null": A_null, "y_null": y_null, "index": index_kind,
              "drop_rows": dropname, "entry": "model_matrix", "output": "pandas", "frame": df.to_dict("list"), "frame_index": list(df.index)}
    key = "core %r a_null=%s A_null=%s y_null=%s index=%s drop=%s" % (formula, a_null, A_null, y_null, index_kind, dropname)
    check_drop(col, key, formula, df, nulls, dropname, "model_matrix", "pandas", detail)
    col.sample(detail)


def drv_entries(c, ctx, col):
    """null patterns with <= 2 nulls x entry points x outputs x drop sets"""
    n = ctx["n"]
    formula = c.pick(ctx["formulas"])
    entry = c.pick(ENTRIES)
    output = c.pick(["pandas", "numpy", "sparse"])
    a_null, A_null = pattern(c, n, ctx["max_nulls"]), pattern(c, n, ctx["max_nulls"])
    if len(a_null) + len(A_null) > ctx["max_nulls"]:
        raise Skip()
    y_null = pattern(c, n, 1) if "y" in FORMULAS[formula][0] else ()
    index_kind = c.pick(["default", "nonunique"])
    dropname = c.pick(["none", "empty", "{0}"])
    df = make_frame(n, a_null, A_null, y_null, index_kind)
    nulls = null_rows(formula, a_null, A_null, y_null)
    detail = {"formula": formula, "a_null": a_null, "A_null": A_null, "y_null": y_null, "index": index_kind,
              "drop_rows": dropname, "entry": entry, "output": output, "frame": df.to_dict("list"), "frame_index": list(df.index)}
    key = "entries %r a_null=%s A_null=%s y_null=%s index=%s drop=%s entry=%s output=%s" % (
        formula, a_null, A_null, y_null, index_kind, dropname, entry, output)
    check_drop(col, key, formula, df, nulls, dropname, entry, output, detail)
    col.sample(detail)


def drv_dtypes(c, ctx, col):
    """the same rows must be removed whatever dtype carries the nulls (NaN, None, pandas.NA in nullable / string / categorical columns)"""
    n = ctx["n"]
    formula = c.pick(ctx["formulas"])
    a_dtype = c.pick(A_DTYPES)
    t_dtype = c.pick(T_DTYPES)
    a_null, A_null = pattern(c, n, 2), pattern(c, n, 2)
    if len(a_null) + len(A_null) > 2 or len(a_null) + len(A_null) == 0:
        raise Skip()
    y_null = ()
    output = c.pick(["pandas", "sparse"])
    dropname = c.pick(["none", "empty"])
    df = make_frame(n, a_null, A_null, y_null, "strings", a_dtype, t_dtype)
    nulls = null_rows(formula, a_null, A_null, y_null)
    detail = {"formula": formula, "a_dtype": a_dtype, "A_dtype": t_dtype, "a_null": a_null, "A_null": A_null, "drop_rows": dropname,
              "output": output, "dtypes": {k: str(v) for k, v in df.dtypes.items()}}
    key = "dtypes %r a:%s A:%s a_null=%s A_null=%s drop=%s output=%s" % (formula, a_dtype, t_dtype, a_null, A_null, dropname, output)
    check_drop(col, key, formula, df, nulls, dropname, "model_matrix", output, detail)
    # and the raise policy
    err = None
    try:
        model_matrix(formula, df, na_action="raise", output=output)
    except Exception as e:  # noqa
        err = e
    if bool(nulls) != (err is not None):
        col.violation(key + " policy=raise", dict(detail, raised=repr(err), null_rows=sorted(nulls)),
                      sig="raise:" + ("no-error-despite-nulls" if nulls else "error-without-nulls"))
    col.sample(detail)


def drv_narwhals(c, ctx, col):
    """the same policy under the narwhals materializer (pandas frame or pyarrow table as input)"""
    import pyarrow as pa
    n = ctx["n"]
    formula = c.pick(ctx["formulas"])
    source = c.pick(["narwhals/pandas", "narwhals/arrow"])
    output = c.pick(["pandas", "numpy", "sparse", "default"])  # default: the materializer's own output type (the native frame)
    a_null, A_null = pattern(c, n, 2), pattern(c, n, 2)
    if len(a_null) + len(A_null) > 2:
        raise Skip()
    y_null = pattern(c, n, 1) if "y" in FORMULAS[formula][0] else ()
    dropname = c.pick(["none", "empty", "{0}"])
    policy = c.pick(["drop", "raise"])
    index_kind = c.pick(["default", "strings", "nonunique"]) if source == "narwhals/pandas" else "default"
    df = make_frame(n, a_null, A_null, y_null, index_kind)
    data = pa.Table.from_pandas(df, preserve_index=False) if source == "narwhals/arrow" else df
    nulls = null_rows(formula, a_null, A_null, y_null)
    caller = DROPSETS[dropname]
    key = "narwhals %r source=%s a_null=%s A_null=%s y_null=%s drop=%s output=%s policy=%s index=%s" % (
        formula, source, a_null, A_null, y_null, dropname, output, policy, index_kind)
    detail = {"formula": formula, "source": source, "a_null": a_null, "A_null": A_null, "y_null": y_null, "drop_rows": dropname,
              "output": output, "policy": policy}
    opts = {"output": output} if output != "default" else {}
    if source == "narwhals/pandas":
        opts["materializer"] = "narwhals"
    if policy == "raise":
        err = None
        try:
            model_matrix(formula, data, na_action="raise", **opts)
        except Exception as e:  # noqa
            err = e
        if nulls:
            col.interesting()
        if bool(nulls) != (err is not None):
            col.violation(key, dict(detail, raised=repr(err), null_rows=sorted(nulls)),
                          sig="narwhals:raise:" + ("no-error-despite-nulls" if nulls else "error-without-nulls"))
        return
    kept = [i for i in range(n) if i not in (caller or ()) and i not in nulls]
    removed = set(range(n)) - set(kept)
    if kept and removed:
        col.interesting()
    drop = set(caller) if caller is not None else None
    try:
        got = model_matrix(formula, data, drop_rows=drop, **opts)
    except Exception as e:  # noqa
        col.violation(key, dict(detail, error="%s: %s" % (type(e).__name__, str(e)[:200])), sig="narwhals:raised:" + type(e).__name__)
        return
    if not kept:
        return
    want = model_matrix(formula, df.iloc[kept], na_action="ignore", output=output if output != "default" else "pandas")
    for j, (g, w) in enumerate(zip(parts_of(got), parts_of(want))):
        G, W = dense(g), dense(w)
        if source == "narwhals/arrow" and output == "default" and W.shape[1] == 0:
            col.count("unspecified:arrow-table-without-columns-has-no-rows")
            continue
        if G.shape != W.shape or not np.allclose(G, W, rtol=1e-12, atol=1e-12, equal_nan=True):
            col.violation(key, dict(detail, part=j, got=G.tolist(), want=W.tolist(), kept=kept), sig="narwhals:wrong-rows")
            return
        if output in ("pandas", "default") and source == "narwhals/pandas" and list(g.index) != list(df.index[kept]):
            col.violation(key, dict(detail, part=j, index=list(g.index), expected_index=list(df.index[kept])), sig="narwhals:wrong-index")
            return
    if drop is not None and {int(i) for i in drop} != removed:
        col.violation(key, dict(detail, drop_set_after=sorted(int(i) for i in drop), expected=sorted(removed)), sig="narwhals:drop-set-not-updated")
    col.sample(detail)


def drv_2d(c, ctx, col):
    """a factor that evaluates to a 2-D array: a row is null iff one of its cells is NaN (infinities are not nulls)"""
    n = 3
    cells = [c.pick(ctx.get("cells", [1.5, np.nan, np.inf, -np.inf])) for _ in range(2 * n)]
    m = np.array(cells, dtype=float).reshape(n, 2)
    a_null = c.pick([(), (1,)])
    policy = c.pick(["drop", "raise"])
    output = "pandas"
    dropname = "empty"
    df = make_frame(n, a_null, (), (), "strings")
    nulls = {i for i in range(n) if np.isnan(m[i]).any()} | set(a_null)
    key = "2d m=%s a_null=%s policy=%s output=%s drop=%s" % (m.tolist(), a_null, policy, output, dropname)
    detail = {"formula": "m + a", "m": m.tolist(), "a_null": a_null, "policy": policy, "output": output, "drop_rows": dropname}
    caller = DROPSETS[dropname]
    drop = set(caller) if caller is not None else None
    kept = [i for i in range(n) if i not in nulls]
    if nulls and kept:
        col.interesting()
    err, got = None, None
    try:
        got = model_matrix("m + a", df, context={"m": m}, na_action=policy, output=output, drop_rows=drop)
    except Exception as e:  # noqa
        err = e
    if policy == "raise":
        if bool(nulls) != (err is not None):
            col.violation(key, dict(detail, raised=repr(err), null_rows=sorted(nulls)), sig="2d:raise:" + ("no-error-despite-nulls" if nulls else "error-without-nulls"))
        return
    if err is not None:
        col.violation(key, dict(detail, error=repr(err)), sig="2d:drop:raised:" + type(err).__name__)
        return
    G = dense(got)
    if G.shape[0] != len(kept):
        col.violation(key, dict(detail, rows=int(G.shape[0]), kept=kept), sig="2d:drop:wrong-row-count")
        return
    if output == "pandas" and list(got.index) != list(df.index[kept]):
        col.violation(key, dict(detail, index=list(got.index), expected=list(df.index[kept])), sig="2d:drop:wrong-index")
        return
    if drop is not None and {int(i) for i in drop} != set(range(n)) - set(kept):
        col.violation(key, dict(detail, drop_set_after=sorted(int(i) for i in drop)), sig="2d:drop:drop-set-not-updated")
    col.sample(detail)


ZVALS = [0.5, 4.0, -1.25, 9.0]
CONTAINERS = ["list-nan", "list-None", "ndarray", "series", "dict-int-keys", "dict-str-keys", "ndarray-2d", "constant-float", "constant-int", "constant-numpy-scalar"]


def container(kind, vals):
    """the factor values `vals` (None = null) held in one of the containers the null handling dispatches on"""
    f = [np.nan if v is None else float(v) for v in vals]
    if kind == "list-nan":
        return list(f)
    if kind == "list-None":
        return list(vals)
    if kind == "ndarray":
        return np.array(f)
    if kind == "series":
        return pd.Series(f)
    if kind == "dict-int-keys":
        return {1: np.array(f), 2: np.array(f) * 2 + 1}
    if kind == "dict-str-keys":
        return {"u": np.array(f), "v": np.array(f) * 2 + 1}
    if kind == "ndarray-2d":
        return np.column_stack([np.array(f), np.ones(len(f))])
    if kind == "constant-float":
        return 2.5
    if kind == "constant-int":
        return 3
    if kind == "constant-numpy-scalar":
        return np.int64(3)
    raise AssertionError(kind)


def drv_containers(c, ctx, col):
    """a factor taken from the context, held in every container type the null handling knows (list, array, series, dict with integer /
    string keys, 2-D array, sparse matrix) x EVERY null pattern over it x <= 1 null in a x drop set x output x policy"""
    n = ctx["n"]
    kind = c.pick(CONTAINERS)
    formula = c.pick(["z", "z + a", "a + z"])
    z_null = pattern(c, n)
    if kind.startswith("constant") and z_null:
        raise Skip()  # a constant has no rows of its own to be null in
    a_null = c.pick([(), (1,)])
    dropname = c.pick(["none", "empty", "{0}", "{0,2}"])
    output = c.pick(["pandas", "numpy", "sparse"])
    policy = c.pick(["drop", "raise"])
    df = make_frame(n, a_null, (), (), "strings")
    vals = [None if i in z_null else ZVALS[i] for i in range(n)]
    nulls = set(z_null) | (set(a_null) if "a" in formula else set())
    caller = DROPSETS[dropname]
    if caller is not None and any(i >= n for i in caller):
        raise Skip()
    key = "containers %r z=%s z_null=%s a_null=%s drop=%s output=%s policy=%s" % (formula, kind, z_null, a_null, dropname, output, policy)
    detail = {"formula": formula, "z_container": kind, "z": vals, "a_null": a_null, "drop_rows": dropname, "output": output, "policy": policy}
    drop = set(caller) if caller is not None else None
    err, got = None, None
    try:
        got = model_matrix(formula, df, context={"z": container(kind, vals)}, na_action=policy, output=output, drop_rows=drop)
    except Exception as e:  # noqa
        err = e
    if policy == "raise":
        if nulls:
            col.interesting()
        if bool(nulls) != (err is not None):
            col.violation(key, dict(detail, raised=repr(err), null_rows=sorted(nulls)), sig="containers:raise:" + ("no-error-despite-nulls" if nulls else "error-without-nulls"))
        return
    kept = [i for i in range(n) if i not in (caller or ()) and i not in nulls]
    removed = set(range(n)) - set(kept)
    if len(removed) >= 2 and kept:
        col.interesting()
    if err is not None:
        col.violation(key, dict(detail, error="%s: %s" % (type(err).__name__, str(err)[:200])), sig="containers:drop:raised:" + type(err).__name__)
        return
    G = dense(got)
    if G.shape[0] != len(kept):
        col.violation(key, dict(detail, rows=int(G.shape[0]), kept=kept), sig="containers:drop:wrong-row-count")
        return
    if kept:
        want = dense(model_matrix(formula, df.iloc[kept], context={"z": container(kind, [vals[i] for i in kept])}, na_action="ignore", output=output))
        if G.shape != want.shape or not np.allclose(G, want, rtol=1e-12, atol=1e-12, equal_nan=True):
            col.violation(key, dict(detail, got=G.tolist(), want=want.tolist(), kept=kept), sig="containers:drop:wrong-rows")
            return
    if output == "pandas" and list(got.index) != list(df.index[kept]):
        col.violation(key, dict(detail, index=list(got.index), expected=list(df.index[kept])), sig="containers:drop:wrong-index")
        return
    if drop is not None and {int(i) for i in drop} != removed:
        col.violation(key, dict(detail, drop_set_after=sorted(int(i) for i in drop), expected=sorted(removed)), sig="containers:drop:drop-set-not-updated")
    col.sample(detail)


def drv_reuse(c, ctx, col):
    """a fitted spec applied to data with nulls (drop policy travels with the spec)"""
    n = ctx["n"]
    formula = c.pick(ctx["formulas"])
    a_null, A_null = pattern(c, n, ctx["max_nulls"]), pattern(c, n, ctx["max_nulls"])
    if len(a_null) + len(A_null) > ctx["max_nulls"]:
        raise Skip()
    y_null = pattern(c, n, 1) if "y" in FORMULAS[formula][0] else ()
    index_kind = c.pick(["default", "strings", "nonunique"])
    dropname = c.pick(["none", "empty", "{0}"])
    output = c.pick(["pandas", "sparse"])
    via = c.pick(["spec.get_model_matrix", "model_matrix(spec, data)"])
    clean = make_frame(n, (), (), (), "default")
    df = make_frame(n, a_null, A_null, y_null, index_kind)
    nulls = null_rows(formula, a_null, A_null, y_null)
    caller = DROPSETS[dropname]
    kept = [i for i in range(n) if i not in (caller or ()) and i not in nulls]
    removed = set(range(n)) - set(kept)
    if kept and removed:
        col.interesting()
    key = "reuse %r a_null=%s A_null=%s y_null=%s index=%s drop=%s output=%s via=%s" % (formula, a_null, A_null, y_null, index_kind, dropname, output, via)
    detail = {"formula": formula, "a_null": a_null, "A_null": A_null, "y_null": y_null, "index": index_kind, "drop_rows": dropname,
              "output": output, "via": via}
    fitted = model_matrix(formula, clean, output=output)
    spec = fitted.model_spec
    full = dense_parts(spec_apply(via, spec, clean, None))
    drop = set(caller) if caller is not None else None
    try:
        got = spec_apply(via, spec, df, drop)
    except Exception as e:  # noqa
        col.violation(key, dict(detail, error="%s: %s" % (type(e).__name__, str(e)[:200])), sig="reuse:raised:" + type(e).__name__)
        return
    for j, (g, f) in enumerate(zip(parts_of(got), full)):
        G = dense(g)
        W = f[kept, :]
        if G.shape != W.shape or not np.allclose(G, W, rtol=1e-12, atol=1e-12):
            col.violation(key, dict(detail, part=j, got=G.tolist(), want=W.tolist(), kept=kept), sig="reuse:wrong-rows")
            return
        if output == "pandas" and list(g.index) != list(df.index[kept]):
            col.violation(key, dict(detail, part=j, index=list(g.index), expected_index=list(df.index[kept])), sig="reuse:wrong-index")
            return
    if drop is not None and {int(i) for i in drop} != removed:
        col.violation(key, dict(detail, drop_set_after=sorted(int(i) for i in drop), expected=sorted(removed)), sig="reuse:drop-set-not-updated")
    col.sample(detail)


def spec_apply(via, spec, data, drop):
    if via == "spec.get_model_matrix":
        return spec.get_model_matrix(data, drop_rows=drop)
    return model_matrix(spec, data, drop_rows=drop)


def dense_parts(mm):
    return [dense(p) for p in parts_of(mm)]


def drv_policies(c, ctx, col):
    """raise: an error iff some evaluated factor has a null; ignore: every row kept"""
    n = ctx["n"]
    formula = c.pick(ctx["formulas"])
    policy = c.pick(["raise", "ignore"])
    entry = c.pick(ctx["entries"])
    a_null, A_null = pattern(c, n), pattern(c, n)
    y_null = pattern(c, n, 1) if "y" in FORMULAS[formula][0] else ()
    index_kind = c.pick(["default", "nonunique"])
    output = c.pick(ctx["outputs"])
    dropname = c.pick(ctx.get("raise_dropsets", ["none", "{0}", "{0,2}"])) if policy == "raise" else "none"
    caller = DROPSETS[dropname]
    if "hashed" in formula and "matrix" in entry or "hashed" in formula and "spec" in entry:
        raise Skip()
    df = make_frame(n, a_null, A_null, y_null, index_kind)
    nulls = null_rows(formula, a_null, A_null, y_null)
    key = "policy=%s %r a_null=%s A_null=%s y_null=%s index=%s entry=%s output=%s drop=%s" % (policy, formula, a_null, A_null, y_null, index_kind, entry, output, dropname)
    detail = {"formula": formula, "policy": policy, "a_null": a_null, "A_null": A_null, "y_null": y_null, "index": index_kind,
              "entry": entry, "output": output}
    if nulls:
        col.interesting()
    err = None
    try:
        got = call(entry, formula, df, set(caller) if caller is not None else None, {"output": output, "na_action": policy})
    except Exception as e:  # noqa
        err = e
    if policy == "raise":
        if bool(nulls) != (err is not None):
            col.violation(key, dict(detail, raised=repr(err), null_rows=sorted(nulls)), sig="raise:" + ("no-error-despite-nulls" if nulls else "error-without-nulls"))
    else:
        if err is not None:
            # 'ignore' passes nulls on to the encoders; an encoder that cannot represent them may raise - not specified
            col.count("ignore-raised")
            return
        for j, g in enumerate(parts_of(got)):
            G = dense(g)
            if G.shape[0] != n:
                col.violation(key, dict(detail, part=j, rows=int(G.shape[0])), sig="ignore:rows-removed")
                return
            if output == "pandas" and list(g.index) != list(df.index):
                col.violation(key, dict(detail, part=j, index=list(g.index)), sig="ignore:wrong-index")
                return
    col.sample(detail)


def subchecks(tier, seed):
    quick = tier == "quick"
    n = 3 if quick else 4
    allf = list(FORMULAS)
    pe = ["model_matrix", "ModelSpec.get_model_matrix(**overrides)", "model_matrix(matrix, **overrides)", "PandasMaterializer.get_model_matrix",
          "model_matrix(spec, **overrides)", "PandasMaterializer.get_model_matrix(matrix, **overrides)"]
    return [
        Sub("drop-core", drv_core, {"n": n, "formulas": allf, "dropsets": ["none", "{0,2}"] if quick else list(DROPSETS)},
            shard_depth=3, bounds={"rows": n, "null_patterns": "all 2^(2n) over a, A; <=1 null in y", "index_kinds": list(INDEXES), "formulas": allf}),
        Sub("drop-entries", drv_entries, {"n": 3, "formulas": allf, "max_nulls": 1 if quick else 2}, shard_depth=3,
            bounds={"rows": 3, "null_patterns": "<= %d nulls over a, A; <= 1 in y" % (1 if quick else 2), "entries": ENTRIES,
                    "outputs": ["pandas", "numpy", "sparse"]}),
        Sub("drop-dtypes", drv_dtypes, {"n": 3, "formulas": ["a", "A", "a + A", "a:A", "y ~ a", "C(A)", "{a+1}"]}, shard_depth=3,
            bounds={"rows": 3, "null carriers": {"a": A_DTYPES, "A": T_DTYPES}, "null_patterns": "1..2 nulls over a, A"}),
        Sub("drop-narwhals", drv_narwhals, {"n": 3, "formulas": [f for f in allf if "hashed" not in f]}, shard_depth=3,
            bounds={"rows": 3, "materializer": "narwhals on a pandas frame / on a pyarrow table", "null_patterns": "<= 2 nulls over a, A; <= 1 in y",
                    "policies": ["drop", "raise"]}),
        Sub("drop-2d-factor", drv_2d, {"cells": [1.5, np.nan, np.inf, -np.inf]} if not quick else {"cells": [np.inf, np.nan, -np.inf]}, shard_depth=3,
            bounds={"rows": 3, "cells": "every 3x2 array over {1.5, NaN, +inf, -inf} (quick: {NaN, +inf, -inf})", "plus": "<= 1 null in a", "policies": ["drop", "raise"]}),
        Sub("drop-factor-containers", drv_containers, {"n": 3 if quick else 4}, shard_depth=3,
            bounds={"rows": 3 if quick else 4, "containers": CONTAINERS, "null_patterns": "all 2^n over the context factor z; <= 1 null in a",
                    "drop_sets": ["none", "empty", "{0}", "{0,2}"], "outputs": ["pandas", "numpy", "sparse"], "policies": ["drop", "raise"]}),
        Sub("drop-reuse", drv_reuse, {"n": 3, "formulas": [f for f in allf if "hashed" not in f], "max_nulls": 1 if quick else 2}, shard_depth=3,
            bounds={"rows": 3, "fit": "clean frame", "apply": "frame with <= %d nulls over a, A; <= 1 in y" % (1 if quick else 2)}),
        Sub("policies", drv_policies, {"n": 3 if quick else 4, "formulas": allf, "entries": pe[:3] if quick else pe, "raise_dropsets": ["none", "{0,2}"] if quick else ["none", "{0}", "{0,2}"],
                                       "outputs": ["pandas"] if quick else ["pandas", "sparse"]}, shard_depth=3,
            bounds={"policies": ["raise", "ignore"], "null_patterns": "all over a, A"}),
    ]
