"""C07 - multi-part formulas give row-aligned parts equal to separate builds."""
import numpy as np
import pandas as pd

from mc.explorer import Skip
from mc.runner import Sub
from props.common import dense

from formulaic import Formula, ModelSpec, model_matrix
from formulaic.formula import StructuredFormula
from formulaic.utils.structured import Structured

RULE = (
    "Structured formulas (~, |, lhs=/rhs= keywords, tuples, nested keyword structure, root plus keys) over numeric y, w, x and "
    "text z with factors shared between parts x EVERY null pattern with <= K nulls over the 4x4 data cells x entry point x output.  "
    "The result and its spec must have the formula's nested shape; all parts the same rows and index; each part must equal the "
    "matrix of that part's terms built alone with the jointly dropped rows (computed by a reference null model) supplied as the "
    "drop set; each leaf spec must regenerate its part.  Non-trivial = some null falls in a variable used by only some of the parts."
)
ASSUMPTIONS = [
    "factors are element-wise, so the joint drop set is the union of the null rows of all variables the formula uses",
    "values of the separately built part come from the same library (differential); this check decides alignment, shape and joint dropping",
]

VARS = ["y", "w", "x", "z", "g"]
BASE = {"y": [10.0, 20.0, 30.0, 40.0], "w": [0.5, -1.5, 2.5, 4.0], "x": [1.0, 2.0, 4.0, 8.0], "z": ["p", "q", "p", "r"], "g": ["u", "v", "v", "u"]}
TEXT = ("z", "g")

# name -> (constructor, variables used)
SPECS = {
    "y ~ x": (lambda: Formula("y ~ x"), "yx"),
    "y ~ x + z": (lambda: Formula("y ~ x + z"), "yxz"),
    "y ~ x | z": (lambda: Formula("y ~ x | z"), "yxz"),
    "x | z": (lambda: Formula("x | z"), "xz"),
    "y | w ~ x | z": (lambda: Formula("y | w ~ x | z"), "ywxz"),
    "~ x | z": (lambda: Formula("~ x | z"), "xz"),
    "y ~ x + z | z + w": (lambda: Formula("y ~ x + z | z + w"), "ywxz"),
    "y ~ x:z | C(z) + {w+1}": (lambda: Formula("y ~ x:z | C(z) + {w+1}"), "ywxz"),
    "Formula(lhs='y', rhs='x + z')": (lambda: Formula(lhs="y", rhs="x + z"), "yxz"),
    "Formula(('x', 'z + w'))": (lambda: Formula(("x", "z + w")), "wxz"),
    "Formula(a='x + z', b={'lhs': 'y', 'rhs': 'w'})": (lambda: Formula(a="x + z", b={"lhs": "y", "rhs": "w"}), "ywxz"),
    "Formula('x', extra='z')": (lambda: Formula("x", extra="z"), "xz"),
    "Formula(lhs='y', rhs=('x', 'z'))": (lambda: Formula(lhs="y", rhs=("x", "z")), "yxz"),
    # the same categorical interaction / contrast-coded factor in parts whose preceding terms differ (rank reduction is per part)
    "y ~ z + z:g | g + z:g": (lambda: Formula("y ~ z + z:g | g + z:g"), "yzg"),
    "Formula(lhs='y', rhs=('x + z:g', '1 + z:g'))": (lambda: Formula(lhs="y", rhs=("x + z:g", "1 + z:g")), "yxzg"),
    "y ~ 0 + C(z, contr.helmert) | C(z, contr.helmert) + x": (lambda: Formula("y ~ 0 + C(z, contr.helmert) | C(z, contr.helmert) + x"), "yxz"),
    "y ~ 0 + C(g, contr.sum):x | C(g, contr.sum) + x": (lambda: Formula("y ~ 0 + C(g, contr.sum):x | C(g, contr.sum) + x"), "yxg"),
    "Formula(('0 + z', 'z', 'x:z'))": (lambda: Formula(("0 + z", "z", "x:z")), "xz"),
    # parts whose terms differ only by a literal scale or by the written factor order
    "y ~ 2:x + z | x + g": (lambda: Formula("y ~ 2:x + z | x + g"), "yxzg"),
    "y ~ x:z | z:x + w": (lambda: Formula("y ~ x:z | z:x + w"), "ywxz"),
    "Formula(('3:x:g', 'g:x', 'x'))": (lambda: Formula(("3:x:g", "g:x", "x")), "xg"),
    # a part without columns, and nested tuples
    "y ~ x | 0": (lambda: Formula("y ~ x | 0"), "yx"),
    "y + z ~ 0": (lambda: Formula("y + z ~ 0"), "yz"),
    "Formula(('x', ('z', 'y')))": (lambda: Formula(("x", ("z", "y"))), "yxz"),
    "Formula(lhs='y', rhs=('x', ('z', 'w')))": (lambda: Formula(lhs="y", rhs=("x", ("z", "w"))), "ywxz"),
    # structures with a single 'root' part: still structured results
    "StructuredFormula('x + z')": (lambda: StructuredFormula("x + z"), "xz"),
    "Formula.from_spec({'root': 'x + z'})": (lambda: Formula.from_spec({"root": "x + z"}), "xz"),
    # factors that need the caller's context (a function and a vector that are not in the data)
    "y ~ dbl(x) | z + cvec": (lambda: Formula("y ~ dbl(x) | z + cvec"), "yxz"),
    "Formula(('cvec:z', 'dbl(x)'))": (lambda: Formula(("cvec:z", "dbl(x)")), "xz"),
    # a factor held in a plain Python list (dropping rows from a list goes through its own code path), built before / between other parts
    "y ~ clist | x | z": (lambda: Formula("y ~ clist | x | z"), "yxz"),
    "Formula(('x', 'clist + z', 'y'))": (lambda: Formula(("x", "clist + z", "y")), "yxz"),
    # a multi-column numeric factor that spans the intercept: reduced in one part, needed whole in a later one (w never holds nulls here)
    "y ~ bs(w, df=4, include_intercept=True) + x | 0 + bs(w, df=4, include_intercept=True)":
        (lambda: Formula("y ~ bs(w, df=4, include_intercept=True) + x | 0 + bs(w, df=4, include_intercept=True)"), "yx"),
    "Formula(('bs(w, df=4, include_intercept=True)', 'z:bs(w, df=4, include_intercept=True)'))":
        (lambda: Formula(("bs(w, df=4, include_intercept=True)", "z:bs(w, df=4, include_intercept=True)")), "z"),
}
CTX = {"cvec": np.array([3.0, 1.0, 4.0, 1.5]), "dbl": lambda v: v * 2, "clist": [2.5, 0.5, 7.0, 1.25]}


def leaves(obj, path=()):
    """{path: leaf} for Structured / dict / tuple nests"""
    if isinstance(obj, Structured):
        obj = obj._to_dict()
    if isinstance(obj, dict):
        out = {}
        for k, v in obj.items():
            out.update(leaves(v, path + (k,)))
        return out
    if isinstance(obj, tuple):
        out = {}
        for i, v in enumerate(obj):
            out.update(leaves(v, path + (i,)))
        return out
    return {path: obj}



def make_frame(nulls, index_kind):
    cols = {}
    for v in VARS:
        vals = list(BASE[v])
        for (vv, i) in nulls:
            if vv == v:
                vals[i] = None if v in TEXT else np.nan
        cols[v] = pd.Series(vals, dtype=object) if v in TEXT else vals
    df = pd.DataFrame(cols)
    if index_kind == "strings":
        df.index = ["r%d" % i for i in range(4)]
    elif index_kind == "nonunique":
        df.index = [0, 0, 1, 1]
    return df


def drv(c, ctx, col):
    name = c.pick(ctx["specs"])
    mk, used = SPECS[name]
    used = [{"y": "y", "w": "w", "x": "x", "z": "z", "g": "g"}[ch] for ch in used]
    cells = [(v, i) for v in VARS for i in range(4) if v in used]
    k = c.upto(ctx["K"])
    nulls, start = [], 0
    for _ in range(k):
        j = start + c.choose(len(cells) - start)
        nulls.append(cells[j])
        start = j + 1
        if start >= len(cells) and len(nulls) < k:
            raise Skip()
    entry = c.pick(ctx["entries"])
    output = c.pick(ctx["outputs"])
    index_kind = c.pick(ctx["indexes"])
    df = make_frame(nulls, index_kind)
    formula = mk()
    joint = sorted({i for (v, i) in nulls if v in used})
    kept = [i for i in range(4) if i not in joint]
    key = "%s nulls=%s entry=%s output=%s index=%s" % (name, nulls, entry, output, index_kind)
    detail = {"formula": name, "nulls": nulls, "entry": entry, "output": output, "index": index_kind, "joint_drop": joint}
    per_var_parts = {}
    fl = leaves(formula)
    for path, leaf in fl.items():
        for v in used:
            if any(v in str(t) for t in leaf):
                per_var_parts.setdefault(v, set()).add(path)
    if any(v in used and len(per_var_parts.get(v, ())) < len(fl) for (v, i) in nulls):
        col.interesting()
    col.sample(detail)
    reported = set()  # the caller's (initially empty) drop set: must end up equal to the jointly dropped rows
    try:
        if entry == "model_matrix":
            got = model_matrix(formula, df, output=output, drop_rows=reported, context=CTX)
        elif entry == "Formula.get_model_matrix":
            got = formula.get_model_matrix(df, output=output, drop_rows=reported, context=CTX)
        elif entry == "materializer object after a failed call":
            # the same materializer object first serves a call that fails late (an unknown column in an extra last part) and then the real one
            from formulaic.materializers import PandasMaterializer
            m = PandasMaterializer(df, context=CTX)
            try:
                m.get_model_matrix(Formula((formula, "no_such_column_")) if not isinstance(formula, tuple) else formula, output=output)
            except Exception:  # noqa - expected
                pass
            got = m.get_model_matrix(formula, output=output, drop_rows=reported)
        else:
            got = ModelSpec.from_spec(formula, output=output).get_model_matrix(df, drop_rows=reported, context=CTX)
    except Exception as e:  # noqa
        col.violation(key, dict(detail, error="%s: %s" % (type(e).__name__, str(e)[:200])), sig="raised:" + type(e).__name__)
        return
    if {int(i) for i in reported} != set(joint):
        col.violation(key, dict(detail, reported_drop_set=sorted(int(i) for i in reported), expected=joint), sig="joint-drop-set-not-reported")
        return
    gl = leaves(got)
    if set(gl) != set(fl) or list(gl) != list(fl):
        col.violation(key, dict(detail, result_paths=[list(p) for p in gl], formula_paths=[list(p) for p in fl]), sig="shape:result")
        return
    sl = leaves(got.model_spec) if isinstance(got, Structured) else {("root",): got.model_spec}
    if list(sl) != list(fl):
        col.violation(key, dict(detail, spec_paths=[list(p) for p in sl], formula_paths=[list(p) for p in fl]), sig="shape:spec")
        return
    want_index = list(df.index[kept])
    # the attached (structured) spec as a whole regenerates the whole result, with the same joint rows
    if isinstance(got, Structured):
        try:
            regen_all = leaves(got.model_spec.get_model_matrix(df, context=CTX))
        except Exception as e:  # noqa
            col.violation(key, dict(detail, error="%s: %s" % (type(e).__name__, str(e)[:200])), sig="structured-spec-regeneration-raised:" + type(e).__name__)
            return
        for path, part in gl.items():
            G, R = dense(part), dense(regen_all.get(path))
            if R.shape != G.shape or not np.allclose(R, G, rtol=1e-12, atol=1e-12, equal_nan=True):
                col.violation(key, dict(detail, path=list(path), shape=list(G.shape), regenerated_shape=list(R.shape)), sig="structured-spec-does-not-regenerate-result")
                return
        # ... and so it does when an option is passed along (here: the output type it already has)
        try:
            regen_over = leaves(got.model_spec.get_model_matrix(df, context=CTX, output=output))
        except Exception as e:  # noqa
            col.violation(key, dict(detail, error="%s: %s" % (type(e).__name__, str(e)[:200])), sig="structured-spec-regeneration-with-override-raised:" + type(e).__name__)
            return
        for path, part in gl.items():
            G, R = dense(part), dense(regen_over.get(path))
            if R.shape != G.shape or not np.allclose(R, G, rtol=1e-12, atol=1e-12, equal_nan=True):
                col.violation(key, dict(detail, path=list(path), shape=list(G.shape), regenerated_shape=list(R.shape)), sig="structured-spec-with-override-does-not-regenerate-result")
                return
    for path, part in gl.items():
        G = dense(part)
        if G.shape[0] != len(kept):
            col.violation(key, dict(detail, path=list(path), rows=int(G.shape[0]), expected=len(kept)), sig="rows:count")
            return
        if output == "pandas" and list(part.index) != want_index:
            col.violation(key, dict(detail, path=list(path), index=list(part.index), expected=want_index), sig="rows:index")
            return
        # the part built alone with the joint drop set
        alone = fl[path].get_model_matrix(df, drop_rows=set(joint), output=output, context=CTX)
        A = dense(alone)
        if A.shape != G.shape or not np.allclose(A, G, rtol=1e-12, atol=1e-12, equal_nan=True):
            col.violation(key, dict(detail, path=list(path), joint=G.tolist(), alone=A.tolist()), sig="part-differs-from-separate-build")
            return
        if list(alone.model_spec.column_names) != list(part.model_spec.column_names):
            col.violation(key, dict(detail, path=list(path), joint_names=list(part.model_spec.column_names),
                                    alone_names=list(alone.model_spec.column_names)), sig="part-names-differ")
            return
        # the leaf spec regenerates its own part
        regen = sl[path].get_model_matrix(df, drop_rows=set(joint), context=CTX)
        R = dense(regen)
        if R.shape != G.shape or not np.allclose(R, G, rtol=1e-12, atol=1e-12, equal_nan=True):
            col.violation(key, dict(detail, path=list(path), part=G.tolist(), regenerated=R.tolist()), sig="spec-does-not-regenerate-part")
            return
        # ... and also when an attribute override (here: the output type it already has) rides along with the drop set
        supplied = set(joint)
        regen2 = sl[path].get_model_matrix(df, drop_rows=supplied, context=CTX, output=output)
        R2 = dense(regen2)
        if R2.shape != G.shape or not np.allclose(R2, G, rtol=1e-12, atol=1e-12, equal_nan=True) or not supplied >= set(joint):
            col.violation(key, dict(detail, path=list(path), part=G.tolist(), regenerated=R2.tolist(), drop_set=sorted(supplied)),
                          sig="spec-with-override-does-not-regenerate-part")
            return


def subchecks(tier, seed):
    quick = tier == "quick"
    names = list(SPECS)
    return [
        Sub("parts", drv, {"specs": names, "K": 2 if quick else 3, "entries": ["model_matrix"] if quick else ["model_matrix", "Formula.get_model_matrix", "ModelSpec.get_model_matrix"],
                           "outputs": ["pandas"], "indexes": ["default"]},
            shard_depth=3, bounds={"structures": names, "rows": 4, "max_nulls": 2 if quick else 3, "cells": 16}),
        Sub("parts-entries-outputs", drv, {"specs": names, "K": 1, "entries": ["model_matrix", "Formula.get_model_matrix", "ModelSpec.get_model_matrix", "materializer object after a failed call"],
                                           "outputs": ["pandas", "numpy", "sparse"], "indexes": ["default", "strings", "nonunique"]},
            shard_depth=3, bounds={"structures": names, "rows": 4, "max_nulls": 1, "entries": 3, "outputs": 3, "indexes": 3}),
    ]
