"""C19 - Structured, LayeredMapping and formula containers obey their container laws.

Every sub-check drives the REAL classes (formulaic.utils.structured.Structured, formulaic.utils.layered_mapping.
LayeredMapping, formulaic.formula.SimpleFormula, formulaic.parser.types.OrderedSet) and compares every observation
with the plain-python reference models in models/containers_ref.py.
"""
import collections
import copy
import pickle
import types
from collections.abc import Mapping

import pandas

from formulaic.errors import FormulaInvalidError
from formulaic.formula import OrderingMethod, SimpleFormula
from formulaic.parser.types import Factor, OrderedSet, Term
from formulaic.utils.layered_mapping import LayeredMapping
from formulaic.utils.structured import Structured

from mc.explorer import Skip
from mc.runner import Sub
from models import containers_ref as R

RULE = (
    "Structured: every shape (top-level Structured; children = integer leaf / tuple of <= 2 nodes / Structured with "
    "optional root and keys a, b, both key orders at the top) up to the nesting-depth and node-count bounds, wrapped "
    "0-2 times in Structured(...), x every operation group (map, flatten, to_dict, simplify with every flag "
    "combination, access, equality/pickle, update/assignment); every ordered pair (thorough: also triples) of small "
    "nodes for _merge / == / _update, with a custom merger and with the default merger on list leaves.  "
    "LayeredMapping: every stack of <= 3 layers (plain dict / unnamed / named 'x' / named 'y' nested LayeredMapping; "
    "every subset of {k1,k2,k3} per layer, or for tall stacks the covering family in which each key takes every "
    "presence pattern; sub-checks layered-kinds*: every layer additionally ranges over the kind of mapping object "
    "supplied - dict, defaultdict(list), defaultdict(int), Counter, dict subclass with __missing__, MappingProxyType, "
    "ChainMap, a user-defined Mapping, a pandas DataFrame, nested LayeredMapping over dict / defaultdict) x every "
    "history of mutating events up to the bound (set, del, named_layers, with_layers in its "
    "prepend/inplace/name/layer-kind variants); after EVERY event the lookup of every key (value and source-layer "
    "name), the length and the supplied dicts are compared with the model, and at the end of every history (every "
    "prefix of a history is itself an enumerated history) every read operation (in, [], get, get_with_layer_name, "
    "get_layer_name_for_key, iter, len, items, named_layers, attribute access) on the mapping and all mappings it was "
    "derived from.  SimpleFormula: every history up to the bound over insert/append/setitem/del/extend/reverse/"
    "slice-delete (wide alphabet: also slice-assign/pop/remove/+=) with 5-6 terms, for the 3 ordering modes and 2 "
    "initial formulas; exact content and ordering invariant after every event, all reads at the end of every history.  "
    "Blind variants (formula-sequence-blind*, layered-aliasing*): the same histories with NO read between two events "
    "(comparison only at the end), so that state repaired by a read cannot hide a wrong write; layered-aliasing "
    "additionally addresses events to the ORIGINAL mapping after mappings were derived from it (it is a live layer "
    "of them) and lets the owner of a supplied dict write to it.  structured-map-raise: callbacks (3 signatures) that "
    "raise a TypeError subclass / ValueError at each leaf in turn.  formula-slice-assign: f[i:j] = [terms] for 6 "
    "slices x every replacement list.  Wave 5: the formula histories contain copy.copy / copy.deepcopy events (the "
    "history continues on the copy, every copied original must stay unchanged and ordered); layered-stacks / "
    "layered-kinds* also run with None as a stored value (one rotating key per layer) and a `m[k] = None` event; "
    "structured-merge re-uses objects across operands (_merge(a, a), _merge(a, a._update(b=..)), equal interned "
    "leaves) with the non-idempotent mergers.  OrderedSet: every ordered pair of item sequences.  Non-trivial = the case has at least one leaf / one layer / "
    "one mutation / one item (counted once per execution)."
)
ASSUMPTIONS = [
    "a supplied layer is anything that supports `key in layer`, `layer[key]` and iteration; the reference model reads "
    "layers only through `key in layer` semantics, so mapping types with __missing__ (defaultdict, Counter, dict "
    "subclasses) must neither answer for absent keys nor be mutated by reads",
    "small-scope hypothesis: recursion over keyed/tuple structure, layer search order and re-sorting have no mechanism "
    "that first fails beyond the explored depth / leaf / layer / history bounds",
    "read operations of LayeredMapping and SimpleFormula are side-effect free except the cached `named_layers` "
    "(which is therefore an explicit history event); the other reads are evaluated after events / at the end of every "
    "history (= after every prefix) instead of being interleaved as events, which subsumes every interleaving under "
    "that assumption",
    "where the docstrings are silent the behaviour pinned by the repository's own tests is taken as the contract: "
    "tuples are concatenated by Structured._merge, misaligned tuple/non-tuple structure raises ValueError, deleting a "
    "key that only lives in a supplied layer raises KeyError, layer names are ':'-joined along the path",
    "unspecified and therefore not demanded: the order of _flatten (only its agreement with _map), the iteration order "
    "of a LayeredMapping, which of several equally named layers `named_layers` returns when depth-first and "
    "breadth-first 'first' differ, element order of OrderedSet intersection, tie order after SimpleFormula.reverse() "
    "in degree mode",
    "layers are referenced, not copied ('passing key lookups through the stack'): later changes of a supplied dict by "
    "its owner, and of the original mapping after `with_layers(..., inplace=False)` derived another one from it, show "
    "through; `SimpleFormula.__setitem__` declares a slice overload, so slice replacement is list semantics + re-sort",
]


# =========================================================================================================
# Structured
# =========================================================================================================

class SubStructured(Structured):
    __slots__ = ()


def st_build(node, leaf=None):
    if isinstance(node, R.MS):
        kw = {k: st_build(v, leaf) for k, v in node.items.items() if k != "root"}
        if "root" in node.items:
            return Structured(st_build(node.items["root"], leaf), **kw)
        return Structured(**kw)
    if isinstance(node, tuple):
        return tuple(st_build(v, leaf) for v in node)
    return leaf(node) if leaf else node


def st_obs(o):
    """real object -> model form, read from the documented `_structure` attribute (not via the methods under test)"""
    if isinstance(o, Structured):
        return R.MS((k, st_obs(v)) for k, v in o._structure.items())
    if isinstance(o, tuple):
        return tuple(st_obs(v) for v in o)
    return o


def st_flat(o):
    """_flatten() with directly nested tuples expanded, so that the nested-tuple finding does not cascade"""
    out = []

    def ex(v):
        if isinstance(v, tuple):
            for x in v:
                ex(x)
        elif isinstance(v, Structured):
            for x in v._flatten():
                ex(x)
        else:
            out.append(v)
    if isinstance(o, Structured):
        for v in o._flatten():
            ex(v)
    else:
        ex(o)
    return out


class ShapeGen:
    """choice-driven generator of every shape with at most `max_nodes` nodes (leaves, tuples and nested Structured
    instances all count) and nesting depth <= depth; leaves are numbered 1, 2, ... in generation order"""

    def __init__(self, c, max_nodes, tuple_max=2, swap=True):
        self.c, self.left, self.n, self.tuple_max, self.swap = c, max_nodes, 0, tuple_max, swap

    def node(self, depth):
        if self.left <= 0:
            raise Skip()
        self.left -= 1
        k = self.c.choose(3 if depth > 0 else 1)
        if k == 0:
            self.n += 1
            return self.n
        if k == 1:
            out = []
            while len(out) < self.tuple_max and self.left > 0 and self.c.flag():
                out.append(self.node(depth - 1))
            return tuple(out)
        return self.struct(depth)

    def struct(self, depth, top=False):
        items = {}
        for key in ("a", "b", "root"):
            if self.left > 0 and self.c.flag():
                items[key] = self.node(depth - 1)
        if top and self.swap and "a" in items and "b" in items and self.c.flag():
            items = {k: items[k] for k in ("b", "a", "root") if k in items}
        return R.MS(items)


def gen_top(c, ctx):
    g = ShapeGen(c, ctx["nodes"], swap=ctx.get("swap", True))
    node = g.struct(ctx["depth"], top=True)
    for _ in range(c.upto(ctx.get("wraps", 2))):
        node = R.MS({"root": node})
    return node, g.n


def _viol(col, sig, what, node, got, want, call):
    expr = R.st_expr(node)
    col.violation("structured/%s :: %s :: %s" % (sig, what, expr),
                  {"shape": expr, "call": call, "got": repr(got), "want": repr(want),
                   "repro": "from formulaic.utils.structured import Structured; s = %s; print(%s)" % (expr, call)},
                  sig=sig)


def op_map(col, node, s):
    real_flat = st_flat(s)
    # one-argument callback
    seen = []
    r1 = s._map(lambda x: (seen.append(x), x * 10)[1])
    want = R.st_map(node, lambda x, p: x * 10)
    if st_obs(r1) != want or type(r1) is not Structured:
        _viol(col, "map-skeleton", "_map(f)", node, st_obs(r1), want, "s._map(lambda x: x * 10)")
    leaves = [v for _, v in R.st_leaves(node)]
    if sorted(seen) != sorted(leaves):
        _viol(col, "map-visits", "_map(f) must call f exactly once per leaf", node, seen, leaves,
              "s._map(print)")
    elif seen != real_flat:
        _viol(col, "map-order", "_map visits leaves in _flatten order", node, seen, real_flat,
              "s._map(print), list(s._flatten())")
    # callback with context argument
    seen2 = []
    r2 = s._map(lambda x, ctx_: (seen2.append((ctx_, x)), [x, ctx_])[1])
    want2 = R.st_map(node, lambda x, p: [x, p])
    if st_obs(r2) != want2:
        _viol(col, "map-context", "_map(f(x, context)) result", node, st_obs(r2), want2, "s._map(lambda x, c: [x, c])")
    if sorted(seen2, key=repr) != sorted(R.st_leaves(node), key=repr):
        _viol(col, "map-context", "context passed to f is the path of the leaf", node, seen2, R.st_leaves(node),
              "s._map(lambda x, c: print(x, c))")
    elif [x for _, x in seen2] != seen:
        _viol(col, "map-order", "both callback forms visit in the same order", node, seen2, seen, "s._map(...)")
    for path, x in seen2:
        try:
            got = s[path]
        except Exception as e:  # noqa
            got = "%s" % type(e).__name__
        if got != x:
            _viol(col, "getitem-path", "s[context] is the leaf handed to f", node, got, x, "s[%r]" % (path,))
    # recurse=False: nested Structured instances are handed to f whole
    seen3 = []
    r3 = s._map(lambda x: (seen3.append(x), "T")[1], recurse=False)
    want_seen = []
    want3 = R.st_map_shallow(node, lambda x, p: (want_seen.append(x), "T")[1])
    if st_obs(r3) != want3:
        _viol(col, "map-norecurse", "_map(f, recurse=False) result", node, st_obs(r3), want3,
              "s._map(lambda x: 'T', recurse=False)")
    if [st_obs(x) for x in seen3] != want_seen:
        _viol(col, "map-norecurse", "_map(f, recurse=False) arguments", node, [st_obs(x) for x in seen3], want_seen,
              "s._map(print, recurse=False)")
    # as_type
    r4 = s._map(lambda x: x, as_type=SubStructured)
    if type(r4) is not SubStructured or st_obs(r4) != node:
        _viol(col, "map-skeleton", "_map(identity, as_type=Sub)", node, (type(r4).__name__, st_obs(r4)), node,
              "s._map(lambda x: x, as_type=Sub)")
    if st_obs(s) != node:
        _viol(col, "mutated-by-read", "_map mutated its receiver", node, st_obs(s), node, "s._map(...); s")


def op_flatten(col, node, s):
    got = list(s._flatten())
    leaves = [v for _, v in R.st_leaves(node)]
    if R.st_has_nested_tuple(node):
        col.count("shapes-with-directly-nested-tuple")
        if sorted(got, key=repr) != sorted(leaves, key=repr):
            _viol(col, "flatten-nested-tuple", "_flatten yields a tuple instead of its leaves", node, got, leaves,
                  "list(s._flatten())")
        if sorted(st_flat(s)) != sorted(leaves):
            _viol(col, "flatten-leaves", "_flatten (tuples expanded) yields every leaf once", node, st_flat(s), leaves,
                  "list(s._flatten())")
        return
    if sorted(got) != sorted(leaves):
        _viol(col, "flatten-leaves", "_flatten yields every leaf exactly once", node, got, leaves, "list(s._flatten())")
    if list(s._flatten()) != got:
        _viol(col, "flatten-leaves", "_flatten is repeatable", node, list(s._flatten()), got, "list(s._flatten())")


def op_to_dict(col, node, s):
    got, want = s._to_dict(), R.st_to_dict(node)
    if got != want or type(got) is not dict:
        _viol(col, "to-dict", "_to_dict()", node, got, want, "s._to_dict()")
    got2 = s._to_dict(recurse=False)

    def ob(v):
        if isinstance(v, tuple):
            return tuple(ob(x) for x in v)
        return st_obs(v)
    got2 = {k: ob(v) for k, v in got2.items()}
    want2 = R.st_to_dict(node, recurse=False)
    if got2 != want2:
        _viol(col, "to-dict", "_to_dict(recurse=False)", node, got2, want2, "s._to_dict(recurse=False)")
    if st_obs(s) != node:
        _viol(col, "mutated-by-read", "_to_dict mutated its receiver", node, st_obs(s), node, "s._to_dict(); s")


def op_simplify(col, node, build):
    for recurse in (True, False):
        for unwrap in (True, False):
            for inplace in ((False, True) if not unwrap else (False,)):
                s = build()
                call = "s._simplify(recurse=%s, unwrap=%s, inplace=%s)" % (recurse, unwrap, inplace)
                before = st_flat(s)
                r = s._simplify(recurse=recurse, unwrap=unwrap, inplace=inplace)
                want = R.st_simplify(node, recurse=recurse, unwrap=unwrap)
                if st_obs(r) != want:
                    _viol(col, "simplify-result", call, node, st_obs(r), want, call)
                if st_flat(r) != before:
                    _viol(col, "simplify-leaves", call + " changes _flatten", node, st_flat(r), before,
                          "list(%s._flatten())" % call)
                if isinstance(r, Structured):
                    rr = r._simplify(recurse=recurse, unwrap=unwrap, inplace=False)
                    if st_obs(rr) != st_obs(r):
                        _viol(col, "simplify-idempotent", call + " twice", node, st_obs(rr), st_obs(r),
                              "%s._simplify(recurse=%s, unwrap=%s)" % (call, recurse, unwrap))
                if inplace:
                    if r is not s:
                        _viol(col, "simplify-inplace", call + " must return self", node, "other object", "self",
                              call + " is s")
                    if st_obs(s) != want:
                        _viol(col, "simplify-inplace", call + " must simplify self", node, st_obs(s), want, call + "; s")
                elif st_obs(s) != node:
                    _viol(col, "simplify-mutates", call + " mutated its receiver", node, st_obs(s), node, call + "; s")
    s = build()
    try:
        s._simplify(unwrap=True, inplace=True)
        _viol(col, "simplify-inplace", "inplace + unwrap must raise RuntimeError", node, "no error", "RuntimeError",
              "s._simplify(unwrap=True, inplace=True)")
    except RuntimeError:
        pass
    if st_obs(s) != node:
        _viol(col, "simplify-mutates", "rejected call mutated its receiver", node, st_obs(s), node, "s")


def _exc(fn):
    try:
        return ("ok", fn())
    except Exception as e:  # noqa
        return ("raise", type(e).__name__)


def op_access(col, node, s):
    want_iter = R.st_iter(node)
    got_iter = [st_obs(v) for v in s]
    if got_iter != want_iter:
        _viol(col, "iter", "list(s)", node, got_iter, want_iter, "list(s)")
    if len(s) != len(want_iter):
        _viol(col, "len", "len(s)", node, len(s), len(want_iter), "len(s)")
    for k in ("root", "a", "b", "c"):
        if (k in s) != (k in node.items):
            _viol(col, "contains", "%r in s" % k, node, k in s, k in node.items, "%r in s" % k)
        got = _exc(lambda: st_obs(getattr(s, k)))
        want = ("ok", node.items[k]) if k in node.items else ("raise", "AttributeError")
        if got != want:
            _viol(col, "getattr", "s.%s" % k, node, got, want, "s.%s" % k)
        if node.has_keys or not node.has_root:
            # key lookup over the top-level values (a root-only instance delegates to its root: see below)
            got = _exc(lambda: st_obs(s[k]))
            want = ("ok", node.items[k]) if k in node.items else ("raise", "KeyError")
            if got != want:
                _viol(col, "getitem", "s[%r]" % k, node, got, want, "s[%r]" % k)
    if node.has_root and node.has_keys:
        got = _exc(lambda: st_obs(s[None]))
        if got != ("ok", node.items["root"]):
            _viol(col, "getitem", "s[None] is the root", node, got, node.items["root"], "s[None]")
    if node.has_root and not node.has_keys and isinstance(node.items["root"], tuple):
        for i in range(len(node.items["root"])):
            got = _exc(lambda: st_obs(s[i]))
            if got != ("ok", node.items["root"][i]):
                _viol(col, "getitem", "root-only s[i] is root[i]", node, got, node.items["root"][i], "s[%d]" % i)
    # path lookups: every leaf path resolves, one step beyond raises KeyError
    for path, leaf in R.st_leaves(node):
        got = _exc(lambda: s[path])
        if got != ("ok", leaf):
            _viol(col, "getitem-path", "s[path]", node, got, leaf, "s[%r]" % (path,))
        got = _exc(lambda: s[path + ("a",)])
        if got != ("raise", "KeyError"):
            _viol(col, "getitem-path", "s[path beyond a leaf] raises KeyError", node, got, "KeyError",
                  "s[%r]" % (path + ("a",),))
    if st_obs(s) != node:
        _viol(col, "mutated-by-read", "access mutated its receiver", node, st_obs(s), node, "s")


def op_eq_pickle(col, node, build):
    s, t = build(), build()
    if not (s == t) or (s != t):
        _viol(col, "equality", "equal shapes compare equal", node, False, True, "s == %s" % R.st_expr(node))
    w = Structured(s)
    if w == s:
        _viol(col, "equality", "Structured(s) != s", node, True, False, "Structured(s) == s")
    if s == st_obs(s) or s == s._to_dict():
        _viol(col, "equality", "a Structured never equals a non-Structured", node, True, False, "s == s._to_dict()")
    for proto in (2, pickle.HIGHEST_PROTOCOL):
        u = pickle.loads(pickle.dumps(s, proto))
        if type(u) is not Structured or st_obs(u) != node or not (u == s) or list(u._flatten()) != list(s._flatten()):
            _viol(col, "pickle", "pickle round trip (protocol %d)" % proto, node, st_obs(u), node,
                  "pickle.loads(pickle.dumps(s, %d))" % proto)
    u = copy.deepcopy(s)
    if st_obs(u) != node or u is s:
        _viol(col, "pickle", "copy.deepcopy", node, st_obs(u), node, "copy.deepcopy(s)")


UPDATES = [
    {}, {"root": 91}, {"a": 92}, {"c": (93, 94)}, {"root": R.MS({"a": 95})}, {"root": 96, "b": (97,)},
    {"b": R.MS({"root": (98, 99)}), "c": R.MS({"root": 90})},
]


def op_update(col, node, build):
    # several updates of ONE receiver: every result is its own dictionary merge, also after the later updates
    s = build()
    results = []
    for ch in UPDATES:
        r = s._update(**{k: st_build(v) for k, v in ch.items()})
        results.append((ch, r))
    for ch, r in results:
        want = R.st_update(node, ch)
        if st_obs(r) != want:
            _viol(col, "update-aliasing", "result of an earlier s._update(...) changed by later updates of s", node,
                  st_obs(r), want, "[s._update(**ch) for ch in several]")
    if st_obs(s) != node or any(r is s or r is q for i, (_, r) in enumerate(results) for _, q in results[:i]):
        _viol(col, "update-mutates", "repeated s._update(...) must leave s alone and return distinct objects", node,
              st_obs(s), node, "s._update(...); s")
    for ch in UPDATES:
        s = build()
        kw = {k: st_build(v) for k, v in ch.items()}
        call = "s._update(%s)" % ", ".join("%s=%s" % (k, R.st_expr(v)) for k, v in ch.items())
        r = s._update(**kw)
        want = R.st_update(node, ch)
        if st_obs(r) != want or type(r) is not Structured:
            _viol(col, "update-result", call, node, st_obs(r), want, call)
        if r is s or st_obs(s) != node:
            _viol(col, "update-mutates", call + " must return a new object and leave s alone", node, st_obs(s), node, call)
        if "root" in ch:  # positional form
            kw2 = dict(kw)
            root = kw2.pop("root")
            r = s._update(root, **kw2)
            if st_obs(r) != want:
                _viol(col, "update-result", call + " (positional root)", node, st_obs(r), want, call)
        # the same change by direct assignment ("mutable ... by direct assignment in the usual way")
        for how in ("setattr", "setitem"):
            s = build()
            for k, v in kw.items():
                if how == "setattr":
                    setattr(s, k, v)
                else:
                    s[k] = v
            if st_obs(s) != want:
                _viol(col, "assign", "%s of %s" % (how, call), node, st_obs(s), want,
                      "; ".join("s.%s = %s" % (k, R.st_expr(v)) for k, v in ch.items()) + "; s")
    # assignment through a path: replace / add a key on every nested Structured
    for path, sub in st_struct_paths(node):
        s = build()
        s[path + ("z",)] = 77
        want = st_set_path(node, path, "z", 77)
        if st_obs(s) != want:
            _viol(col, "assign", "s[%r] = 77" % (path + ("z",),), node, st_obs(s), want, "s[%r] = 77; s" % (path + ("z",),))


def st_struct_paths(node, path=()):
    out = []
    if isinstance(node, R.MS):
        out.append((path, node))
        for k, v in node.items.items():
            out += st_struct_paths(v, path + (k,))
    elif isinstance(node, tuple):
        for i, v in enumerate(node):
            out += st_struct_paths(v, path + (i,))
    return out


def st_set_path(node, path, key, value):
    if not path:
        d = dict(node.items)
        d[key] = value
        return R.MS(d)
    p = path[0]
    if isinstance(node, R.MS):
        d = dict(node.items)
        d[p] = st_set_path(d[p], path[1:], key, value)
        return R.MS(d)
    lst = list(node)
    lst[p] = st_set_path(lst[p], path[1:], key, value)
    return tuple(lst)


class _Boom(TypeError):
    pass


def drv_st_map_raise(c, ctx, col):
    """a callback that raises at the k-th leaf: _map must propagate that exception and must not call it again"""
    node, nleaves = gen_top(c, ctx)
    if not nleaves:
        raise Skip()
    k = c.choose(nleaves)
    form = c.pick(["f(x, context)", "f(x, context=None)", "f(x)"])
    exc = c.pick([_Boom, ValueError])
    s = st_build(node)
    calls = []
    target = st_flat(s)[k]

    def body(x):
        calls.append(x)
        if x == target:
            raise exc("callback failed at leaf %r" % (x,))
        return x
    if form == "f(x, context)":
        fn = lambda x, context: body(x)
    elif form == "f(x, context=None)":
        fn = lambda x, context=None: body(x)
    else:
        fn = lambda x: body(x)
    col.interesting()
    col.state(repr(R.st_canon(node)) + form + exc.__name__ + str(k))
    expr = R.st_expr(node)
    col.sample({"shape": expr, "callback": form, "raises": exc.__name__, "at_leaf_number": k + 1})
    try:
        s._map(fn)
        got = "no exception"
    except Exception as e:  # noqa
        got = "%s: %s" % (type(e).__name__, e)
    order = st_flat(s)
    want_calls = order[:k + 1]
    want = "%s: callback failed at leaf %r" % (exc.__name__, order[k])
    detail = {"shape": expr, "callback": form, "raises": exc.__name__, "calls": calls, "want_calls": want_calls,
              "got": got, "want": want,
              "repro": "from formulaic.utils.structured import Structured; calls = []\n"
                       "def fn(x, context%s):\n    calls.append(x)\n    if x == %d: raise TypeError('boom')\n    return x\n"
                       "try: %s._map(fn)\nexcept Exception as e: print(repr(e))\nprint(calls)"
                       % ("=None" if "None" in form else "", target, expr)}
    key = "structured/map-raise :: %s raising %s at leaf %d :: %s" % (form, exc.__name__, k + 1, expr)
    if calls != want_calls:
        col.violation(key, detail, sig="map-retry-on-typeerror" if exc is _Boom else "map-visits")
    elif got != want:
        col.violation(key + " (exception)", detail, sig="map-masks-callback-error" if exc is _Boom else "map-visits")
    if st_obs(s) != node:
        col.violation(key + " (receiver)", detail, sig="mutated-by-read")


ST_OPS = ["map", "flatten", "to_dict", "simplify", "access", "eq_pickle", "update"]


def drv_st_unary(c, ctx, col):
    node, nleaves = gen_top(c, ctx)
    op = c.pick(ST_OPS)
    build = lambda: st_build(node)
    s = build()
    if st_obs(s) != node:
        _viol(col, "construct", "constructor stores the given structure", node, st_obs(s), node, "s._structure")
    if nleaves:
        col.interesting()
    col.state(repr(R.st_canon(node)))
    col.sample({"shape": R.st_expr(node), "operation": op})
    if op == "map":
        op_map(col, node, s)
    elif op == "flatten":
        op_flatten(col, node, s)
    elif op == "to_dict":
        op_to_dict(col, node, s)
    elif op == "simplify":
        op_simplify(col, node, build)
    elif op == "access":
        op_access(col, node, s)
    elif op == "eq_pickle":
        op_eq_pickle(col, node, build)
    else:
        op_update(col, node, build)


# ---- pairs / triples: _merge, ==, _update with another structure ------------------------------------------

def gen_small(c, ctx, start):
    """a top-level merge operand: Structured, tuple or leaf"""
    g = ShapeGen(c, ctx["nodes"], swap=False)
    g.n = start
    kind = c.choose(3)
    if kind == 0:
        node = g.struct(ctx["depth"], top=True)
    elif kind == 1:
        out = []
        while len(out) < 2 and g.left > 0 and c.flag():
            out.append(g.node(ctx["depth"] - 1))
        node = tuple(out)
    else:
        g.n += 1
        node = g.n
    return node, g.n


def m_custom(*xs):
    return ["m"] + list(xs)


def m_lists(*xs):
    return [y for x in xs for y in x]


def drv_st_merge(c, ctx, col):
    nodes, n = [], 0
    k = ctx["arity_min"] + c.upto(ctx["arity"] - ctx["arity_min"])
    for _ in range(k):
        node, n = gen_small(c, ctx, n)
        nodes.append(node)
    default_merger = c.flag()
    leaf = (lambda i: [i]) if default_merger else None
    mleaf = (lambda x: st_relabel(x, lambda i: [i])) if default_merger else (lambda x: x)
    mnodes = [mleaf(x) for x in nodes]
    objs = [st_build(x, leaf) for x in nodes]
    # object re-use across operands: the merge is defined on values, not on object identity
    share = c.choose({1: 4, 2: 2}.get(k, 1)) if ctx.get("share", True) else 0
    if share == 1:      # the very same object twice: _merge(a, ..., a)
        mnodes.append(mnodes[0])
        objs.append(objs[0])
    elif share == 2:    # an operand and a structure derived from it (shares every untouched child object)
        if not isinstance(mnodes[0], R.MS):
            raise Skip()
        mnodes.append(R.st_update(mnodes[0], {"b": mleaf(77)}))
        objs.append(objs[0]._update(b=[77] if default_merger else 77))
    elif share == 3:    # equal (interned) leaf values in different operands
        mnodes.append(st_relabel(mnodes[0], lambda v: v))
        objs.append(st_build(nodes[0], leaf))
    names = ["a%d" % i for i in range(k)]
    pre = "; ".join("%s = %s" % (nm, R.st_expr(x)) for nm, x in zip(names, mnodes))
    if share == 1:
        names.append("a0")
    elif share == 2:
        names.append("a0._update(b=%r)" % ([77] if default_merger else 77))
    elif share == 3:
        names.append(R.st_expr(mnodes[-1]))
    call = "Structured._merge(%s%s)" % (", ".join(names), "" if default_merger else ", merger=lambda *xs: ['m', *xs]")
    expr = "%s%s%s" % (pre, "; " if pre else "", call)
    key = "structured/merge :: " + expr
    if n:
        col.interesting()
    col.state(repr([R.st_canon(x) for x in mnodes]) + str(default_merger))
    col.sample({"call": expr})
    try:
        want = ("ok", R.st_merge(mnodes, m_lists if default_merger else m_custom))
    except R.Misaligned:
        want = ("misaligned", None)
    try:
        got = ("ok", Structured._merge(*objs) if default_merger else Structured._merge(*objs, merger=m_custom))
    except ValueError as e:
        got = ("ValueError", str(e))
    detail = {"call": expr, "got": repr((got[0], st_obs(got[1]) if got[0] == "ok" else got[1])), "want": repr(want),
              "repro": "from formulaic.utils.structured import Structured; %s%sprint(%s)" % (pre, "; " if pre else "", call)}
    if want[0] == "misaligned":
        # the docstring does not say what a tuple meeting a non-tuple does; ValueError is pinned by the tests
        col.count("merge-misaligned-" + ("rejected" if got[0] == "ValueError" else "accepted(unspecified)"))
    elif got[0] != "ok":
        col.violation(key, detail, sig="merge-rejects-aligned")
    else:
        if st_obs(got[1]) != want[1]:
            col.violation(key, detail, sig="merge-result")
        elif any(isinstance(x, (R.MS, tuple)) for x in mnodes) and type(got[1]) is not Structured:
            col.violation(key, detail, sig="merge-result")
        else:
            col.count("merge-agree")
        # leaf preservation: every operand leaf ends up in the merged structure exactly once
        have = st_flat(got[1])
        flat_have = []
        for x in have:
            flat_have += [y for y in x if y != "m"] if isinstance(x, list) else [x]
        flat_want = [y for x in mnodes for _, v in R.st_leaves(x) for y in (v if isinstance(v, list) else [v])]
        if sorted(flat_have) != sorted(flat_want):
            col.violation(key + " (leaves)", detail, sig="merge-leaves")
    for x, o in zip(mnodes, objs):
        if st_obs(o) != x:
            col.violation(key + " (operand mutated)", detail, sig="merge-mutates")
    if k == 2 and not default_merger:
        a, b = nodes
        sa, sb = objs[:2]
        if isinstance(a, R.MS) and isinstance(b, R.MS):
            if (sa == sb) != (a == b) or (sa != sb) == (a == b):
                col.violation("structured/equality :: %s == %s" % (R.st_expr(a), R.st_expr(b)),
                              {"got": sa == sb, "want": a == b}, sig="equality")
            # update a with everything b has: a dictionary merge in which b wins
            r = sa._update(**dict(sb._structure))
            want_u = R.st_update(a, b.items)
            if st_obs(r) != want_u or st_obs(sa) != a or st_obs(sb) != b:
                col.violation("structured/update :: %s._update(**%s._structure)" % (R.st_expr(a), R.st_expr(b)),
                              {"got": repr(st_obs(r)), "want": repr(want_u)}, sig="update-result")
        elif isinstance(a, R.MS) and (sa == sb or sb == sa):
            col.violation("structured/equality :: %s == %s" % (R.st_expr(a), R.st_expr(b)),
                          {"got": True, "want": False}, sig="equality")


def st_relabel(node, f):
    if isinstance(node, R.MS):
        return R.MS((k, st_relabel(v, f)) for k, v in node.items.items())
    if isinstance(node, tuple):
        return tuple(st_relabel(v, f) for v in node)
    return f(node)


# =========================================================================================================
# LayeredMapping
# =========================================================================================================

KEYS = ["k1", "k2", "k3"]
PROBE = KEYS + ["zz"]
SUBSETS = [[k for i, k in enumerate(KEYS) if m >> i & 1] for m in range(8)]
KINDS = ["plain", "lm", "lm:x", "lm:y"]
DEFAULT = "<default>"


class MissingDict(dict):
    """a dict subclass that answers every absent key (like defaultdict, without inserting)"""

    def __missing__(self, key):
        return "<missing %s>" % key


class TinyMapping(Mapping):
    """a minimal user-defined read-only Mapping (membership through the Mapping mixin, i.e. through __getitem__)"""

    def __init__(self, d):
        self._d = dict(d)

    def __getitem__(self, key):
        return self._d[key]

    def __iter__(self):
        return iter(self._d)

    def __len__(self):
        return len(self._d)


LM_PRELUDE = ("import collections, types, pandas; from collections import defaultdict, Counter, ChainMap; "
              "from types import MappingProxyType; from collections.abc import Mapping; "
              "from formulaic.utils.layered_mapping import LayeredMapping; "
              "MissingDict = type('MissingDict', (dict,), {'__missing__': lambda self, k: '<missing %s>' % k}); "
              "TinyMapping = type('TinyMapping', (Mapping,), {'__init__': lambda self, d: setattr(self, '_d', dict(d)), "
              "'__getitem__': lambda self, k: self._d[k], '__iter__': lambda self: iter(self._d), "
              "'__len__': lambda self: len(self._d)})")

# mapping types a caller may hand over as a layer (the materializers really pass data frames)
MAPPING_KINDS = ["plain", "dd:list", "dd:int", "counter", "missing", "proxy", "chain", "custom", "frame"]
ALL_KINDS = MAPPING_KINDS + ["lm", "lm:x", "lm:y", "lm/dd"]


def _items_canon(o):
    return {k: (list(v) if type(v) is list else v) for k, v in o.items()}


def _norm(v):
    if type(v) is pandas.Series:
        return ("series", tuple(v.tolist()))
    return v


CANON = {
    "plain": lambda o: ("dict", _items_canon(o)),
    "dd:list": lambda o: ("defaultdict", _items_canon(o)),
    "dd:int": lambda o: ("defaultdict", _items_canon(o)),
    "counter": lambda o: ("Counter", _items_canon(o)),
    "missing": lambda o: ("MissingDict", _items_canon(o)),
    "proxy": lambda o: ("proxy", dict(o)),
    "chain": lambda o: ("chain", [dict(m) for m in o.maps]),
    "custom": lambda o: ("custom", dict(o._d)),
    "frame": lambda o: ("frame", list(o.columns), o.values.tolist()),
    "lm": lambda o: ("lm", o.name, {k: _norm(v) if type(v) is not list else list(v) for k, v in o.items()}, len(o)),
}


class LMWorld:
    """real mappings and their models, built side by side"""

    def __init__(self):
        self.script = []          # python lines reproducing the history without the harness
        self.supplied = []        # (description, real object handed to the implementation, canon function, snapshot, cheap)
        self.pairs = []           # (model MLM, real LayeredMapping)
        self.handles = []         # [(real, model, variable name)] every mapping the history produced, newest last
        self.nvars = 0
        self.frames = False
        self.nones = False        # store None as the VALUE of one (rotating) key per layer
        self.nmaps = 0
        self.ext = None           # (real dict, model dict, index in supplied, variable) of the first plain dict layer

    def real_of(self, model):
        for m, r in self.pairs:
            if m is model:
                return r
        raise KeyError(model)

    def supply(self, desc, obj, kind, cheap=True):
        fn = CANON[kind]
        self.supplied.append((desc, obj, fn, fn(obj), cheap))

    def mapping(self, kind, keys, tag):
        """(real mapping object of the given kind, model dict, variable name)"""
        var = "d%d" % self.nvars
        self.nvars += 1
        if kind in ("dd:int", "counter"):
            d = {k: 100 * self.nvars + KEYS.index(k) + 1 for k in keys}
        elif kind == "dd:list":
            d = {k: ["%s.%s" % (tag, k)] for k in keys}
        elif kind == "frame":
            d = {k: [100.0 * self.nvars + KEYS.index(k), 0.5] for k in keys}
        else:
            d = {k: "%s.%s" % (tag, k) for k in keys}
            if self.nones and KEYS[(self.nmaps + 1) % 3] in d:
                d[KEYS[(self.nmaps + 1) % 3]] = None   # a stored None is a value like any other
        self.nmaps += 1
        model = _items_canon(d)
        if kind == "plain":
            real, src = dict(d), "%r" % (d,)
        elif kind == "dd:list":
            real, src = collections.defaultdict(list, d), "defaultdict(list, %r)" % (d,)
        elif kind == "dd:int":
            real, src = collections.defaultdict(int, d), "defaultdict(int, %r)" % (d,)
        elif kind == "counter":
            real, src = collections.Counter(d), "Counter(%r)" % (d,)
        elif kind == "missing":
            real, src = MissingDict(d), "MissingDict(%r)" % (d,)
        elif kind == "proxy":
            under = dict(d)
            real, src = types.MappingProxyType(under), "MappingProxyType(%r)" % (d,)
            self.supply(var + " (dict behind the proxy)", under, "plain")
        elif kind == "chain":
            first = {k: d[k] for k in keys[:1]}
            rest = {k: d[k] for k in keys[1:]}
            real, src = collections.ChainMap(first, rest), "ChainMap(%r, %r)" % (first, rest)
        elif kind == "custom":
            real, src = TinyMapping(d), "TinyMapping(%r)" % (d,)
        elif kind == "frame":
            real, src = pandas.DataFrame(d), "pandas.DataFrame(%r)" % (d,)
            model = {k: ("series", tuple(v)) for k, v in d.items()}
            self.frames = True
        else:
            raise ValueError(kind)
        self.script.append(("%s = %s", (var, src)))
        self.supply(var, real, kind)
        return real, model, var

    def layer(self, kind, keys, tag):
        if not kind.startswith("lm"):
            return self.mapping(kind, keys, tag)
        inner_kind = "dd:list" if kind == "lm/dd" else "plain"
        name = None if kind == "lm/dd" else (kind[3:] or None)
        inner, dmodel, var = self.mapping(inner_kind, keys, tag)
        real = LayeredMapping(inner, name=name)
        model = R.MLM([dmodel], name=name)
        self.supply("LayeredMapping(%s)" % var, real, "lm", cheap=False)
        self.pairs.append((model, real))
        lvar = "n%d" % self.nvars
        self.nvars += 1
        self.script.append(("%s = LayeredMapping(%s, name=%r)", (lvar, var, name)))
        return real, model, lvar

    def check_supplied(self, col, everything):
        for desc, obj, fn, snap, cheap in self.supplied:
            if cheap or everything:
                now = fn(obj)
                if now != snap:
                    lm_violation(col, self, "layer-mutated", "supplied layer %s" % desc, now, snap)


def lm_script(w):
    return [fmt % args for fmt, args in w.script]


def lm_violation(col, w, sig, what, got, want):
    lines = lm_script(w)
    script = "; ".join(lines)
    col.violation("layered/%s :: %s :: %s" % (sig, what, script),
                  {"history": lines, "observation": what, "got": repr(got), "want": repr(want),
                   "repro": "%s; %s; print(%s)" % (LM_PRELUDE, script, what)},
                  sig=sig)


def lm_light(col, w, h=-1):
    """after every step: lookup (value + source layer name) of every probe key and the length of the mapping the
    history is operating on, and the plain supplied layers; the complete set of reads follows at the end of the
    history (every prefix of a history is itself an explored history, so every state gets the complete set)"""
    real, model, var = w.handles[h]
    keys = model.keys()
    for k in PROBE:
        want = model.find(k) if k in keys else (DEFAULT, None)
        got = real.get_with_layer_name(k, DEFAULT)
        if w.frames:
            got = (_norm(got[0]), got[1])
        if got != want:
            lm_violation(col, w, "layer-name" if got[0] == want[0] else "getitem",
                         "%s.get_with_layer_name(%r, default)" % (var, k), got, want)
    if len(real) != len(keys):
        lm_violation(col, w, "len", "len(%s)" % var, len(real), len(keys))
    if h == -1:
        w.check_supplied(col, False)


def lm_reads(col, w, full_all=False):
    """every read operation on the mapping the history operates on (and lookups + len on the mappings it was derived
    from, which must be unaffected), compared with the model; supplied layers untouched"""
    if not full_all:
        for h in range(len(w.handles) - 1):
            lm_light(col, w, h)
    n = _norm if w.frames else (lambda v: v)
    for real, model, var in (w.handles if full_all else w.handles[-1:]):
        keys = model.keys()
        for k in PROBE:
            f = model.find(k) if k in keys else None
            if (k in real) != (f is not None):
                lm_violation(col, w, "contains", "%r in %s" % (k, var), k in real, f is not None)
            try:
                got = ("ok", n(real[k]))
            except KeyError:
                got = ("KeyError", None)
            want = ("ok", f[0]) if f else ("KeyError", None)
            if got != want:
                lm_violation(col, w, "getitem", "%s[%r]" % (var, k), got, want)
            got = n(real.get(k, DEFAULT))
            if got != (f[0] if f else DEFAULT):
                lm_violation(col, w, "get", "%s.get(%r, default)" % (var, k), got, f[0] if f else DEFAULT)
            got = real.get_with_layer_name(k, DEFAULT)
            got = (n(got[0]), got[1])
            want = f if f else (DEFAULT, None)
            if got != want:
                lm_violation(col, w, "layer-name", "%s.get_with_layer_name(%r, default)" % (var, k), got, want)
            got = real.get_layer_name_for_key(k)
            if got != (f[1] if f else None):
                lm_violation(col, w, "layer-name", "%s.get_layer_name_for_key(%r)" % (var, k), got, f[1] if f else None)
        it = list(iter(real))
        if len(set(it)) != len(it) or set(it) != keys:
            lm_violation(col, w, "iter", "list(%s)" % var, it, sorted(keys))
        if len(real) != len(it) or len(real) != len(keys):
            lm_violation(col, w, "len", "len(%s) vs len(list(%s))" % (var, var), len(real), len(keys))
        got = {k: n(v) for k, v in real.items()}
        if got != model.merged():
            lm_violation(col, w, "items", "dict(%s.items())" % var, got, model.merged())
        # a second pass: pure reads must not have changed what the mapping answers (e.g. by polluting a layer)
        if [k for k in PROBE if k in real] != [k for k in PROBE if k in keys] or len(real) != len(keys):
            lm_violation(col, w, "contains", "membership / len after reads of %s" % var,
                         ([k for k in PROBE if k in real], len(real)), (sorted(keys), len(keys)))
    w.check_supplied(col, True)   # every supplied object (also nested mappings) equals its snapshot after the reads


def lm_named(col, w):
    """named_layers / attribute access of every live mapping (populates the cache!)"""
    for real, model, var in w.handles:
        got = real.named_layers
        cands = model.named_candidates()
        dfs = model.named_dfs_first()
        if set(got) != set(cands) or type(got) is not dict:
            # classification only: does a recomputation (cache dropped) give the right answer?
            real.__dict__.pop("named_layers", None)
            stale = set(real.named_layers) == set(cands)
            lm_violation(col, w, "named-layers-stale-cache" if stale else "named-layers",
                         "sorted(%s.named_layers)" % var, sorted(got), sorted(cands))
            continue
        for name, lm in got.items():
            ok_objs = [w.real_of(m) if m is not model else real for m in cands[name]]
            first_bfs = ok_objs[0]
            first_dfs = w.real_of(dfs[name]) if dfs[name] is not model else real
            if first_bfs is first_dfs:
                if lm is not first_bfs:
                    real.__dict__.pop("named_layers", None)   # classification only (see above)
                    stale = real.named_layers.get(name) is first_bfs
                    lm_violation(col, w, "named-layers-stale-cache" if stale else "named-layers",
                                 "%s.named_layers[%r] is the first layer of that name" % (var, name),
                                 "another mapping", "the first")
                    break
            else:
                col.count("named-layers-first-ambiguous")
                if not any(lm is o for o in ok_objs):
                    lm_violation(col, w, "named-layers", "%s.named_layers[%r] is a layer of that name" % (var, name),
                                 "unrelated mapping", "one of the candidates")
            try:
                attr = getattr(real, name)
            except AttributeError:
                attr = None
            if attr is not lm:
                lm_violation(col, w, "named-layers", "%s.%s is named_layers[%r]" % (var, name, name), attr, "same object")
        try:
            real.no_such_layer
            lm_violation(col, w, "named-layers", "%s.no_such_layer raises AttributeError" % var, "no error", "AttributeError")
        except AttributeError:
            pass


def lm_events_alias():
    """events addressed to the newest mapping or to the ORIGINAL one (which is a live layer of everything derived
    from it), plus writes by the owner of a supplied dict"""
    base = [("set", "k1"), ("del", "k1"), ("named",)]
    for inplace in (False, True):
        for prepend in (True, False):
            base.append(("wl", "plain", prepend, inplace, "keep"))
            base.append(("wl", "lm:e", prepend, inplace, "r"))
    return [("on", t, e) for t in ("cur", "orig") for e in base] + [("ext-set", "k1"), ("ext-set", "k2")]


def lm_events_kinds():
    """reduced alphabet + with_layers handing over a defaultdict"""
    return lm_events(False) + [("wl", "dd:list", prepend, inplace, "keep") for inplace in (False, True)
                               for prepend in (True, False)]


def lm_events(full):
    ev = [("set", k) for k in KEYS] + [("del", k) for k in KEYS] + [("named",)] + \
         ([("wl-empty",), ("set-none", "k2")] if full else [])
    for inplace in (False, True):
        for prepend in (True, False):
            if full:
                for kind in ("plain", "lm:e"):
                    for name in ("keep", "r"):
                        ev.append(("wl", kind, prepend, inplace, name))
                ev.append(("wl2", prepend, inplace))
            else:
                ev.append(("wl", "plain", prepend, inplace, "keep"))
                ev.append(("wl", "lm:e", prepend, inplace, "r"))
    return ev


def lm_apply(col, w, ev, step, h=-1):
    if ev[0] == "on":      # ("on", "orig" | "cur", event): the event is applied to the FIRST / the newest mapping
        if ev[1] == "orig" and len(w.handles) == 1:
            raise Skip()   # same as "cur" while there is only one mapping
        return lm_apply(col, w, ev[2], step, 0 if ev[1] == "orig" else -1)
    if ev[0] == "ext-set":  # the owner of a supplied dict writes to it: lookups pass through the stack, so it shows
        if w.ext is None:
            raise Skip()
        dreal, dmodel, idx, dvar = w.ext
        v = "x%d.%s" % (step, ev[1])
        w.script.append(("%s[%r] = %r", (dvar, ev[1], v)))
        dreal[ev[1]] = v
        dmodel[ev[1]] = v
        desc, obj, fn, _, cheap = w.supplied[idx]
        w.supplied[idx] = (desc, obj, fn, fn(obj), cheap)
        return
    real, model, var = w.handles[h]
    if ev[0] in ("set", "set-none"):
        v = None if ev[0] == "set-none" else "w%d.%s" % (step, ev[1])
        w.script.append(("%s[%r] = %r", (var, ev[1], v)))
        real[ev[1]] = v
        model.set(ev[1], v)
    elif ev[0] == "del":
        w.script.append(("del %s[%r]", (var, ev[1])))
        want = model.delete(ev[1])
        try:
            del real[ev[1]]
            got = True
        except KeyError:
            got = False
        if got != want:
            if not want and model.contains(ev[1]):
                # the key lives in a supplied layer only: KeyError is what the tests pin; anything else is unspecified
                col.count("unspecified-del-of-lower-layer-key-accepted")
                raise Skip()
            lm_violation(col, w, "delete", "del %s[%r]" % (var, ev[1]), "removed" if got else "KeyError",
                         "removed" if want else "KeyError")
        elif not want:
            col.count("del-keyerror-" + ("lower-layer-key" if model.contains(ev[1]) else "absent-key"))
    elif ev[0] == "named":
        w.script.append(("%s.named_layers", (var,)))
        lm_named(col, w)
    elif ev[0] == "wl-empty":
        w.script.append(("%s.with_layers(None)", (var,)))
        r1, r2 = real.with_layers(), real.with_layers(None, prepend=False, name="ignored")
        if r1 is not real or r2 is not real:
            lm_violation(col, w, "with-layers", "%s.with_layers() is %s" % (var, var), "new object", "self")
    else:
        if ev[0] == "wl":
            _, kind, prepend, inplace, nm = ev
            lr, lmod, lvar = w.layer(kind, ["k1", "k3"], "E%d" % step)
            reals, models, lvars = [lr], [lmod], [lvar]
            name = "r" if nm == "r" else (model.name if inplace else None)
        else:
            _, prepend, inplace = ev
            a = w.layer("plain", ["k1", "k3"], "E%da" % step)
            b = w.layer("plain", ["k1", "k2"], "E%db" % step)
            reals, models, lvars = [a[0], None, b[0]], [a[1], None, b[1]], [a[2], "None", b[2]]
            name = model.name if inplace else None
        nvar = var if inplace else "m%d" % len(w.handles)
        w.script.append(("%s = %s.with_layers(%s, prepend=%s, inplace=%s, name=%r)",
                         (nvar, var, ", ".join(lvars), prepend, inplace, name)))
        r = real.with_layers(*reals, prepend=prepend, inplace=inplace, name=name)
        m = model.with_layers(models, prepend=prepend, inplace=inplace, name=name)
        if inplace:
            if r is not real:
                lm_violation(col, w, "with-layers", "inplace with_layers returns self", "new object", "self")
        else:
            if r is real or not isinstance(r, LayeredMapping):
                lm_violation(col, w, "with-layers", "with_layers returns a new LayeredMapping", r, "new object")
                raise Skip()
            w.pairs.append((m, r))
            w.handles.append((r, m, nvar))


def lm_build(c, ctx, w):
    nl = c.pick(ctx["layer_counts"]) if ctx.get("layer_counts") else c.upto(ctx["max_layers"])
    top = c.pick(ctx["top_names"])
    if ctx.get("none_values"):
        w.nones = c.pick(ctx["none_values"])
    reals, models, lvars = [], [], []
    if nl > ctx["full_upto"]:
        # covering family: every per-key presence pattern over the nl layers occurs for every key
        if ctx.get("kind_combos"):
            kinds = c.pick(ctx["kind_combos"])
        else:
            kinds = [c.pick(ctx["kinds"]) for _ in range(nl)]
        mat = c.pick(COVER[nl])
        layers = list(zip(kinds, mat))
    else:
        layers = [(c.pick(ctx["kinds"]), c.pick(SUBSETS)) for _ in range(nl)]
    for i, (kind, keys) in enumerate(layers):
        r, m, v = w.layer(kind, keys, "L%d" % i)
        if kind == "plain" and w.ext is None:   # a dict the caller keeps writing to (see the ext-set event)
            w.ext = (r, m, len(w.supplied) - 1, v)
        reals.append(r), models.append(m), lvars.append(v)
    if nl % 2:  # the constructor drops None layers
        reals.insert(1, None), models.insert(1, None), lvars.insert(1, "None")
    w.script.append(("m0 = LayeredMapping(%s%sname=%r)", (", ".join(lvars), ", " if lvars else "", top)))
    real = LayeredMapping(*reals, name=top)
    model = R.MLM(models, name=top)
    w.pairs.append((model, real))
    w.handles.append((real, model, "m0"))
    return nl


def drv_lm(c, ctx, col):
    events = ctx["events"]
    nops = ctx.get("min_ops", 0) + c.upto(ctx["max_ops"] - ctx.get("min_ops", 0))
    w = LMWorld()
    nl = lm_build(c, ctx, w)
    if nl:
        col.interesting()
    for step in range(nops):
        ev = ctx["first"] if step == 0 and ctx.get("first") else c.pick(events)
        lm_apply(col, w, ev, step)
        if not ctx.get("blind"):   # blind histories: no read between two events
            lm_light(col, w)
        col.count("steps")
    col.state(repr([m.canon() for _, m, _ in w.handles]))
    lm_reads(col, w, ctx.get("full_all", False))
    lm_named(col, w)     # the cache (if an earlier event populated it) must not be stale
    lm_light(col, w)     # ... and populating it must not disturb lookups
    if len(col.samples) < col.max_samples:
        col.sample({"history": lm_script(w)})


def _cover(nl, offsets):
    """2**nl matrices (rows = layers, top first) such that the presence pattern of each key over the layers takes
    every one of the 2**nl values exactly once across the family"""
    n = 2 ** nl
    out = []
    for j in range(n):
        cols = [(j + o) % n for o in offsets]  # pattern of k1, k2, k3 over the layers
        out.append([[k for ki, k in enumerate(KEYS) if cols[ki] >> li & 1] for li in range(nl)])
    return out


COVER = {1: _cover(1, (0, 1, 1)), 2: _cover(2, (0, 1, 2)), 3: _cover(3, (0, 1, 3))}


# =========================================================================================================
# SimpleFormula as a mutable sequence
# =========================================================================================================

_TERM_CACHE = {}


def mk_term(t):
    if t not in _TERM_CACHE:
        _TERM_CACHE[t] = Term([Factor("1", eval_method="literal") if f == "1" else Factor(f) for f in t])
    return _TERM_CACHE[t]


def sf_obs(f):
    return [tuple(x.expr for x in t.factors) for t in f]


T5 = [("1",), ("a",), ("b",), ("a", "b"), ("a", "b", "c")]
T6 = T5 + [("c", "a")]
TPROBE = [("1",), ("b", "a"), ("a", "c")]
SLICES = [slice(1, None), slice(None, None, -1), slice(0, 2), slice(None, None, 2)]


def sf_events(terms, wide, extra_index=False, copies=True):
    ev = []
    for i in ((0, 1, -1) if wide else (0, -1)) + ((7,) if extra_index else ()):
        ev += [("insert", i, t) for t in terms]
    ev += [("append", t) for t in terms]
    for i in (0, -1) + ((1,) if extra_index else ()):
        ev += [("set", i, t) for t in terms]
    ev += [("del", i) for i in ((0, -1, 1) if wide else (0, -1))]
    ev += [("extend",), ("reverse",), ("del-slice",)] + ([("copy", "copy"), ("copy", "deepcopy")] if copies else [])
    if wide:
        ev += [("set-slice",), ("pop",), ("remove",), ("iadd",)]
    return ev


def sf_violation(col, script, mode, sig, what, got, want):
    s = "; ".join(script)
    col.violation("formula/%s :: %s :: %s" % (sig, what, s),
                  {"ordering": mode, "history": list(script), "observation": what, "got": repr(got), "want": repr(want),
                   "repro": "import copy; from formulaic.formula import SimpleFormula; from formulaic.parser.types import Term, Factor; "
                            "T = lambda *fs: Term([Factor('1', eval_method='literal') if f == '1' else Factor(f) for f in fs]); "
                            "%s; print(f)" % s}, sig=sig)


def sf_light(col, script, mode, f, model):
    """after every step: the exact content and the ordering invariant"""
    got = sf_obs(f)
    if got != model:
        sf_violation(col, script, mode, "sequence-content", "list(f)", [R.t_str(t) for t in got], [R.t_str(t) for t in model])
        return False
    if not R.sf_ordered(got, mode):
        sf_violation(col, script, mode, "ordering-invariant", "terms ordered per %r" % mode, [R.t_str(t) for t in got], "ordered")
    return True


def sf_reads(col, script, mode, f, model):
    """every read operation (at the end of each history; every prefix of a history is itself an explored history)"""
    if not sf_light(col, script, mode, f, model):
        return False
    if len(f) != len(model):
        sf_violation(col, script, mode, "len", "len(f)", len(f), len(model))
    if not (f == [mk_term(t) for t in model]) or not (f == [R.t_str(t) for t in model]):
        sf_violation(col, script, mode, "equality", "f == list of its terms", False, True)
    n = len(model)
    for i in (0, -1, n - 1, n, -n - 1):
        try:
            g = ("ok", tuple(x.expr for x in f[i].factors))
        except IndexError:
            g = ("IndexError", None)
        try:
            wnt = ("ok", model[i])
        except IndexError:
            wnt = ("IndexError", None)
        if g != wnt:
            sf_violation(col, script, mode, "getitem", "f[%d]" % i, g, wnt)
    for sl in SLICES:
        g = f[sl]
        wnt = R.sf_reorder(model[sl], mode)
        if type(g) is not SimpleFormula or g.ordering is not f.ordering or sf_obs(g) != wnt:
            sf_violation(col, script, mode, "slice-read", "f[%s:%s:%s]" % (sl.start, sl.stop, sl.step),
                         (type(g).__name__, [R.t_str(t) for t in sf_obs(g)]), [R.t_str(t) for t in wnt])
    for t in TPROBE:
        has = any(R.t_same(t, m) for m in model)
        if (mk_term(t) in f) != has or f.count(mk_term(t)) != sum(1 for m in model if R.t_same(t, m)):
            sf_violation(col, script, mode, "contains", "%s in f / f.count" % R.t_str(t), mk_term(t) in f, has)
    if sf_obs(f) != model:
        sf_violation(col, script, mode, "mutated-by-read", "reads changed the formula", sf_obs(f), model)
    return True


MODES = ["degree", "none", "sort"]


def _T(t):
    return "T(%s)" % ", ".join(repr(x) for x in t)


def drv_sf(c, ctx, col):
    mode = c.pick(ctx.get("modes") or MODES)
    init = c.pick(ctx["inits"])
    nops = ctx.get("min_ops", 0) + c.upto(ctx["max_ops"] - ctx.get("min_ops", 0))
    script = ["f = SimpleFormula([%s], _ordering=%r)" % (", ".join(_T(t) for t in init), mode)]
    f = SimpleFormula([mk_term(t) for t in init], _ordering=mode)
    model = R.sf_reorder(init, mode)
    if f.ordering is not OrderingMethod(mode):
        sf_violation(col, script, mode, "ordering-attr", "f.ordering", f.ordering, mode)
    if not sf_light(col, script, mode, f, model):
        return
    if nops:
        col.interesting()
    originals = []   # (formula that was copied, its content at that moment, variable name): must never change again

    def originals_ok():
        for of, om, ovar in originals:
            now = sf_obs(of)
            if now != om or not R.sf_ordered(now, mode):
                sf_violation(col, script + ["%s  # the original" % ovar], mode, "copy-aliasing",
                             "the formula that was copied is unchanged (and ordered) after mutating the copy",
                             [R.t_str(t) for t in now], [R.t_str(t) for t in om])
                return False
        return True
    for step in range(nops):
        ev = ctx["first"] if step == 0 and ctx.get("first") else c.pick(ctx["events"])
        kind = ev[0]
        exact = True
        if kind == "copy":
            # continue the history on a copy; the original is kept and must stay as it was
            ovar = "f%d" % len(originals)
            script.append("%s = f; f = copy.%s(f)" % (ovar, ev[1]))
            g = getattr(copy, ev[1])(f)
            if type(g) is not SimpleFormula or g is f or g.ordering is not f.ordering:
                sf_violation(col, script, mode, "copy-result", "copy.%s(f) is a new SimpleFormula with the same ordering" % ev[1],
                             (type(g).__name__, getattr(g, "ordering", None)), ("SimpleFormula", f.ordering))
                return
            originals.append((f, list(model), ovar))
            f = g
            col.count("steps")
            if not ctx.get("blind") and not (sf_light(col, script, mode, f, model) and originals_ok()):
                return
            continue
        if kind == "insert":
            script.append("f.insert(%d, %s)" % (ev[1], _T(ev[2])))
            act = lambda: f.insert(ev[1], mk_term(ev[2]))
            mod = lambda l: l.insert(ev[1], ev[2])
        elif kind == "append":
            script.append("f.append(%s)" % _T(ev[1]))
            act = lambda: f.append(mk_term(ev[1]))
            mod = lambda l: l.append(ev[1])
        elif kind == "set":
            script.append("f[%d] = %s" % (ev[1], _T(ev[2])))
            act = lambda: f.__setitem__(ev[1], mk_term(ev[2]))
            mod = lambda l: l.__setitem__(ev[1], ev[2])
        elif kind == "del":
            script.append("del f[%d]" % ev[1])
            act = lambda: f.__delitem__(ev[1])
            mod = lambda l: l.__delitem__(ev[1])
        elif kind == "extend":
            script.append("f.extend([T('a', 'b'), T('1')])")
            act = lambda: f.extend([mk_term(("a", "b")), mk_term(("1",))])
            mod = lambda l: l.extend([("a", "b"), ("1",)])
        elif kind == "iadd":
            script.append("f += [T('b'), T('1')]")
            act = lambda: f.__iadd__([mk_term(("b",)), mk_term(("1",))])
            mod = lambda l: l.extend([("b",), ("1",)])
        elif kind == "reverse":
            script.append("f.reverse()")
            act = f.reverse
            mod = lambda l: l.reverse()
            exact = mode != "degree"   # tie order after re-sorting a reversal is not documented
        elif kind == "pop":
            script.append("f.pop()")
            act = f.pop
            mod = lambda l: l.pop()
        elif kind == "remove":
            script.append("f.remove(T('b', 'a'))")
            act = lambda: f.remove(mk_term(("b", "a")))

            def mod(l):
                for i, m in enumerate(l):
                    if R.t_same(m, ("a", "b")):
                        del l[i]
                        return
                raise ValueError()
        elif kind == "del-slice":
            script.append("del f[0:2]")
            act = lambda: f.__delitem__(slice(0, 2))
            mod = lambda l: l.__delitem__(slice(0, 2))
        else:  # set-slice
            script.append("f[0:1] = [T('a', 'b'), T('a')]")
            act = lambda: f.__setitem__(slice(0, 1), [mk_term(("a", "b")), mk_term(("a",))])
            mod = lambda l: l.__setitem__(slice(0, 1), [("a", "b"), ("a",)])
        new = list(model)
        try:
            wres = mod(new)
            want = "ok"
        except (IndexError, ValueError) as e:
            want = type(e).__name__
            new = list(model)
        try:
            gres = act()
            got = "ok"
        except (IndexError, ValueError, FormulaInvalidError) as e:
            got = type(e).__name__
        if kind == "set-slice" and got == "FormulaInvalidError":
            sf_violation(col, script, mode, "slice-assign-rejected", script[-1], got, want)
            return
        elif got != want:
            sf_violation(col, script, mode, "operation-outcome", script[-1], got, want)
            return
        elif kind == "pop" and got == "ok":
            if tuple(x.expr for x in gres.factors) != wres:
                sf_violation(col, script, mode, "operation-outcome", "f.pop() value", gres, wres)
        new = R.sf_reorder(new, mode)
        if not exact:
            now = sf_obs(f)
            if sorted(now) != sorted(new) or not R.sf_ordered(now, mode):
                sf_violation(col, script, mode, "reverse-loses-terms", "f.reverse() keeps the terms and the ordering",
                             [R.t_str(t) for t in now], [R.t_str(t) for t in new])
                return
            if now != new:
                col.count("unspecified-reverse-tie-order")
            new = now
        model = new
        col.count("steps")
        # blind histories: no read of the formula between two operations (a read could flush / repair hidden state)
        if not ctx.get("blind") and not (sf_light(col, script, mode, f, model) and originals_ok()):
            return
    col.state(mode + repr(model) + str(len(originals)))
    sf_reads(col, script, mode, f, model)
    originals_ok()
    col.sample({"ordering": mode, "history": list(script), "result": [R.t_str(t) for t in model]})


def drv_sf_slice(c, ctx, col):
    """slice replacement f[i:j] = [terms]: `__setitem__` is declared for slices (overload `key: slice, value:
    Iterable[Term]`), so it must act as the list operation followed by the re-sort"""
    mode = c.pick(MODES)
    init = c.pick(ctx["inits"])
    sl = c.pick(ctx["slices"])
    vals = c.seq(ctx["terms"], ctx["max_vals"])
    script = ["f = SimpleFormula([%s], _ordering=%r)" % (", ".join(_T(t) for t in init), mode),
              "f[%s:%s] = [%s]" % ("" if sl.start is None else sl.start, "" if sl.stop is None else sl.stop,
                                   ", ".join(_T(t) for t in vals))]
    f = SimpleFormula([mk_term(t) for t in init], _ordering=mode)
    before = R.sf_reorder(init, mode)
    new = list(before)
    new[sl] = list(vals)
    want = R.sf_reorder(new, mode)
    col.interesting()
    col.state(mode + repr((before, sl.start, sl.stop, vals)))
    col.sample({"ordering": mode, "history": script})
    try:
        f[sl] = [mk_term(t) for t in vals]
        got = "ok"
    except (FormulaInvalidError, TypeError, ValueError) as e:
        got = type(e).__name__
    now = sf_obs(f)
    if got != "ok":
        if now != before:
            sf_violation(col, script, mode, "sequence-content", "rejected slice assignment changed the formula", now, before)
        sf_violation(col, script, mode, "slice-assign-rejected", script[-1], got, [R.t_str(t) for t in want])
        return
    sf_reads(col, script, mode, f, want)
    # a single Term is not an iterable of terms: list semantics say TypeError, the formula stays as it was
    g = SimpleFormula([mk_term(t) for t in init], _ordering=mode)
    try:
        g[sl] = mk_term(("a",))
        got = "ok"
    except (FormulaInvalidError, TypeError) as e:
        got = type(e).__name__
    if got == "ok" or sf_obs(g) != before:
        sf_violation(col, script[:1] + ["f[...] = T('a')"], mode, "operation-outcome", "slice = single Term is rejected, formula unchanged",
                     (got, sf_obs(g)), ("TypeError", before))


# =========================================================================================================
# OrderedSet
# =========================================================================================================

def drv_os(c, ctx, col):
    items = ctx["items"]
    a = c.seq(items, ctx["n"])
    b = c.seq(items, ctx["n"])
    A, B = OrderedSet(a), OrderedSet(b)
    ma, mb = R.os_make(a), R.os_make(b)
    tag = "OrderedSet(%r) ? OrderedSet(%r)" % (a, b)
    if a or b:
        col.interesting()
    col.state(repr((ma, mb)))
    col.sample({"a": a, "b": b})

    def bad(sig, what, got, want):
        col.violation("orderedset/%s :: %s :: %s" % (sig, what, tag),
                      {"a": a, "b": b, "observation": what, "got": repr(got), "want": repr(want),
                       "repro": "from formulaic.parser.types import OrderedSet; A, B = OrderedSet(%r), OrderedSet(%r); print(%s)"
                                % (a, b, what)}, sig=sig)
    if list(A) != ma or len(A) != len(ma) or [x in A for x in items] != [x in ma for x in items]:
        bad("os-basic", "list(A)", list(A), ma)
    for what, got, want in (("A | B", A | B, R.os_union(ma, mb)), ("A - B", A - B, R.os_diff(ma, mb)),
                            ("A ^ B", A ^ B, R.os_symdiff(ma, mb))):
        if type(got) is not OrderedSet or list(got) != want:
            bad("os-order", what, list(got), want)
    got = A & B
    if type(got) is not OrderedSet or set(got) != set(ma) & set(mb) or len(got) != len(set(got)):
        bad("os-algebra", "A & B", list(got), R.os_inter_left(ma, mb))
    elif list(got) == R.os_inter_left(ma, mb):
        col.count("intersection-in-left-order")
    elif list(got) == R.os_inter_right(ma, mb):
        col.count("intersection-in-right-order-only(unspecified)")
    else:
        bad("os-order", "A & B keeps the order of an operand", list(got), R.os_inter_left(ma, mb))
    for what, got, want in (("A == B", A == B, set(a) == set(b)), ("A != B", A != B, set(a) != set(b)),
                            ("A <= B", A <= B, set(a) <= set(b)), ("A < B", A < B, set(a) < set(b)),
                            ("A >= B", A >= B, set(a) >= set(b)), ("A.isdisjoint(B)", A.isdisjoint(B), set(a).isdisjoint(b)),
                            ("A == set(b)", A == set(b), set(a) == set(b)), ("A == frozenset(b)", A == frozenset(b), set(a) == set(b)),
                            ("A | B == B | A", (A | B) == (B | A), True)):
        if got is not want:
            bad("os-algebra", what, got, want)
    if list(A) != ma or list(B) != mb:
        bad("os-basic", "operands unchanged", (list(A), list(B)), (ma, mb))
    if repr(A) != "{" + ", ".join(repr(x) for x in ma) + "}":
        bad("os-basic", "repr(A)", repr(A), ma)


# =========================================================================================================

def subchecks(tier, seed):
    quick = tier == "quick"
    subs = []
    # ---- Structured
    sts = [("structured-unary", {"depth": 3, "nodes": 4, "wraps": 2}, 7)] if quick else \
          [("structured-unary", {"depth": 4, "nodes": 5, "wraps": 2}, 7), ("structured-unary-wide", {"depth": 3, "nodes": 6, "wraps": 1}, 7)]
    for name, st, sd in sts:
        subs.append(Sub(name, drv_st_unary, st, shard_depth=sd,
                        bounds={"nesting_depth": st["depth"], "max_nodes_below_top": st["nodes"], "tuple_len": "0..2",
                                "keys": ["root", "a", "b"], "redundant_wraps": "0..%d" % st["wraps"], "operations": ST_OPS}))
    mr = {"depth": 2, "nodes": 3, "wraps": 1} if quick else {"depth": 3, "nodes": 4, "wraps": 1}
    subs.append(Sub("structured-map-raise", drv_st_map_raise, mr, shard_depth=5,
                    bounds={"nesting_depth": mr["depth"], "max_nodes_below_top": mr["nodes"], "redundant_wraps": "0..1",
                            "callback": ["f(x, context)", "f(x, context=None)", "f(x)"], "raises": ["TypeError subclass", "ValueError"],
                            "at": "every leaf"}))
    mg = {"depth": 2, "nodes": 3, "arity": 2, "arity_min": 0} if quick else {"depth": 3, "nodes": 3, "arity": 2, "arity_min": 0}
    subs.append(Sub("structured-merge", drv_st_merge, mg, shard_depth=7,
                    bounds={"operands": "0..2 nodes (leaf / tuple / Structured), nesting depth <= %d, <= 3 nodes each" % mg["depth"],
                            "mergers": ["custom", "default on list leaves"]}))
    if not quick:
        mg3 = {"depth": 2, "nodes": 2, "arity": 3, "arity_min": 3}
        subs.append(Sub("structured-merge-3", drv_st_merge, mg3, shard_depth=7,
                        bounds={"operands": "3 nodes, nesting depth <= 2, <= 2 nodes each"}))
    # ---- LayeredMapping
    full, reduced = lm_events(True), lm_events(False)

    def lm_sub(name, events, max_ops, full_upto, kinds, tops, sd, max_layers=3, **extra):
        ctx = {"events": events, "max_ops": max_ops, "max_layers": max_layers, "full_upto": full_upto, "kinds": kinds,
               "top_names": tops}
        ctx.update(extra)
        subs.append(Sub(name, drv_lm, ctx, shard_depth=sd,
                        bounds={"layers": extra.get("layer_counts") or "0..%d" % max_layers,
                                "layer_kinds": extra.get("kind_combos") or kinds, "top_name": tops,
                                **({"first_event": repr(extra["first"]), "note": "VERIF_SEED-selected exhaustive slice of the "
                                    "thorough scope (histories of exactly %d events)" % max_ops} if "first" in extra else {}),
                                **({"reads": "only at the end of each history (no read between events)"} if extra.get("blind") else {}),
                                **({"stored_values": "strings; x a variant in which one key per layer (rotating) holds the value None"}
                                   if extra.get("none_values") else {}),
                                "keys_per_layer": "every subset of k1,k2,k3 for stacks of <= %d layers; for taller stacks the "
                                                  "2**n covering matrices (every per-key presence pattern for every key)" % full_upto,
                                "mutating_events": len(events),
                                "history": "%s %d events" % ("exactly" if extra.get("min_ops") == max_ops else "<=", max_ops)}))
    kev = lm_events_kinds()
    if quick:
        lm_sub("layered-kinds-reads", kev, 0, 2, ALL_KINDS, [None], 4, max_layers=2, none_values=[False, True])
        lm_sub("layered-kinds", kev, 1, 1, ALL_KINDS, [None], 5, max_layers=2, none_values=[False, True])
    else:
        lm_sub("layered-kinds", kev, 1, 2, ALL_KINDS, [None], 5, max_layers=2, none_values=[False, True])
        lm_sub("layered-kinds-2", kev, 2, 1, ALL_KINDS, [None], 6, max_layers=2, min_ops=2)
        lm_sub("layered-kinds-3", kev, 1, 2, ALL_KINDS, [None], 6, layer_counts=[3])
    lm_sub("layered-aliasing", lm_events_alias(), 3, 1, ["plain", "lm:x"] if not quick else ["plain"],
           [None, "t"], 5, max_layers=1, blind=True, full_all=True)
    if not quick:
        lm_sub("layered-aliasing-4", lm_events_alias(), 4, 0, ["plain"], [None], 7, layer_counts=[1], min_ops=4,
               blind=True, full_all=True)
    if quick:
        lm_sub("layered-stacks", full, 1, 2, KINDS, [None, "t"], 6, none_values=[False, True])
        lm_sub("layered-histories", reduced, 3, 1, ["plain", "lm:x"], [None], 6)
        lm_sub("layered-histories-seed-slice", reduced, 4, 1, ["plain"], [None], 5, max_layers=1,
               min_ops=4, first=reduced[seed % len(reduced)])
    else:
        lm_sub("layered-stacks", full, 1, 3, KINDS, [None, "t"], 6, none_values=[False, True])
        lm_sub("layered-stacks-2", full, 2, 2, KINDS, [None], 5)
        lm_sub("layered-histories", reduced, 4, 1, ["plain", "lm:x"], [None], 6, layer_counts=[0, 1, 2])
        lm_sub("layered-histories-3", reduced, 3, 1, ["plain", "lm:x"], [None], 8, layer_counts=[3])
        lm_sub("layered-histories-3-deep", reduced, 4, 1, ["plain", "lm:x"], [None], 7, layer_counts=[3], min_ops=4,
               kind_combos=[("plain",) * 3, ("lm:x",) * 3])
    # ---- SimpleFormula
    inits = [(), (("a", "b"), ("1",), ("b",), ("c", "a"), ("a",))]

    def sf_sub(name, ev, terms, max_ops, **extra):
        ctx = {"events": ev, "max_ops": max_ops, "inits": inits}
        ctx.update(extra)
        subs.append(Sub(name, drv_sf, ctx, shard_depth=5 if extra.get("min_ops") == max_ops else 4,
                        bounds={"orderings": ctx.get("modes") or MODES, "terms": [R.t_str(t) for t in terms], "events": len(ev),
                                **({"first_event": repr(extra["first"]), "note": "VERIF_SEED-selected exhaustive slice of the "
                                    "thorough scope (histories of exactly %d events)" % max_ops} if "first" in extra else {}),
                                **({"reads": "only at the end of each history (no read between events)"} if extra.get("blind") else {}),
                                "history": "%s %d events" % ("exactly" if extra.get("min_ops") == max_ops else "<=", max_ops),
                                "initial_formulas": [[R.t_str(t) for t in i] for i in ctx["inits"]]}))
    sf_sub("formula-sequence-blind", sf_events(T5, False), T5, 3, min_ops=2, blind=True)
    subs.append(Sub("formula-slice-assign", drv_sf_slice,
                    {"inits": [(), (("a",),), (("a", "b"), ("1",), ("b",), ("c", "a"), ("a",))], "terms": T5 if quick else T6,
                     "max_vals": 2 if quick else 3,
                     "slices": [slice(0, 1), slice(0, 0), slice(1, 3), slice(None, None), slice(-1, None), slice(2, 2)]},
                    shard_depth=3, bounds={"orderings": MODES, "slices": "[0:1] [0:0] [1:3] [:] [-1:] [2:2]",
                                           "replacement": "every sequence of <= %d terms" % (2 if quick else 3)}))
    if quick:
        sf_sub("formula-sequence", sf_events(T5, False), T5, 3)
        sf_sub("formula-sequence-wide", sf_events(T6, True), T6, 2)
        narrow = sf_events(T5, False)
        sf_sub("formula-sequence-seed-slice", narrow, T5, 4, min_ops=4, first=narrow[seed % len(narrow)],
               modes=[MODES[seed % 3]])
    else:
        narrow = sf_events(T5, False)
        sf_sub("formula-sequence", narrow, T5, 3)
        narrow4 = sf_events(T5, False, copies=False)
        sf_sub("formula-sequence-4", narrow4, T5, 4, min_ops=4, inits=inits[:1])
        sf_sub("formula-sequence-blind-4", narrow4, T5, 4, min_ops=4, inits=inits[1:], blind=True)
        sf_sub("formula-sequence-wide", sf_events(T6, True, True), T6, 3)
    # ---- OrderedSet
    subs.append(Sub("ordered-set", drv_os, {"items": ["x", "y", "z"] if quick else ["x", "y", "z", 1], "n": 3 if quick else 4},
                    shard_depth=4, bounds={"items": 3 if quick else 4, "max_sequence_length": 3 if quick else 4}))
    return subs
