"""C13 - scaling, polynomial and element-wise transforms meet their numeric contracts."""
import math

import numpy
import pandas
import scipy.sparse as spsparse

from mc.explorer import Skip
from mc.runner import Sub
from models import c13_numeric_ref as N
import props.common  # noqa: F401  (silences warnings)

RULE = (
    "Every vector over the magnitude alphabet {-2, 0, 1, 3, 1e6, 1e-6} within the length bound that has at least two "
    "distinct values (poly: at least degree+1 distinct values), and every vector x = o + h*d with d over a small integer "
    "grid for a list of (offset, step) pairs (large common offset with small spread, kappa up to 1e9; uniformly rescaled "
    "data, 1e-8..1e8), x every configuration (scale / standardize x center x "
    "scale x ddof in {0,1}, their defaults, center; poly degree 1..3 x a null inserted at every position or none; the "
    "six preloaded element-wise functions on every vector over {1e-3, .5, 1, 2, 10}) x input container, by direct call "
    "with an explicit _state dict and through model_matrix + model_spec.get_model_matrix; after fitting, every follow-up "
    "vector of length 1..2 over the same alphabet (direct) / the whole alphabet (+ a null) as a new data frame (formula) "
    "is transformed with the recorded state.  Non-trivial = the configuration changes the data (not center=False & "
    "scale=False) and, for poly, the case is well enough conditioned for an accuracy claim (tolerance <= 1e-3)."
)
ASSUMPTIONS = [
    "the continuum of real vectors is represented by a 6-value alphabet spanning 12 orders of magnitude, both signs and "
    "zero; statistics are symmetric polynomial functions of the data, so lengths <= 5 exercise every code path (the code "
    "has no length-dependent branch beyond N - ddof)",
    "tolerances: 1e-9 scaled by the conditioning of the problem - for standardisation the rounding error of the mean, "
    "a common shift <= N u max|x| of the centred values (16 N u kappa after division, kappa = max|x|/sd(x)); the sd of the "
    "result is insensitive to that shift (tolerance max(1e-9, 4 (N u kappa)^2)); for poly, the growth factor K_k = prod_j max(1, spread * ||p_(j-1)|| / ||p_j||) of the documented "
    "three-term recurrence computed on the exact reference, times (1 + |mean|/spread) because the recurrence coefficients "
    "are formed from the raw x (tolerance max(1e-9, 64 u K_k (1 + |mean|/spread)); measured error <= 5 u K_k); "
    "poly cases whose tolerance would exceed 1e-3 (float64 cannot separate 0 from 1e-6 next to 1e6) are counted as "
    "ill-conditioned and only checked for shape and null propagation",
    "scale(center=False, scale=True): the documentation says 'standard deviation 1' but, like R, the code divides by the "
    "root mean square about zero; either convention is accepted (the chosen one must be applied consistently to new data)",
    "models/c13_numeric_ref.py (exact rational moments, exact Gram-Schmidt) is self-tested at start-up against R output",
]

ALPHA = [-2.0, 0.0, 1.0, 3.0, 1e6, 1e-6]
EALPHA = [1e-3, 0.5, 1.0, 2.0, 10.0]
TOL = 1e-9


# ---------------------------------------------------------------------------
# helpers

def transforms():
    from formulaic.transforms import TRANSFORMS
    return TRANSFORMS


def representable(x, kind):
    """integer containers can only hold integral, non-null data"""
    if kind not in ("int64", "int32"):
        return True
    lim = 2.0 ** (63 if kind == "int64" else 31)
    return not any((isinstance(v, float) and math.isnan(v)) or abs(v) >= lim or float(v) != int(v) for v in x)


def as_container(x, kind):
    if kind == "ndarray":
        return numpy.array(x, dtype=float)
    if kind == "series":
        return pandas.Series(list(x), dtype=float)
    if kind == "list":
        return list(x)
    if kind in ("int64", "int32"):
        # integer-dtype input (only for integral data): statistics must still be computed in floating point
        if any((isinstance(v, float) and math.isnan(v)) or float(v) != int(v) for v in x):
            raise Skip()
        return numpy.array([int(v) for v in x], dtype=kind)
    if kind == "sparse":
        return spsparse.csc_matrix(numpy.array(x, dtype=float).reshape(len(x), 1))
    raise KeyError(kind)


def to_vec(out):
    out = getattr(out, "__wrapped__", out)
    if spsparse.issparse(out):
        out = out.toarray()
    a = numpy.asarray(out, dtype=float)
    return a


def dense(m):
    m = getattr(m, "__wrapped__", m)
    if isinstance(m, pandas.DataFrame):
        return m.to_numpy(dtype=float)
    if spsparse.issparse(m):
        return m.toarray().astype(float)
    return numpy.asarray(m, dtype=float)


def freeze(state):
    """hashable snapshot of a state dict (to detect that applying the transform to new data changed it)"""
    def fz(v):
        if isinstance(v, dict):
            return tuple(sorted((str(k), fz(w)) for k, w in v.items()))
        if isinstance(v, (list, tuple)):
            return tuple(fz(w) for w in v)
        if isinstance(v, numpy.ndarray):
            return ("nd", v.shape, tuple(float(t) for t in v.ravel()))
        if isinstance(v, (float, numpy.floating)):
            return float(v)
        return v if isinstance(v, (int, str, bool, type(None))) else repr(v)
    return fz(state)


class Reporter:
    def __init__(self, col, where, detail, sig_prefix="", sig_override=None):
        self.col, self.where, self.detail, self.sig_prefix, self.sig_override = col, where, detail, sig_prefix, sig_override

    def __call__(self, ok, sig, what, **extra):
        if ok:
            return True
        d = dict(self.detail)
        d.update(extra)
        d["failed"] = what
        if self.sig_override and not sig.endswith("poly-raw"):
            d["oracle"] = sig
            sig = self.sig_override       # one coarse class per sub-check (extreme magnitudes), so that it can be listed as one finding
        else:
            sig = self.sig_prefix + sig
        self.col.violation("%s :: %s" % (self.where, what), d, sig=sig)
        return False


def fmt(v):
    return repr(float(v))


def vec_repr(x):
    return "[" + ", ".join("float('nan')" if (isinstance(v, float) and math.isnan(v)) else repr(v) for v in x) + "]"


# ---------------------------------------------------------------------------
# scale / center / standardize

def scale_configs():
    cfgs = [("scale", None), ("center", None), ("standardize", None)]
    for fn in ("scale", "standardize"):
        for ce in (True, False):
            for sc in (True, False):
                for ddof in (1, 0):
                    cfgs.append((fn, (ce, sc, ddof)))
    # the delta degrees of freedom need not be an integer ("ddof: float" in the signature)
    cfgs += [("scale", (True, True, 1.5)), ("scale", (True, True, 0.5)), ("scale", (False, True, 1.5)),
             ("standardize", (True, True, 0.5)), ("standardize", (True, True, 1.5))]
    # flags that are numpy booleans (e.g. the result of a comparison), each position x each value
    for fn, ddof in (("scale", 1), ("standardize", 0)):
        for ce in (numpy.True_, numpy.False_):
            for sc in (numpy.True_, numpy.False_):
                cfgs.append((fn, (ce, sc, ddof)))
    return cfgs


SCALE_CFGS = scale_configs()


def cfg_effective(cfg):
    fn, args = cfg
    if args is not None:
        return (bool(args[0]), bool(args[1]), args[2])
    return {"scale": (True, True, 1), "center": (True, False, 1), "standardize": (True, True, 0)}[fn]


def cfg_kwargs(cfg):
    fn, args = cfg
    if args is None:
        return {}
    ce, sc, ddof = args
    return {"center": ce, ("scale" if fn == "scale" else "rescale"): sc, "ddof": ddof}


def cfg_expr(cfg, var="x"):
    kw = cfg_kwargs(cfg)
    return "%s(%s%s)" % (cfg[0], var, "".join(", %s=%r" % kv for kv in kw.items()))


class ScaleOracle:
    """what scale-like transform `cfg` fitted on x must return for x itself and for any later value"""

    def __init__(self, x, cfg):
        self.x = list(x)
        self.center, self.scale, self.ddof = cfg_effective(cfg)
        self.kappa = N.kappa(x)
        self.mu, self.s2 = N.moments(x, self.center, self.scale, self.ddof)
        self.alts = [(self.mu, self.s2)]
        if self.scale and not self.center:
            # documented wording ("standard deviation 1") read literally: divide by the sd about the mean, no shift
            m_, s2_ = N.moments(x, True, True, self.ddof)
            self.alts.append((None, s2_))
        # tolerances (see notes/c13.md): the only rounding error that grows with the data is the error of the mean,
        # <= N u max|x|, which shifts every centred value; divided by the scale divisor it is N u kappa.  The standard
        # deviation itself is insensitive to that shift (second order), so its tolerance stays at 1e-9.
        n = len(self.x)
        mx = max(abs(v) for v in self.x)
        self.divisor = N.sqrt_fraction(self.s2) if self.s2 is not None else 1.0
        self.unit = 1.0 if self.scale else mx / self.kappa          # natural size of the output (sd of x if not scaled)
        self.shift_err = 16 * n * N.U * mx / self.divisor
        self.tol = max(TOL * self.unit, self.shift_err)
        self.tol_sd = max(TOL, 4 * (n * N.U * self.kappa) ** 2)
        self.chosen = None

    def allowed(self, w):
        return max(TOL * max(self.unit, abs(w)), self.shift_err)

    def expected(self, v, which=None):
        mu, s2 = self.alts[self.chosen or 0 if which is None else which]
        return N.apply_stats(v, mu, s2)

    def match(self, got, values, which):
        for g, v in zip(got, values):
            w = self.expected(v, which)
            if not (abs(g - w) <= self.allowed(w)):
                return False
        return True

    def check_training(self, rep, got, tag):
        n = len(self.x)
        if not rep(got.shape == (n,), "shape", "%s returned shape %r for %d values" % (tag, got.shape, n)):
            return False
        if not rep(bool(numpy.all(numpy.isfinite(got))), "non-finite", tag + " returned non-finite values", got=got.tolist()):
            return False
        g = [float(v) for v in got]
        ok = False
        for i in range(len(self.alts)):
            if self.match(g, self.x, i):
                self.chosen = i
                ok = True
                break
        want = [self.expected(v, 0) for v in self.x]
        rep(ok, "wrong-values", tag + " != (x - mean)/sd computed exactly", got=g, want=want, tolerance=self.tol)
        if not ok:
            return False
        # the property in its own words: mean 0 / standard deviation 1 for the chosen ddof
        if self.center:
            m = float(N.mean_exact(g))
            rep(abs(m) <= self.tol, "mean-not-zero", tag + ": mean of the result is %r (tolerance %.3g)" % (m, self.tol), got=g)
        if self.scale:
            about_mean = self.center or self.chosen == 1
            sd = N.sd_exact(g, self.ddof, about_mean=about_mean)
            rep(abs(sd - 1.0) <= self.tol_sd, "sd-not-one",
                tag + ": %s of the result (ddof=%r) is %r (tolerance %.3g)" % ("sd" if about_mean else "rms", self.ddof, sd, self.tol_sd), got=g)
        return True


def choose_vector(c, ctx, alphabet):
    """either every vector over the magnitude alphabet, or every vector over a small integer grid D placed at
    offset o with step h (x = o + h*d): large common offsets with a small spread, and uniformly rescaled data"""
    if "grids" in ctx:
        o, h = c.pick(ctx["grids"])
        d = c.seq(ctx["D"], ctx["L"], 2)
        x = [o + h * v for v in d]
        pts = [o + h * t for t in (-1.0, 0.0, 1.0, 2.0, 3.0, 10.0)]
        return x, (o, h, d), pts
    return c.seq(alphabet, ctx["L"], 2), None, None


def grid_followups(pts, extra=()):
    return [[v] for v in pts] + [[pts[i], pts[(i + 2) % len(pts)]] for i in range(len(pts))] + [list(pts) + list(extra)]


def drv_scale(c, ctx, col):
    x, grid, pts = choose_vector(c, ctx, ALPHA)
    if len(set(x)) < 2:
        raise Skip()
    cfg = c.pick(SCALE_CFGS)
    kind = c.pick(ctx["containers"])
    if not representable(x, kind):
        raise Skip()
    fn = transforms()[cfg[0]]
    kw = cfg_kwargs(cfg)
    expr = cfg_expr(cfg)
    where = "%s x=%r (%s)" % (expr, x, kind)
    rep = Reporter(col, where, {"x": x, "transform": expr, "container": kind,
                                "repro": "from formulaic.transforms import TRANSFORMS as T; import numpy; st = {}; "
                                         "T[%r](numpy.array(%r%s), %s_state=st)" % (cfg[0], [int(v) for v in x] if kind in ("int64", "int32") else x,
                                                                                  ", dtype=%r" % kind if kind in ("int64", "int32") else "",
                                                                                  "".join("%s=%r, " % kv for kv in kw.items()))},
                   sig_prefix="integer-input:" if kind in ("int64", "int32") else "", sig_override=ctx.get("sig_override"))
    orc = ScaleOracle(x, cfg)
    if orc.center or orc.scale:
        col.interesting()
    col.sample({"x": x, "transform": expr, "container": kind})
    col.state((tuple(x), expr))
    st = {}
    try:
        got = to_vec(fn(as_container(x, kind), **kw, _state=st))
    except Exception as e:  # noqa
        rep(False, "raises", "raised %s: %s" % (type(e).__name__, str(e)[:120]))
        return
    if not orc.check_training(rep, got, "fit"):
        return
    snap = freeze(st)
    # the recorded statistics are applied unchanged: the training data again, then every follow-up vector
    try:
        again = to_vec(fn(as_container(x, kind), **kw, _state=st))
        rep(again.shape == got.shape and bool(numpy.allclose(again, got, rtol=1e-12, atol=0)), "refit-differs",
            "second application to the training data with the recorded state differs from the first", first=got.tolist(), second=again.tolist())
    except Exception as e:  # noqa
        rep(False, "raises", "second application raised %s: %s" % (type(e).__name__, str(e)[:120]))
    if grid is not None:
        followups = grid_followups(pts, extra=[0.0])
    else:
        followups = ctx["followups"] if len(x) <= ctx.get("full_followups_upto", 99) else ctx["followups_short"]
    for new in followups:
        if not representable(new, kind):
            continue
        try:
            g2 = to_vec(fn(as_container(new, kind), **kw, _state=st))
        except Exception as e:  # noqa
            rep(False, "raises", "follow-up %r raised %s: %s" % (new, type(e).__name__, str(e)[:120]))
            break
        ok = g2.shape == (len(new),) and orc.match([float(v) for v in g2], new, orc.chosen)
        if not rep(ok, "followup-not-recorded-statistics",
                   "follow-up %r with the recorded state != (new - mean)/sd of the training data" % (new,),
                   got=g2.tolist(), want=[orc.expected(v) for v in new], state=repr(st)[:200]):
            break
        col.count("followups")
    rep(freeze(st) == snap, "state-mutated", "applying the transform to new data changed the recorded state", before=repr(snap)[:300], after=repr(freeze(st))[:300])
    if "ddof" in st and orc.scale:
        rep(st["ddof"] == orc.ddof, "state-ddof", "recorded ddof %r != %r" % (st["ddof"], orc.ddof))


def drv_scale_formula(c, ctx, col):
    from formulaic import model_matrix
    x, grid, pts = choose_vector(c, ctx, ALPHA)
    if len(set(x)) < 2:
        raise Skip()
    followups = ctx["followups"] if grid is None else [list(pts) + [0.0], [pts[0]], [pts[5], pts[1]]]
    output = c.pick(ctx["outputs"])
    terms = [cfg_expr(cfg) for cfg in SCALE_CFGS]
    formula = " + ".join(terms) + " - 1"
    df = pandas.DataFrame({"x": numpy.array(x, dtype=float)})
    where = "model_matrix(all scale configurations) x=%r output=%s" % (x, output)
    rep = Reporter(col, where, {"x": x, "output": output,
                                "repro": "mm = model_matrix(%r, pandas.DataFrame({'x': %r}), output=%r); mm.model_spec.get_model_matrix(pandas.DataFrame({'x': %r}))"
                                         % (formula, x, output, ALPHA)})
    col.interesting()
    col.sample({"x": x, "formula": formula[:80] + "...", "output": output})
    col.state((tuple(x), output))
    try:
        mm = model_matrix(formula, df, output=output)
    except Exception as e:  # noqa
        rep(False, "raises", "model_matrix raised %s: %s" % (type(e).__name__, str(e)[:160]))
        return
    names = list(mm.model_spec.column_names)
    if not rep(names == terms, "names", "columns %r, expected one per term %r" % (names, terms)):
        return
    a = dense(mm)
    if not rep(a.shape == (len(x), len(terms)), "shape", "model matrix has shape %r" % (a.shape,)):
        return
    oracles = []
    for j, cfg in enumerate(SCALE_CFGS):
        orc = ScaleOracle(x, cfg)
        sub = Reporter(col, where + " term=" + terms[j], dict(rep.detail, term=terms[j]))
        ok = orc.check_training(sub, a[:, j], "fit")
        oracles.append((orc, sub, ok))
    for new in followups:
        df2 = pandas.DataFrame({"x": numpy.array(new, dtype=float)})
        try:
            b = dense(mm.model_spec.get_model_matrix(df2))
        except Exception as e:  # noqa
            rep(False, "raises", "model_spec.get_model_matrix(%r) raised %s: %s" % (new, type(e).__name__, str(e)[:160]))
            return
        if not rep(b.shape == (len(new), len(terms)), "shape", "follow-up model matrix has shape %r" % (b.shape,)):
            return
        for j, (orc, sub, ok) in enumerate(oracles):
            if not ok:
                continue
            sub(orc.match([float(v) for v in b[:, j]], new, orc.chosen), "followup-not-recorded-statistics",
                "model_spec.get_model_matrix(%r) != (new - mean)/sd of the training data" % (new,),
                got=b[:, j].tolist(), want=[orc.expected(v) for v in new])
        col.count("followups")
    # the spec can be applied to the training data again with the same result
    try:
        a2 = dense(mm.model_spec.get_model_matrix(df))
        rep(a2.shape == a.shape and bool(numpy.allclose(a2, a, rtol=1e-12, atol=0)), "refit-differs",
            "model_spec.get_model_matrix(training data) differs from the original model matrix")
    except Exception as e:  # noqa
        rep(False, "raises", "model_spec.get_model_matrix(training data) raised %s" % type(e).__name__)


# ---------------------------------------------------------------------------
# poly

NAN = float("nan")


def insert_null(x, pos):
    if pos == 0:
        return list(x)
    x = list(x)
    x.insert(pos - 1, NAN)
    return x


def check_poly_block(rep, col, got, xn, pr, degree, tag, ill_ok=True):
    """got: rows x degree array for the (possibly null-containing) input xn, fitted on the non-null part (pr)"""
    n = len(xn)
    if not rep(got.shape == (n, degree), "shape", "%s returned shape %r, expected (%d, %d)" % (tag, got.shape, n, degree)):
        return False
    nulls = [i for i, v in enumerate(xn) if math.isnan(v)]
    live = [i for i in range(n) if i not in nulls]
    nanrows = [i for i in range(n) if numpy.any(numpy.isnan(got[i]))]
    allnan = [i for i in range(n) if numpy.all(numpy.isnan(got[i]))]
    if not rep(nanrows == nulls and allnan == nulls, "null-propagation",
               "%s: NaN rows %r (entirely NaN: %r), nulls are at %r" % (tag, nanrows, allnan, nulls), got=got.tolist()):
        return False
    q = got[live, :]
    if not rep(bool(numpy.all(numpy.isfinite(q))), "non-finite", tag + " returned non-finite values in non-null rows", got=q.tolist()):
        return False
    want = numpy.asarray(pr.train(), dtype=float).reshape(len(live), degree)
    tols = [pr.tol(k) for k in range(1, degree + 1)]
    if tols[-1] > 1e-3:
        col.count("poly-ill-conditioned (shape and nulls only)")
        return None
    for k in range(degree):
        err = float(numpy.max(numpy.abs(q[:, k] - want[:, k])))
        rep(err <= tols[k], "poly-wrong-basis", "%s column %d differs from the orthonormal polynomial of degree %d by %.3g (tolerance %.3g)"
            % (tag, k + 1, k + 1, err, tols[k]), got=q.tolist(), want=want.tolist())
    g = q.T @ q
    eo = float(numpy.max(numpy.abs(g - numpy.eye(degree))))
    rep(eo <= 4 * tols[-1], "poly-not-orthonormal", "%s: Q'Q - I = %.3g (tolerance %.3g)" % (tag, eo, 4 * tols[-1]), got=q.tolist())
    e1 = float(numpy.max(numpy.abs(q.sum(axis=0)))) / math.sqrt(len(live))
    rep(e1 <= 4 * tols[-1], "poly-not-orthogonal-to-constant", "%s: Q'1/|1| = %.3g (tolerance %.3g)" % (tag, e1, 4 * tols[-1]), got=q.tolist())
    return True


def check_poly_followup(rep, got, new, pr, degree, tag):
    if not rep(got.shape == (len(new), degree), "shape", "%s returned shape %r" % (tag, got.shape)):
        return
    for i, t in enumerate(new):
        if math.isnan(t):
            rep(bool(numpy.all(numpy.isnan(got[i]))), "null-propagation", "%s: row %d is a null but the result is %r" % (tag, i, got[i].tolist()))
            continue
        vals, mags = pr.evaluate(t)
        for k in range(degree):
            tol = pr.tol(k + 1) * max(1.0, mags[k])
            if not rep(bool(numpy.isfinite(got[i, k])) and abs(got[i, k] - vals[k]) <= tol, "followup-not-recorded-polynomials",
                       "%s: p_%d(%r) = %r, the polynomial fitted on the training data gives %r (tolerance %.3g)"
                       % (tag, k + 1, t, float(got[i, k]), vals[k], tol)):
                return


def choose_poly_case(c, ctx):
    x, grid, pts = choose_vector(c, ctx, ALPHA)
    distinct = len(set(x))
    if distinct < 2:
        raise Skip()
    ctx_case = (grid, pts)
    return x, distinct, ctx_case


def drv_poly(c, ctx, col):
    x, distinct, (grid, pts) = choose_poly_case(c, ctx)
    degree = 1 + c.upto(ctx.get("maxdeg", 3) - 1)
    if distinct < degree + 1:
        raise Skip()      # needs degree+1 distinct points
    pos = c.upto(len(x) + 1) if ctx.get("nulls", True) else 0
    kind = c.pick(ctx["containers"] if len(x) <= ctx.get("containers_upto", 99) else ctx["containers"][:1])
    xn = insert_null(x, pos)
    if not representable(xn, kind):
        raise Skip()
    poly = transforms()["poly"]
    where = "poly(x, %d) x=%s (%s)" % (degree, vec_repr(xn), kind)
    rep = Reporter(col, where, {"x": vec_repr(xn), "degree": degree, "container": kind,
                                "repro": "from formulaic.transforms import poly; import numpy; st = {}; poly(numpy.array(%s), %d, _state=st)" % (vec_repr(xn), degree)},
                   sig_override=ctx.get("sig_override"))
    pr = N.PolyRef(x, degree)
    col.sample({"x": vec_repr(xn), "degree": degree, "container": kind})
    col.state((tuple(x), degree, pos))
    st = {}
    try:
        got = to_vec(poly(as_container(xn, kind), degree, _state=st))
    except Exception as e:  # noqa
        rep(False, "raises", "raised %s: %s" % (type(e).__name__, str(e)[:120]))
        return
    res = check_poly_block(rep, col, got, xn, pr, degree, "fit")
    if res is False:
        return
    if res:
        col.interesting()
    snap = freeze(st)
    try:
        again = to_vec(poly(as_container(xn, kind), degree, _state=st))
        rep(again.shape == got.shape and bool(numpy.allclose(again, got, rtol=1e-12, atol=0, equal_nan=True)), "refit-differs",
            "second application to the training data with the recorded state differs from the first", first=got.tolist(), second=again.tolist())
    except Exception as e:  # noqa
        rep(False, "raises", "second application raised %s: %s" % (type(e).__name__, str(e)[:120]))
    if res and grid is not None and pos == 0:
        # change of origin / units: the orthonormal basis of o + h*d is the basis of d (h > 0)
        try:
            ref = to_vec(poly(as_container(grid[2], kind), degree, _state={}))
            prd = N.PolyRef(grid[2], degree)
            for k in range(degree):
                err = float(numpy.max(numpy.abs(got[:, k] - ref[:, k])))
                rep(err <= pr.tol(k + 1) + prd.tol(k + 1), "poly-not-invariant",
                    "column %d of poly(%r + %r * d) differs from poly(d), d = %r, by %.3g" % (k + 1, grid[0], grid[1], grid[2], err),
                    got=got.tolist(), poly_of_d=ref.tolist())
        except Exception as e:  # noqa
            rep(False, "raises", "poly(d) raised %s" % type(e).__name__)
    if res:
        for new in (ctx["followups"] if grid is None else [[v] for v in pts] + [list(pts) + [NAN], [NAN, pts[2]], list(pts)]):
            if not representable(new, kind):
                continue
            try:
                g2 = to_vec(poly(as_container(new, kind), degree, _state=st))
            except Exception as e:  # noqa
                rep(False, "raises", "follow-up %s raised %s: %s" % (vec_repr(new), type(e).__name__, str(e)[:120]))
                break
            check_poly_followup(rep, g2, new, pr, degree, "follow-up %s" % vec_repr(new))
            col.count("followups")
    rep(freeze(st) == snap, "state-mutated", "applying poly to new data changed the recorded state")
    if pos == 0 and (kind == "ndarray" or (kind == "int64" and ctx.get("raw_int"))):
        try:
            raw = to_vec(poly(as_container(x, kind), degree, raw=True))
            want = numpy.array([[float(v) ** k for k in range(1, degree + 1)] for v in x], dtype=float)
            rep(raw.shape == want.shape and bool(numpy.allclose(raw, want, rtol=1e-12, atol=0)), ("integer-input:" if kind == "int64" else "") + "poly-raw",
                "poly(raw=True) is not [x, x^2, ...]", got=raw.tolist(), want=want.tolist())
        except Exception as e:  # noqa
            rep(False, "raises", "poly(raw=True) raised %s" % type(e).__name__)


def drv_poly_formula(c, ctx, col):
    from formulaic import model_matrix
    x, distinct, (grid, pts) = choose_poly_case(c, ctx)
    dmax = min(3, distinct - 1)
    pos = c.upto(len(x) + 1) if ctx.get("nulls", True) else c.upto(1)
    output = c.pick(ctx["outputs"])
    na_action = c.pick(["drop", "ignore"]) if pos else "drop"
    xn = insert_null(x, pos)
    terms = ["poly(x, %d)" % d for d in range(1, dmax + 1)]
    formula = " + ".join(terms) + " - 1"
    df = pandas.DataFrame({"x": numpy.array(xn, dtype=float)})
    where = "model_matrix(%r) x=%s output=%s na_action=%s" % (formula, vec_repr(xn), output, na_action)
    rep = Reporter(col, where, {"x": vec_repr(xn), "formula": formula, "output": output, "na_action": na_action,
                                "repro": "model_matrix(%r, pandas.DataFrame({'x': %s}), output=%r, na_action=%r)" % (formula, vec_repr(xn), output, na_action)})
    col.sample({"x": vec_repr(xn), "formula": formula, "output": output, "na_action": na_action})
    col.state((tuple(x), pos, output, na_action))
    try:
        mm = model_matrix(formula, df, output=output, na_action=na_action)
    except Exception as e:  # noqa
        rep(False, "raises", "model_matrix raised %s: %s" % (type(e).__name__, str(e)[:160]))
        return
    a = dense(mm)
    rows = xn if na_action == "ignore" else list(x)
    ncols = sum(range(1, dmax + 1))
    if not rep(a.shape == (len(rows), ncols), "shape", "model matrix has shape %r, expected (%d, %d)" % (a.shape, len(rows), ncols)):
        return
    new = ALPHA + [NAN]
    rows2 = new if na_action == "ignore" else ALPHA
    try:
        b = dense(mm.model_spec.get_model_matrix(pandas.DataFrame({"x": numpy.array(new, dtype=float)})))
    except Exception as e:  # noqa
        rep(False, "raises", "model_spec.get_model_matrix(follow-up) raised %s: %s" % (type(e).__name__, str(e)[:160]))
        b = None
    if b is not None and not rep(b.shape == (len(rows2), ncols), "shape", "follow-up model matrix has shape %r" % (b.shape,)):
        b = None
    off = 0
    good = False
    for d in range(1, dmax + 1):
        pr = N.PolyRef(x, d)
        sub = Reporter(col, where + " term=poly(x, %d)" % d, dict(rep.detail, term="poly(x, %d)" % d))
        res = check_poly_block(sub, col, a[:, off:off + d], rows, pr, d, "fit")
        if res:
            good = True
            if b is not None:
                check_poly_followup(sub, b[:, off:off + d], rows2, pr, d, "model_spec.get_model_matrix(%s)" % vec_repr(new))
        off += d
    if good:
        col.interesting()


# ---------------------------------------------------------------------------
# element-wise functions preloaded into every formula

def ew_close(got, want):
    return bool(numpy.isfinite(got)) and abs(got - want) <= TOL * max(abs(want), 1e-300)


def drv_elementwise(c, ctx, col):
    x = c.seq(EALPHA, ctx["L"], 1)
    name = c.pick(sorted(N.ELEMENTWISE))
    kind = c.pick(["ndarray", "series", "scalar"])
    if kind == "scalar" and len(x) != 1:
        raise Skip()
    T = transforms()
    where = "%s(%r) (%s)" % (name, x, kind)
    rep = Reporter(col, where, {"x": x, "function": name,
                                "repro": "from formulaic.transforms import TRANSFORMS as T; T[%r](%r)" % (name, x[0])})
    col.interesting()
    col.sample({"x": x, "function": name, "container": kind})
    col.state((tuple(x), name))
    if not rep(name in T and callable(T[name]), "missing", "%s is not preloaded" % name):
        return
    arg = x[0] if kind == "scalar" else as_container(x, kind)
    try:
        got = numpy.atleast_1d(to_vec(T[name](arg)))
    except Exception as e:  # noqa
        rep(False, "raises", "raised %s: %s" % (type(e).__name__, str(e)[:100]))
        return
    want = [N.ELEMENTWISE[name](v) for v in x]
    ok = got.shape == (len(x),) and all(ew_close(float(g), w) for g, w in zip(got, want))
    rep(ok, "elementwise-wrong-function", "%s(%r) = %r, the function its name denotes gives %r" % (name, x, got.tolist(), want))
    # inverse partner
    partner = None
    for a, b in N.INVERSE_PAIRS:
        if name == a:
            partner = b
        if name == b:
            partner = a
    try:
        back = numpy.atleast_1d(to_vec(T[partner](T[name](arg))))
        okb = back.shape == (len(x),) and all(ew_close(float(g), w) for g, w in zip(back, x))
        rep(okb, "inverse-pair", "%s(%s(%r)) = %r, expected the argument back" % (partner, name, x, back.tolist()))
    except Exception as e:  # noqa
        rep(False, "raises", "%s(%s(x)) raised %s" % (partner, name, type(e).__name__))


def drv_elementwise_formula(c, ctx, col):
    from formulaic import model_matrix
    x = c.seq(EALPHA, ctx["L"], 1)
    output = c.pick(ctx["outputs"])
    names = sorted(N.ELEMENTWISE)
    partner = {}
    for a, b in N.INVERSE_PAIRS:
        partner[a], partner[b] = b, a
    terms = ["%s(x)" % n for n in names] + ["%s(%s(x))" % (partner[n], n) for n in names]
    formula = " + ".join(terms) + " - 1"
    where = "model_matrix(element-wise functions) x=%r output=%s" % (x, output)
    rep = Reporter(col, where, {"x": x, "formula": formula, "output": output,
                                "repro": "model_matrix(%r, pandas.DataFrame({'x': %r}), output=%r)" % (formula, x, output)})
    col.interesting()
    col.sample({"x": x, "formula": formula, "output": output})
    col.state((tuple(x), output))
    df = pandas.DataFrame({"x": numpy.array(x, dtype=float)})
    try:
        mm = model_matrix(formula, df, output=output)
        a = dense(mm)
    except Exception as e:  # noqa
        rep(False, "raises", "model_matrix raised %s: %s" % (type(e).__name__, str(e)[:160]))
        return
    cols = list(mm.model_spec.column_names)
    if not rep(cols == terms and a.shape == (len(x), len(terms)), "names", "columns %r (shape %r), expected %r" % (cols, a.shape, terms)):
        return
    for j, t in enumerate(terms):
        if j < len(names):
            want = [N.ELEMENTWISE[names[j]](v) for v in x]
            sig, what = "elementwise-wrong-function", "column %s = %r, the function its name denotes gives %r" % (t, a[:, j].tolist(), want)
        else:
            want = list(x)
            sig, what = "inverse-pair", "column %s = %r, expected x = %r back" % (t, a[:, j].tolist(), want)
        ok = all(ew_close(float(g), w) for g, w in zip(a[:, j], want))
        Reporter(col, where + " term=" + t, dict(rep.detail, term=t))(ok, sig, what)
    # new data through the model spec (stateless functions: same function of the new data)
    try:
        b = dense(mm.model_spec.get_model_matrix(pandas.DataFrame({"x": numpy.array(EALPHA, dtype=float)})))
        for j, n in enumerate(names):
            want = [N.ELEMENTWISE[n](v) for v in EALPHA]
            ok = b.shape == (len(EALPHA), len(terms)) and all(ew_close(float(g), w) for g, w in zip(b[:, j], want))
            Reporter(col, where + " term=%s(x) on new data" % n, dict(rep.detail, term=n))(ok, "elementwise-wrong-function",
                     "model_spec.get_model_matrix: column %s(x) = %r, expected %r" % (n, b[:, j].tolist() if b.ndim == 2 and b.shape[1] > j else None, want))
    except Exception as e:  # noqa
        rep(False, "raises", "model_spec.get_model_matrix raised %s: %s" % (type(e).__name__, str(e)[:160]))


# ---------------------------------------------------------------------------

# ---------------------------------------------------------------------------
# element-wise functions on non-float64 input: integer, bool, nullable-integer and float32 columns

IALPHA = [-3, -1, 0, 1, 2, 3, 12, 19, 25, 64, 1000]
INT_DTYPES = ["int8", "uint8", "int16", "uint16", "int32", "int64"]
# relative tolerance = 1e-9, or 8 eps of the floating type numpy computes in for that input (bool -> float16, float32)
# integer and bool input of every width must be evaluated in double precision (1e-9 separates float64 from float32/16)
DTYPE_TOL = {"int8": TOL, "uint8": TOL, "int16": TOL, "uint16": TOL, "int64": TOL, "int32": TOL, "Int64": TOL, "pyint": TOL,
             "float32": 8 * 2.0 ** -23, "bool": TOL}


def typed_alphabet(dtype):
    if dtype == "bool":
        return [False, True]
    if dtype == "float32":
        return [float(numpy.float32(v)) for v in EALPHA] + [-2.0, 25.0]
    if dtype in ("int8", "uint8", "int16", "uint16"):
        info = numpy.iinfo(dtype)
        return [v for v in IALPHA if info.min <= v <= info.max] + ([200] if dtype == "uint8" else []) + ([40000] if dtype == "uint16" else [])
    return list(IALPHA)


def typed_container(x, dtype, kind):
    if kind == "scalar":
        v = x[0]
        return v if dtype == "pyint" else (numpy.bool_ if dtype == "bool" else numpy.dtype(dtype).type)(v)
    if dtype == "Int64":
        return pandas.Series(list(x), dtype="Int64")
    arr = numpy.array(list(x), dtype={"pyint": "int64"}.get(dtype, dtype))
    return pandas.Series(arr) if kind == "series" else arr


def in_domain(name, x):
    if name.startswith("log"):
        return all(v > 0 for v in x)
    return all(v <= 64 for v in x)


def tclose(got, want, tol):
    return bool(numpy.isfinite(got)) and abs(got - want) <= tol * max(abs(want), 1e-300)


def drv_elementwise_typed(c, ctx, col):
    dtype = c.pick(ctx["dtypes"])
    x = c.seq(typed_alphabet(dtype), ctx["L"], 1)
    name = c.pick(sorted(N.ELEMENTWISE))
    if not in_domain(name, x):
        raise Skip()
    kinds = ["ndarray", "series", "scalar"]
    if dtype == "Int64":
        kinds = ["series"]
    if dtype == "pyint":
        kinds = ["scalar"]
    kind = c.pick(kinds)
    if kind == "scalar" and len(x) != 1:
        raise Skip()
    T = transforms()
    tol = DTYPE_TOL[dtype]
    where = "%s(%r) dtype=%s (%s)" % (name, x, dtype, kind)
    rep = Reporter(col, where, {"x": x, "function": name, "dtype": dtype, "container": kind,
                                "repro": "from formulaic.transforms import TRANSFORMS as T; import numpy; T[%r](numpy.array(%r, dtype=%r))"
                                         % (name, x, "int64" if dtype in ("pyint", "Int64") else dtype)})
    col.interesting()
    col.sample({"x": x, "function": name, "dtype": dtype, "container": kind})
    col.state((tuple(x), name, dtype))
    try:
        got = numpy.atleast_1d(to_vec(T[name](typed_container(x, dtype, kind))))
    except Exception as e:  # noqa
        rep(False, "raises", "raised %s: %s" % (type(e).__name__, str(e)[:100]))
        return
    want = [N.ELEMENTWISE[name](float(v)) for v in x]
    ok = got.shape == (len(x),) and all(tclose(float(g), w, tol) for g, w in zip(got, want))
    rep(ok, "elementwise-wrong-function", "%s(%r) [%s] = %r, the function its name denotes gives %r" % (name, x, dtype, got.tolist(), want))
    partner = None
    for a, b in N.INVERSE_PAIRS:
        if name == a:
            partner = b
        if name == b:
            partner = a
    try:
        back = numpy.atleast_1d(to_vec(T[partner](T[name](typed_container(x, dtype, kind)))))
        # conditioning of the round trip: an error eps in y = f(x) becomes eps * |y| ln(base) in exp(y) (<= 150 here)
        tb = tol * (8 + max(abs(w) for w in want) * 2.4) if partner.startswith("exp") else 8 * tol
        okb = back.shape == (len(x),) and all(bool(numpy.isfinite(g)) and abs(float(g) - float(v)) <= tb * max(abs(float(v)), 1.0) for g, v in zip(back, x))
        rep(okb, "inverse-pair", "%s(%s(%r)) [%s] = %r, expected the argument back" % (partner, name, x, dtype, back.tolist()))
    except Exception as e:  # noqa
        rep(False, "raises", "%s(%s(x)) raised %s: %s" % (partner, name, type(e).__name__, str(e)[:100]))


def drv_elementwise_typed_formula(c, ctx, col):
    from formulaic import model_matrix
    dtype = c.pick(ctx["dtypes"])
    x = c.seq(typed_alphabet(dtype), ctx["L"], 1)
    output = c.pick(ctx["outputs"])
    if not all(v <= 64 for v in x):
        raise Skip()      # exp(1000) overflows; large values are covered by the direct sub-check for the logarithms
    names = [n for n in sorted(N.ELEMENTWISE) if in_domain(n, x)]
    partner = {}
    for a, b in N.INVERSE_PAIRS:
        partner[a], partner[b] = b, a
    terms = ["%s(x)" % n for n in names] + ["%s(%s(x))" % (partner[n], n) for n in names]
    formula = " + ".join(terms) + " - 1"
    tol = DTYPE_TOL[dtype]
    where = "model_matrix(element-wise functions) x=%r dtype=%s output=%s" % (x, dtype, output)
    rep = Reporter(col, where, {"x": x, "dtype": dtype, "formula": formula, "output": output,
                                "repro": "model_matrix(%r, pandas.DataFrame({'x': pandas.Series(%r, dtype=%r)}), output=%r)" % (formula, x, dtype, output)})
    col.interesting()
    col.sample({"x": x, "dtype": dtype, "formula": formula, "output": output})
    col.state((tuple(x), dtype, output))
    df = pandas.DataFrame({"x": typed_container(x, dtype, "series")})
    try:
        mm = model_matrix(formula, df, output=output)
        a = dense(mm)
    except Exception as e:  # noqa
        rep(False, "raises", "model_matrix raised %s: %s" % (type(e).__name__, str(e)[:200]))
        return
    cols = list(mm.model_spec.column_names)
    if not rep(cols == terms and a.shape == (len(x), len(terms)), "names", "columns %r (shape %r), expected %r for %d rows" % (cols, a.shape, terms, len(x))):
        return
    for j, t in enumerate(terms):
        sub = Reporter(col, where + " term=" + t, dict(rep.detail, term=t))
        if j < len(names):
            want = [N.ELEMENTWISE[names[j]](float(v)) for v in x]
            sub(all(tclose(float(g), w, tol) for g, w in zip(a[:, j], want)), "elementwise-wrong-function",
                "column %s = %r, the function its name denotes gives %r" % (t, a[:, j].tolist(), want))
        else:
            n = names[j - len(names)]
            inner = [abs(N.ELEMENTWISE[n](float(v))) for v in x]
            tb = tol * (8 + max(inner) * 2.4) if partner[n].startswith("exp") else 8 * tol
            sub(all(bool(numpy.isfinite(g)) and abs(float(g) - float(v)) <= tb * max(abs(float(v)), 1.0) for g, v in zip(a[:, j], x)), "inverse-pair",
                "column %s = %r, expected x = %r back" % (t, a[:, j].tolist(), list(x)))


# ---------------------------------------------------------------------------
# histories inside one interpreter: a user function that shadows the name of a preloaded stateful transform in one
# formula must not change what the preloaded transform does (and records) in another formula, in either order.
# Every history runs in a FRESH interpreter (module-level caches would otherwise leak between executions of a worker and
# make a violation irreproducible from its choice vector).

HIST_NAMES = ["scale", "center", "standardize", "poly"]
HIST_EVENTS = ["plain-context", "plain-local", "builtin"]
HIST_TRAIN = [1.0, 2.0, 4.0, 9.0]
HIST_NEW = [0.0, 3.0, 10.0]

HIST_PROBE = r"""
import sys, json, warnings
sys.path.insert(0, %r)
repo = %r
if repo: sys.path.insert(0, repo)
warnings.simplefilter('ignore')
import numpy, pandas
from formulaic import model_matrix
name, events, train, new = json.loads(%r)
formula = (name + '(x, 2) - 1') if name == 'poly' else (name + '(x) - 1')
def plain(v, *a):
    return 2 * numpy.asarray(v, dtype=float) + 1
def dense(m):
    return numpy.asarray(m, dtype=float).tolist()
def ev_plain_context():
    mm = model_matrix(formula, pandas.DataFrame({'x': train}), context={name: plain})
    return {'train': dense(mm), 'state_keys': sorted(mm.model_spec.transform_state)}
def ev_plain_local():
    env = {'model_matrix': model_matrix, 'pandas': pandas, 'train': train, 'plain': plain, 'formula': formula}
    # the helper is a local variable of the calling frame, which model_matrix captures by default
    exec('def run():\n    ' + name + ' = plain\n    return model_matrix(formula, pandas.DataFrame({\'x\': train}))\n', env)
    mm = env['run']()
    return {'train': dense(mm), 'state_keys': sorted(mm.model_spec.transform_state)}
def ev_builtin():
    mm = model_matrix(formula, pandas.DataFrame({'x': train}))
    mm2 = mm.model_spec.get_model_matrix(pandas.DataFrame({'x': new}))
    mm3 = mm.model_spec.get_model_matrix(pandas.DataFrame({'x': train}))
    return {'train': dense(mm), 'new': dense(mm2), 'again': dense(mm3), 'state_keys': sorted(mm.model_spec.transform_state)}
out = []
for ev in events:
    try:
        out.append({'plain-context': ev_plain_context, 'plain-local': ev_plain_local, 'builtin': ev_builtin}[ev]())
    except Exception as e:
        out.append({'error': type(e).__name__ + ': ' + str(e)[:200]})
print(json.dumps(out))
"""


def run_history(name, events):
    import json
    import os
    import subprocess
    import sys
    verif = os.path.dirname(os.path.dirname(os.path.abspath(__file__)))
    env = dict(os.environ, PYTHONHASHSEED="0")
    p = subprocess.run([sys.executable, "-c", HIST_PROBE % (verif, os.environ.get("VERIF_REPO", ""), json.dumps([name, events, HIST_TRAIN, HIST_NEW]))],
                       env=env, capture_output=True, text=True, timeout=600)
    if p.returncode != 0:
        raise RuntimeError("history probe failed: " + p.stderr[-2000:])
    return json.loads(p.stdout.strip().splitlines()[-1])


def drv_name_history(c, ctx, col):
    name = c.pick(HIST_NAMES)
    n = 2 + c.upto(ctx["D"] - 2)
    events = [c.pick(HIST_EVENTS) for _ in range(n)]
    if "builtin" not in events:
        raise Skip()      # histories without the preloaded transform say nothing about it
    got = run_history(name, events)
    formula = (name + "(x, 2) - 1") if name == "poly" else (name + "(x) - 1")
    where = "history %s in one interpreter, formula %r" % (" -> ".join(events), formula)
    rep = Reporter(col, where, {"name": name, "events": events, "train": HIST_TRAIN, "new": HIST_NEW, "results": got,
                                "repro": "step 'plain-context': model_matrix(%r, df, context={%r: lambda v, *a: 2*v+1}); step 'builtin': "
                                         "mm = model_matrix(%r, df); mm.model_spec.get_model_matrix(df_new)" % (formula, name, formula)})
    col.interesting()
    col.sample({"name": name, "events": events})
    col.state((name, tuple(events)))
    ok = True
    for i, (ev, g) in enumerate(zip(events, got)):
        tag = "step %d (%s)" % (i + 1, ev)
        if "error" in g:
            ok = False
            detail = tag + " raised " + g["error"]
            break
        if ev != "builtin":
            want = [[2 * v + 1] for v in HIST_TRAIN]
            if g["train"] != want:
                ok, detail = False, tag + " returned %r, the user function gives %r" % (g["train"], want)
                break
            continue
        if name == "poly":
            pr = N.PolyRef(HIST_TRAIN, 2)
            a = numpy.asarray(g["train"], dtype=float)
            want = numpy.asarray(pr.train(), dtype=float)
            bad = a.shape != want.shape or float(numpy.max(numpy.abs(a - want))) > pr.tol(2)
            if not bad:
                for row, t in zip(g["new"], HIST_NEW):
                    vals, mags = pr.evaluate(t)
                    if len(row) != 2 or any(abs(row[k] - vals[k]) > pr.tol(k + 1) * max(1.0, mags[k]) for k in range(2)):
                        bad = True
            if not bad:
                bad = not numpy.allclose(numpy.asarray(g["again"], dtype=float), a, rtol=1e-12, atol=0)
        else:
            orc = ScaleOracle(HIST_TRAIN, (name, None))
            col1 = [r[0] for r in g["train"]] if all(len(r) == 1 for r in g["train"]) else None
            bad = col1 is None or len(col1) != len(HIST_TRAIN) or not orc.match(col1, HIST_TRAIN, 0)
            if not bad:
                orc.chosen = 0
                col2 = [r[0] for r in g["new"]] if all(len(r) == 1 for r in g["new"]) else None
                bad = col2 is None or len(col2) != len(HIST_NEW) or not orc.match(col2, HIST_NEW, 0)
            if not bad:
                bad = not numpy.allclose(numpy.asarray(g["again"], dtype=float), numpy.asarray(g["train"], dtype=float), rtol=1e-12, atol=0)
        if bad:
            ok, detail = False, tag + ": the preloaded %s does not fit / re-apply the recorded statistics: train %r, new data %r, recorded state keys %r" % (
                name, g["train"], g["new"], g["state_keys"])
            break
        if not g["state_keys"]:
            ok, detail = False, tag + ": nothing recorded in model_spec.transform_state"
            break
    # one key and one sig per history, whichever step shows it: the verdict must not depend on which step fails
    if not ok:
        col.violation("name-history :: %s %s" % (name, "->".join(events)), dict(rep.detail, failed=detail),
                      sig="transform-name-resolution-leaks-between-formulas")


# ---------------------------------------------------------------------------
# multi-column input: every column is centred / scaled by ITS OWN statistics, also on new data

MC_ALPHA = [0.0, 1.0, 3.0]
MC_CFGS = [("scale", None), ("center", None), ("standardize", None)] + [("scale", (ce, sc, dd)) for ce in (True, False) for sc in (True, False) for dd in (1, 0)]


def drv_scale_multicol(c, ctx, col):
    n = 2 + c.upto(ctx["L"] - 2)
    k = 2 + c.upto(ctx["K"] - 2)
    units = [1.0, c.pick([1.0, 1e3]), 1e-3][:k]       # columns measured in different units
    cols = []
    for j in range(k):
        v = [units[j] * c.pick(MC_ALPHA) for _ in range(n)]
        if len(set(v)) < 2:
            raise Skip()
        cols.append(v)
    cfg = c.pick(MC_CFGS)
    kind = c.pick(["ndarray", "dataframe"])
    fn = transforms()[cfg[0]]
    kw = cfg_kwargs(cfg)
    expr = cfg_expr(cfg, "X")
    mat = numpy.array(cols, dtype=float).T

    def wrap(m):
        return pandas.DataFrame(m, columns=["c%d" % j for j in range(m.shape[1])]) if kind == "dataframe" else m
    where = "%s X=%r (%d x %d %s)" % (expr, mat.tolist(), n, k, kind)
    rep = Reporter(col, where, {"X": mat.tolist(), "transform": expr, "container": kind,
                                "repro": "from formulaic.transforms import TRANSFORMS as T; import numpy; st = {}; T[%r](numpy.array(%r), %s_state=st)"
                                         % (cfg[0], mat.tolist(), "".join("%s=%r, " % kv for kv in kw.items()))})
    oracles = [ScaleOracle(v, cfg) for v in cols]
    if oracles[0].center or oracles[0].scale:
        col.interesting()
    col.sample({"X": mat.tolist(), "transform": expr, "container": kind})
    col.state((tuple(map(tuple, cols)), expr))
    st = {}
    try:
        got = dense(fn(wrap(mat), **kw, _state=st))
    except Exception as e:  # noqa
        rep(False, "raises", "raised %s: %s" % (type(e).__name__, str(e)[:120]))
        return
    if not rep(got.shape == (n, k), "shape", "returned shape %r for a %d x %d input" % (got.shape, n, k)):
        return
    for j, orc in enumerate(oracles):
        sub = Reporter(col, where + " column %d" % j, dict(rep.detail, column=j))
        if not orc.check_training(sub, got[:, j], "fit, column %d" % j):
            return
    snap = freeze(st)
    news = [numpy.array([[u * t for u in units] for t in ts], dtype=float) for ts in ([0.0, 1.0, 3.0, -2.0, 10.0], [5.0])]
    news.append(numpy.array([[units[j] * (3.0 if (i + j) % 2 else -1.0) for j in range(k)] for i in range(3)], dtype=float))
    for new in news:
        try:
            g2 = dense(fn(wrap(new), **kw, _state=st))
        except Exception as e:  # noqa
            rep(False, "raises", "follow-up %r raised %s: %s" % (new.tolist(), type(e).__name__, str(e)[:120]))
            break
        ok = g2.shape == new.shape and all(orc.match([float(v) for v in g2[:, j]], [float(v) for v in new[:, j]], orc.chosen) for j, orc in enumerate(oracles))
        if not rep(ok, "followup-not-recorded-statistics", "follow-up %r with the recorded state != (new - mean_j)/sd_j of the training columns" % (new.tolist(),),
                   got=g2.tolist(), want=[[orc.expected(float(v)) for orc, v in zip(oracles, row)] for row in new]):
            break
        col.count("followups")
    rep(freeze(st) == snap, "state-mutated", "applying the transform to new data changed the recorded state")


# ---------------------------------------------------------------------------
# where in the factor's expression the stateful call sits: inside ordinary calls (positional, keyword, method receiver,
# two levels deep), under operators only, inside another stateful call; and multi-column arguments of scale / center

NEST_ALPHA = [-2.0, 0.0, 1.0, 3.0]
NEST_INNER = [("center", None), ("scale", None), ("scale", (True, True, 0)), ("standardize", None)]
# (name, formula template with @T@ = the stateful call, python function of the inner value); `f(x).method()` is only
# valid formula syntax inside a quoted {...} Python factor
NEST_WRAPPERS = [
    ("I", "I(@T@ * 2)", lambda v: v * 2),
    ("exp", "exp(@T@)", lambda v: math.exp(v)),
    ("np.abs", "np.abs(@T@)", lambda v: abs(v)),
    ("log-shift", "log(@T@ + 10)", lambda v: math.log(v + 10)),
    ("two-deep", "I(exp(np.abs(@T@)))", lambda v: math.exp(abs(v))),
    ("second-arg", "np.maximum(0.25, @T@)", lambda v: max(0.25, v)),
    ("keyword-arg", "np.clip(a=@T@, a_min=-1, a_max=0.5)", lambda v: min(0.5, max(-1.0, v))),
    ("method-receiver", "{@T@.clip(-1, 0.5)}", lambda v: min(0.5, max(-1.0, v))),
    ("braces", "{@T@ + 1}", lambda v: v + 1),
    ("in-stateful", "center(I(@T@))", None),
]
NEST_NEW = [[-1.0, 0.5, 4.0, 2.0], [7.0]]


def nest_close(got, want):
    return bool(numpy.isfinite(got)) and abs(got - want) <= 4e-9 * max(1.0, abs(want))


def drv_nested_formula(c, ctx, col):
    from formulaic import model_matrix
    x = c.seq(NEST_ALPHA, ctx["L"], 2)
    distinct = len(set(x))
    if distinct < 2:
        raise Skip()
    output = c.pick(ctx["outputs"])
    terms = []   # (formula text, number of columns, fn(train values of each column) -> (expected train, expected(new)))
    for cfg in NEST_INNER:
        orc = ScaleOracle(x, cfg)
        orc.chosen = 0
        t_txt = cfg_expr(cfg)
        for wname, tpl, g in NEST_WRAPPERS:
            txt = tpl.replace("@T@", t_txt)
            if g is None:
                # center(I(T)): the outer transform is fitted on the inner result and re-applied to new data
                inner = [orc.expected(v) for v in x]
                outer = ScaleOracle(inner, ("center", None))
                outer.chosen = 0
                terms.append((txt, [lambda v, o=orc, q=outer: q.expected(o.expected(v))]))
            else:
                terms.append((txt, [lambda v, o=orc, g=g: g(o.expected(v))]))
    # the same transforms reached through an attribute-style callee (module-qualified spelling, via the context)
    for txt, cfg in (("ft.scale(x)", ("scale", None)), ("ft.center(x)", ("center", None)), ("ft.scale(x, ddof=0.5)", ("scale", (True, True, 0.5))),
                     ("ft.patsy_compat.standardize(x)", ("standardize", None)), ("formulaic.transforms.center(x)", ("center", None)),
                     ("fm.transforms.scale(x, center=False)", ("scale", (False, True, 1)))):
        o = ScaleOracle(x, cfg)
        o.chosen = 0
        terms.append((txt, [lambda v, o=o: o.expected(v)]))
        if txt in ("ft.center(x)", "ft.scale(x)"):
            terms.append(("exp(%s)" % txt, [lambda v, o=o: math.exp(o.expected(v))]))
    if distinct >= 3:
        pr = N.PolyRef(x, 2)
        pcol = [lambda v, k=k: pr.evaluate(v)[0][k] for k in range(2)]
        terms.append(("ft.poly(x, 2)", list(pcol)))
        terms.append(("np.abs(poly(x, 2))", [lambda v, f=f: abs(f(v)) for f in pcol]))
        terms.append(("log(poly(x, 2) + 10)", [lambda v, f=f: math.log(f(v) + 10) for f in pcol]))
        # multi-column arguments: every column gets its own statistics
        for outer_cfg, inner_txt, inner_cols in (
                (("scale", None), "poly(x, 2)", pcol),
                (("standardize", None), "poly(x, 2)", pcol),
                (("scale", (True, True, 0)), "poly(x, 2, raw=True)", [lambda v: v, lambda v: v * v]),
                (("center", None), "poly(x, 2, raw=True)", [lambda v: v, lambda v: v * v])):
            fs = []
            for f in inner_cols:
                o = ScaleOracle([f(v) for v in x], outer_cfg)
                o.chosen = 0
                fs.append(lambda v, f=f, o=o: o.expected(f(v)))
            terms.append((cfg_expr(outer_cfg, inner_txt), fs))
    formula = " + ".join(t for t, _ in terms) + " - 1"
    ncols = sum(len(f) for _, f in terms)
    where = "nested stateful calls x=%r output=%s" % (x, output)
    rep = Reporter(col, where, {"x": x, "output": output, "formula": formula,
                                "repro": "import formulaic, formulaic.transforms as ft; ctx = {'ft': ft, 'formulaic': formulaic, 'fm': formulaic}; "
                                         "mm = model_matrix(%r, pandas.DataFrame({'x': %r}), output=%r, context=ctx); "
                                         "mm.model_spec.get_model_matrix(pandas.DataFrame({'x': %r}), context=ctx)" % (formula, x, output, NEST_NEW[0])})
    col.interesting()
    col.sample({"x": x, "output": output, "terms": len(terms)})
    col.state((tuple(x), output))
    df = pandas.DataFrame({"x": numpy.array(x, dtype=float)})
    import formulaic
    import formulaic.transforms
    context = {"ft": formulaic.transforms, "formulaic": formulaic, "fm": formulaic}
    try:
        mm = model_matrix(formula, df, output=output, context=context)
        a = dense(mm)
    except Exception as e:  # noqa
        rep(False, "raises", "model_matrix raised %s: %s" % (type(e).__name__, str(e)[:200]))
        return
    if not rep(a.shape == (len(x), ncols), "shape", "model matrix has shape %r, expected (%d, %d); columns %r" % (a.shape, len(x), ncols, list(mm.model_spec.column_names))):
        return

    def compare(mat, values, what):
        off = 0
        for txt, fs in terms:
            for j, f in enumerate(fs):
                want = [f(v) for v in values]
                got = [float(t) for t in mat[:, off + j]]
                if not all(nest_close(g_, w_) for g_, w_ in zip(got, want)):
                    Reporter(col, where + " term=" + txt, dict(rep.detail, term=txt, column=j))(
                        False, "nested-" + what, "%s: column %d of %s = %r, expected %r" % (what, j, txt, got, want))
            off += len(fs)
    compare(a, x, "fit")
    for new in NEST_NEW:
        try:
            b = dense(mm.model_spec.get_model_matrix(pandas.DataFrame({"x": numpy.array(new, dtype=float)}), context=context))
        except Exception as e:  # noqa
            rep(False, "raises", "model_spec.get_model_matrix(%r) raised %s: %s" % (new, type(e).__name__, str(e)[:200]))
            return
        if not rep(b.shape == (len(new), ncols), "shape", "follow-up model matrix has shape %r" % (b.shape,)):
            return
        compare(b, new, "followup-not-recorded-statistics")
        col.count("followups")


# (offset, step) of the grids x = o + h*d: uniformly rescaled data (absolute thresholds) and a large common offset with
# a small spread (cancellation in one-pass formulas); kappa = |o|/h ranges up to 1e9
SCALE_GRIDS = [(0.0, 1e-8), (0.0, 1e-4), (0.0, 1e4), (0.0, 1e8), (1e3, 1e-3), (1e6, 1.0), (-1e6, 1.0), (1e6, 1e-3), (1e8, 1.0), (1.7e9, 1.0)]
SCALE_GRIDS_F = [(0.0, 1e-8), (1e6, 1.0), (1.7e9, 1.0)]
POLY_GRIDS = [(0.0, 1e-8), (0.0, 1e-6), (0.0, 1e-4), (0.0, 1e-3), (0.0, 1e-2), (0.0, 1e2), (0.0, 1e4), (0.0, 1e8), (1e3, 1.0), (1e6, 1.0), (-1e6, 1e-2)]
POLY_GRIDS_F = [(0.0, 1e-4), (0.0, 1e-3), (1e6, 1.0)]


def followup_vectors(alpha, pairs):
    out = [[a] for a in alpha]
    if pairs == "all":
        out += [[a, b] for a in alpha for b in alpha]
    else:
        out += [[alpha[i], alpha[(i + 1) % len(alpha)]] for i in range(len(alpha))]
    out.append(list(alpha))
    return out


def subchecks(tier, seed):
    N.selftest()
    quick = tier == "quick"
    L = 4 if quick else 5
    Lf = 3 if quick else 4
    fu_ring = followup_vectors(ALPHA, "ring")
    fu_all = followup_vectors(ALPHA, "all")
    fu_poly = [[a] for a in ALPHA] + [ALPHA + [NAN], [NAN, 1.0]]
    outs = ["pandas"] if quick else ["pandas", "sparse"]
    alpha = [fmt(a) for a in ALPHA]
    cfgs = [cfg_expr(c_) for c_ in SCALE_CFGS]
    fu_txt = ("every vector of length 1 and a ring of 6 pairs over the alphabet + the whole alphabet" if quick else
              "every vector of length 1..2 over the alphabet + the whole alphabet (training length <= 3); singletons, 6 pairs and "
              "the whole alphabet for longer training vectors")
    subs = [
        Sub("scale-direct", drv_scale, {"L": L, "containers": ["ndarray", "series"], "followups": fu_ring if quick else fu_all,
                                        "followups_short": fu_ring, "full_followups_upto": 3}, shard_depth=3,
            bounds={"alphabet": alpha, "length": "2..%d" % L, "configurations": cfgs, "containers": ["ndarray", "series"],
                    "followup_vectors": fu_txt}),
        Sub("scale-sparse-input", drv_scale, {"L": 3, "containers": ["sparse"], "followups": fu_ring}, shard_depth=3,
            bounds={"alphabet": alpha, "length": "2..3", "configurations": cfgs, "containers": ["one-column csc matrix"],
                    "followup_vectors": "singletons, 6 pairs, the whole alphabet"}),
        Sub("scale-formula", drv_scale_formula, {"L": Lf, "outputs": outs, "followups": [list(ALPHA), [ALPHA[4]], [ALPHA[5], ALPHA[0]]]}, shard_depth=3,
            bounds={"alphabet": alpha, "length": "2..%d" % Lf, "configurations": "all %d in one formula" % len(SCALE_CFGS), "outputs": outs,
                    "followup_frames": [alpha, [alpha[4]], [alpha[5], alpha[0]]]}),
        Sub("poly-direct", drv_poly, {"L": L, "containers": ["ndarray"] if quick else ["ndarray", "series"], "containers_upto": 4,
                                      "followups": fu_poly}, shard_depth=3,
            bounds={"alphabet": alpha, "length": "2..%d" % L, "degree": "1..3", "null": "none or one null inserted at every position",
                    "containers": "ndarray" if quick else "ndarray; also pandas Series for length <= 4",
                    "followup_vectors": "each alphabet value, the whole alphabet + null, [null, 1]"}),
        Sub("poly-formula", drv_poly_formula, {"L": Lf, "outputs": outs}, shard_depth=3,
            bounds={"alphabet": alpha, "length": "2..%d" % Lf, "degree": "all feasible degrees 1..3 in one formula", "null": "none or every position",
                    "na_action": ["drop", "ignore"], "outputs": outs, "followup_frame": alpha + ["nan"]}),
        # --- data with a large common offset and a small spread, and uniformly rescaled data (x = o + h*d)
        Sub("scale-grids", drv_scale, {"L": 3 if quick else 4, "containers": ["ndarray", "int64", "int32"] if quick else ["ndarray", "series", "int64", "int32"],
                                       "grids": SCALE_GRIDS, "D": [0.0, 1.0, 3.0]}, shard_depth=3,
            bounds={"x": "o + h*d, d every vector of length 2..%d over {0, 1, 3}" % (3 if quick else 4), "(o, h)": [list(g) for g in SCALE_GRIDS],
                    "configurations": cfgs, "followup_vectors": "o + h*{-1,0,1,2,3,10}: singletons, 6 pairs, all of them + 0.0",
                    "containers": "float64 ndarray (thorough: + Series); int64 / int32 ndarray for the integral grids"}),
        Sub("scale-grids-formula", drv_scale_formula, {"L": 3, "outputs": outs, "grids": SCALE_GRIDS_F if quick else SCALE_GRIDS, "D": [0.0, 1.0, 3.0]},
            shard_depth=3,
            bounds={"x": "o + h*d, d every vector of length 2..3 over {0, 1, 3}", "(o, h)": [list(g) for g in (SCALE_GRIDS_F if quick else SCALE_GRIDS)],
                    "configurations": "all %d in one formula" % len(SCALE_CFGS), "outputs": outs}),
        Sub("poly-grids", drv_poly, {"L": 4 if quick else 5, "maxdeg": 3 if quick else 4, "containers": ["ndarray", "int64"], "nulls": False,
                                     "grids": POLY_GRIDS, "D": [0.0, 1.0, 2.0, 5.0] if quick else [0.0, 1.0, 2.0, 3.0, 5.0]}, shard_depth=3,
            bounds={"x": "o + h*d, d every vector of length 2..%d over %s" % ((4, "{0,1,2,5}") if quick else (5, "{0,1,2,3,5}")),
                    "(o, h)": [list(g) for g in POLY_GRIDS], "degree": "1..%d" % (3 if quick else 4),
                    "extra_oracle": "poly(o + h*d) == poly(d) (invariance under change of origin and units)",
                    "containers": "float64 ndarray; int64 ndarray for the integral grids"}),
        Sub("poly-grids-formula", drv_poly_formula, {"L": 3 if quick else 4, "outputs": outs, "nulls": False, "grids": POLY_GRIDS_F if quick else POLY_GRIDS,
                                                     "D": [0.0, 1.0, 2.0, 5.0]}, shard_depth=3,
            bounds={"x": "o + h*d, d every vector of length 2..%d over {0,1,2,5}" % (3 if quick else 4),
                    "(o, h)": [list(g) for g in (POLY_GRIDS_F if quick else POLY_GRIDS)], "null": "none or first position", "outputs": outs}),
        # --- magnitudes whose squares / cubes leave the float64 (or int64) range although data and result are representable
        Sub("scale-extreme", drv_scale, {"L": 3, "containers": ["ndarray"], "grids": [(0.0, 1e200), (0.0, 1e-200), (1e200, 1e199)], "D": [0.0, 1.0, 3.0],
                                         "sig_override": "extreme-magnitude-scale"}, shard_depth=3,
            bounds={"x": "o + h*d, d every vector of length 2..3 over {0, 1, 3}", "(o, h)": [[0.0, 1e200], [0.0, 1e-200], [1e200, 1e199]], "configurations": cfgs}),
        Sub("poly-extreme", drv_poly, {"L": 4, "maxdeg": 3, "containers": ["ndarray", "int64"], "nulls": False, "raw_int": True,
                                       "grids": [(0.0, 1e160), (0.0, 1e-160), (0.0, 1e6)], "D": [0.0, 1.0, 2.0, 5.0], "sig_override": "extreme-magnitude-poly"}, shard_depth=3,
            bounds={"x": "o + h*d, d every vector of length 2..4 over {0, 1, 2, 5}", "(o, h)": [[0.0, 1e160], [0.0, 1e-160], [0.0, 1e6]], "degree": "1..3",
                    "containers": "float64 ndarray; int64 ndarray for h = 1e6 (raw=True: cubes up to 1.25e20 exceed int64)"}),
        Sub("scale-multicolumn", drv_scale_multicol, {"L": 3, "K": 2 if quick else 3}, shard_depth=4,
            bounds={"rows": "2..3", "columns": "2" if quick else "2..3", "column_values": "unit_j * {0, 1, 3}, units (1, 1 or 1e3, 1e-3)",
                    "configurations": [cfg_expr(c_, "X") for c_ in MC_CFGS], "containers": ["2-d ndarray", "DataFrame"],
                    "followups": "3 new matrices with the recorded state"}),
        Sub("nested-formula", drv_nested_formula, {"L": 3 if quick else 4, "outputs": outs}, shard_depth=3,
            bounds={"alphabet": [fmt(a) for a in NEST_ALPHA], "length": "2..%d" % (3 if quick else 4), "inner": [cfg_expr(c_) for c_ in NEST_INNER] + ["poly(x, 2)"],
                    "wrappers": [w[1] for w in NEST_WRAPPERS], "attribute_style_callees": ["ft.scale(x)", "ft.center(x)", "ft.scale(x, ddof=0.5)", "ft.patsy_compat.standardize(x)", "formulaic.transforms.center(x)",
                                                "fm.transforms.scale(x, center=False)", "exp(ft.center(x))", "exp(ft.scale(x))", "ft.poly(x, 2)"],
                    "multi_column": ["scale(poly(x, 2))", "standardize(poly(x, 2))", "scale(poly(x, 2, raw=True), ddof=0)", "center(poly(x, 2, raw=True))"],
                    "outputs": outs, "followup_frames": NEST_NEW}),
        Sub("name-history", drv_name_history, {"D": 2 if quick else 3}, shard_depth=3,
            bounds={"names": HIST_NAMES, "events": HIST_EVENTS, "history_length": "2" if quick else "2..3",
                    "isolation": "each history runs in a fresh interpreter", "train": HIST_TRAIN, "new": HIST_NEW}),
        Sub("elementwise-direct", drv_elementwise, {"L": 2 if quick else 3}, shard_depth=2,
            bounds={"alphabet": [fmt(a) for a in EALPHA], "length": "1..%d" % (2 if quick else 3), "functions": sorted(N.ELEMENTWISE),
                    "containers": ["ndarray", "series", "scalar"]}),
        Sub("elementwise-dtypes", drv_elementwise_typed, {"L": 2 if quick else 3, "dtypes": INT_DTYPES + ["Int64", "pyint", "bool", "float32"]}, shard_depth=3,
            bounds={"alphabet": {"integers": IALPHA, "bool": [False, True], "float32": "float32(E) + {-2, 25}"}, "length": "1..%d" % (2 if quick else 3),
                    "dtypes": INT_DTYPES + ["pandas Int64", "python int (scalar)", "bool", "float32"], "containers": ["ndarray", "series", "scalar"],
                    "domain": "logarithms: all values > 0; exponentials: all values <= 64"}),
        Sub("elementwise-dtypes-formula", drv_elementwise_typed_formula, {"L": 2 if quick else 3, "dtypes": INT_DTYPES + ["Int64", "bool", "float32"],
                                                                          "outputs": ["pandas"] if quick else ["pandas", "sparse", "numpy"]}, shard_depth=3,
            bounds={"length": "1..%d" % (2 if quick else 3), "dtypes": INT_DTYPES + ["pandas Int64", "bool", "float32"],
                    "outputs": ["pandas"] if quick else ["pandas", "sparse", "numpy"], "values": "<= 64"}),
        Sub("elementwise-formula", drv_elementwise_formula, {"L": 2 if quick else 3, "outputs": ["pandas", "sparse", "numpy"]}, shard_depth=2,
            bounds={"alphabet": [fmt(a) for a in EALPHA], "length": "1..%d" % (2 if quick else 3), "outputs": ["pandas", "sparse", "numpy"]}),
    ]
    return subs
