"""C18 - materialization is pure and deterministic across calls, histories and hash seeds."""
import itertools
import json
import os
import pickle
import subprocess
import sys
import warnings

import numpy as np
import pandas as pd

from mc.canon import canon, digest, matrix_state, spec_state
from mc.explorer import Skip
from mc.runner import Sub

RULE = (
    "(histories) EVERY history of <= D events over shared Formula objects, shared unfitted ModelSpec objects, two frames and every "
    "spec produced so far - events: build via model_matrix / Formula method / shared unfitted spec, reuse(spec, frame), update(), "
    "pickle, subset, differentiate, required_variables.  After every event: both frames and all formulas are bit-identical to "
    "their initial digests; the event's result equals the result of the same call (with only its own lineage) in a fresh world; "
    "every spec obtained so far has the state digest it had when obtained and, at the end, behaves like its pickled snapshot.  "
    "(factor-order seam) the set of factors whose iteration order depends on the hash seed is replaced by EVERY permutation; results "
    "must be identical.  (seeds) fresh interpreters under several PYTHONHASHSEED values must print the same digests - a cross-check "
    "that the seam owns the nondeterminism.  Non-trivial = the history contains >= 2 events touching a common object."
)
ASSUMPTIONS = [
    "2^32 hash seeds cannot be enumerated: the seed reaches results only through set[Factor] iteration order, which is enumerated exhaustively through the seam; separate-process seed runs only validate the seam",
    "bit-identical is decided on canonical digests of values, dtypes, index, column names and spec state (mc/canon.py)",
]

FORMULA_SRC = {"F1": "center(a) + A", "F2": "a:A + scale(b)", "F3": "y ~ a | A", "F4": "bs(a, df=3) + C(A, contr.sum)",
               "F5": "0 + A:B + center(b)", "F6": "bs(a, knots=kn, degree=2) + center(b)",
               # several python factors over the same back-quoted names, two of which (`a b`, `a+b`) sanitize to one python alias
               "F7": "center(`a b`) + scale(`a b`) + center(`a+b`)",
               # objects owned by the caller and handed over through the context: a contrasts instance (re-used for factors whose levels put its
               # base at different positions) and a float array (transforms must not work on it in place)
               "F8": "C(G, tr) + a", "F9": "lag(z4) + scale(z4, center=False) + a",
               # a helper from the caller's context that itself builds a model matrix (of other data) while the outer build is under way
               "F10": "a + nested(b) + A"}


def _plain_center(x):
    return x - 1.0


def _plain_scale(x):
    return x * 2.0


def _nested(x):
    """builds an unrelated model matrix in the middle of somebody else's build, then hands its argument back"""
    from formulaic import model_matrix
    other = pd.DataFrame({"a": [10.0, 20.0, 30.0], "b": [1.0, 0.0, 2.0], "A": pd.Series(["q", "r", "q"], dtype=object)})
    model_matrix("a + b + A", other)
    return x


# evaluation contexts: the default one, and one in which the names of two built-in *stateful* transforms are bound to plain functions
def make_contexts():
    """fresh caller-owned context objects for every world (they are inputs: a build must not change them)"""
    from formulaic.transforms.contrasts import TreatmentContrasts
    return {"ctx-default": {"kn": [2.0, 4.0], "tr": TreatmentContrasts(base="c"), "z4": np.array([1.0, 2.0, 4.0, 8.0]), "nested": _nested},
            "ctx-shadow": {"center": _plain_center, "scale": _plain_scale, "kn": [2.0, 4.0], "tr": TreatmentContrasts(base="c"), "z4": np.array([1.0, 2.0, 4.0, 8.0])}}


CONTEXTS = make_contexts()


def make_world():
    from formulaic import Formula, ModelSpec
    d1 = pd.DataFrame({"y": [1.0, 2.0, 3.0, 4.0], "a": [1.0, 2.0, 4.0, 7.0], "b": [0.5, 1.5, -2.0, 3.0],
                       "A": pd.Series(["x", "y", "x", "z"], dtype=object), "B": pd.Series(["u", "v", "v", "u"], dtype=object)})
    d2 = pd.DataFrame({"y": [5.0, 6.0, 7.0, 8.0, 9.0], "a": [10.0, np.nan, 30.0, 50.0, 20.0], "b": [5.0, 7.0, 9.0, 11.0, 2.0],
                       "A": pd.Series(["y", "y", "z", None, "x"], dtype=object), "B": pd.Series(["v", "u", "u", "v", "w"], dtype=object)},
                      index=[3, 1, 4, 1, 5])
    d1[7] = [0.0, 1.0, 0.0, 1.0]  # a non-string column label that no formula uses
    d1["G"], d2["G"] = pd.Series(["a", "b", "c", "a"], dtype=object), pd.Series(["b", "c", "d", "b", "c"], dtype=object, index=d2.index)
    d1["a b"], d1["a+b"] = [3.0, 1.0, 4.0, 1.5], [10.0, 20.0, 30.0, 25.0]
    d2["a b"], d2["a+b"] = [2.0, 7.0, 1.0, 8.0, 2.5], [1.0, 4.0, 9.0, 16.0, 25.0]
    w = {"D1": d1, "D2": d2}
    for k, src in FORMULA_SRC.items():
        if k in ("F6", "F7", "F8", "F9", "F10"):
            continue  # F6 needs a context (knots list): only built through ("mmctx", ...); F7 is built from its string there too
        try:
            w[k] = Formula(src)
            w["U" + k[1:]] = ModelSpec.from_spec(w[k])
        except Exception as e:  # noqa - e.g. module-level parser state left behind by an earlier event: shows up as a differing result
            w[k] = w["U" + k[1:]] = e
    w["specs"] = {}
    w["contexts"] = make_contexts()
    return w


def world_digests(w):
    out = {"D1": digest(w["D1"]), "D2": digest(w["D2"]),
           "contexts": digest({k: {n: (v if not callable(v) else getattr(v, "__name__", repr(v))) for n, v in c_.items()} for k, c_ in w["contexts"].items()})}
    for k in FORMULA_SRC:
        if k in w:
            out[k] = digest(_formula_terms(w[k])) if not isinstance(w[k], Exception) else repr(w[k])[:80]
    return out


def _formula_terms(f):
    """every observable attribute of a formula: terms in order, and per factor its expression, evaluation method, kind and metadata"""
    from formulaic.utils.structured import Structured
    if isinstance(f, Structured):
        return [_formula_terms(x) for x in f._flatten()]
    return [[str(t), [(fa.expr, fa.eval_method.value, fa.kind.value, canon(fa.metadata)) for fa in t.factors]] for t in f]


def result_digest(r):
    from formulaic.formula import Formula
    from formulaic.model_spec import ModelSpec, ModelSpecs
    from formulaic.utils.structured import Structured
    if isinstance(r, Exception):
        return ("raised", type(r).__name__)
    if isinstance(r, (ModelSpec, ModelSpecs)):
        return ("spec", digest(spec_state(r)))
    from formulaic.model_matrix import ModelMatrices
    if isinstance(r, Formula) or (isinstance(r, Structured) and not isinstance(r, ModelMatrices)):
        return ("formula", digest(_formula_terms(r)))
    if isinstance(r, (set, frozenset, list)):
        return ("set", sorted(str(x) for x in r))
    return ("matrix", digest(matrix_state(r)), digest(spec_state(r.model_spec)))


def resolve(w, expr, fresh):
    """spec expression -> live object.  In the history world objects created earlier are shared; in a fresh world the
    expression is evaluated from scratch."""
    if expr in w["specs"]:
        return w["specs"][expr]
    if not fresh:
        raise KeyError(expr)
    kind = expr[0]
    if kind == "spec_of":
        r = do_event(w, expr[1], fresh=True)
        s = r.model_spec
    elif kind == "update":
        s = resolve(w, expr[1], True).update()
    elif kind == "pickle":
        s = pickle.loads(pickle.dumps(resolve(w, expr[1], True)))
    elif kind == "subset":
        base = resolve(w, expr[1], True)
        s = base.subset([str(list(base.formula)[-1])])
    else:
        raise AssertionError(expr)
    w["specs"][expr] = s
    return s


def do_event(w, ev, fresh=False):
    from formulaic import model_matrix
    kind = ev[0]
    with warnings.catch_warnings():
        warnings.simplefilter("ignore")
        try:
            if kind == "mm":
                return model_matrix(w[ev[1]], w[ev[2]], context={})
            if kind == "mmctx":
                return model_matrix(FORMULA_SRC[ev[1]], w[ev[2]], context=w["contexts"][ev[3]])
            if kind == "fmm":
                return w[ev[1]].get_model_matrix(w[ev[2]])
            if kind == "umm":
                return w["U" + ev[1][1:]].get_model_matrix(w[ev[2]])
            if kind == "reuse":
                return resolve(w, ev[1], fresh).get_model_matrix(w[ev[2]])
            if kind in ("update", "pickle", "subset"):
                return resolve(w, (kind, ev[1]), True) if fresh else _make_spec(w, (kind, ev[1]))
            if kind == "parser":
                # somebody else configures a parser of their own (and uses it once): must not influence anybody's later parses
                from formulaic.parser import DefaultFormulaParser
                from props.common import terms_to_plain
                return [repr(terms_to_plain(DefaultFormulaParser(feature_flags=set(f for f in ev[1].split("+") if f)).get_terms("a + b")))]
            if kind == "diff":
                return w[ev[1]].differentiate("a")
            if kind == "reqvars":
                return set(w[ev[1]].required_variables)
            if kind == "spec-reqvars":
                return set(resolve(w, ev[1], fresh).required_variables)
        except Exception as e:  # noqa
            return e
    raise AssertionError(ev)


def _make_spec(w, expr):
    base = w["specs"][expr[1]]
    if expr[0] == "update":
        s = base.update()
    elif expr[0] == "pickle":
        s = pickle.loads(pickle.dumps(base))
    else:
        s = base.subset([str(list(base.formula)[-1])])
    w["specs"][expr] = s
    return s


_FRESH = {}


def fresh_digest(ev):
    if ev not in _FRESH:
        w = make_world()
        _FRESH[ev] = result_digest(do_event(w, ev, fresh=True))
    return _FRESH[ev]


def menu(w, ctx):
    from formulaic.model_spec import ModelSpec
    evs = []
    for f in ctx["formulas"]:
        for d in ("D1", "D2"):
            for entry in ctx["entries"]:
                evs.append((entry, f, d))
    for f in ctx.get("ctx_formulas", []):
        for d in ("D1", "D2"):
            for cn in CONTEXTS:
                evs.append(("mmctx", f, d, cn))
    for expr, s in list(w["specs"].items()):
        for d in ("D1", "D2"):
            evs.append(("reuse", expr, d))
        depth = _depth(expr)
        if depth < 2:
            evs.append(("update", expr))
            evs.append(("pickle", expr))
            if isinstance(s, ModelSpec) and len(list(s.formula)) > 1:
                evs.append(("subset", expr))
        evs.append(("spec-reqvars", expr))
    for f in ctx["formulas"]:
        evs.append(("diff", f))
        evs.append(("reqvars", f))
    for flags in ctx.get("parser_events", []):
        evs.append(("parser", flags))
    return evs


def _depth(expr):
    d = 0
    while expr[0] in ("update", "pickle", "subset"):
        expr = expr[1]
        d += 1
    return d


def touched(ev):
    out = set()
    def walk(e):
        for x in e:
            if isinstance(x, tuple):
                walk(x)
            elif isinstance(x, str) and (x[0] in "FD" and x[1:].isdigit()):
                out.add(x)
    walk(ev)
    if ev[0] == "umm":
        out.add("U" + ev[1][1:])
    return out


def drv_hist(c, ctx, col):
    w = make_world()
    d0 = world_digests(w)
    udig = {k: digest(spec_state(w[k])) for k in w if k.startswith("U")}
    snapshots = {}
    n = 1 + c.upto(ctx["D"] - 1)
    hist = []
    seen_objs = []
    for step in range(n):
        evs = menu(w, ctx)
        ev = c.pick(evs)
        hist.append(ev)
        key = "history %s" % (hist,)
        r = do_event(w, ev)
        if ev[0] in ("mm", "fmm", "umm", "mmctx") and not isinstance(r, Exception):
            expr = ("spec_of", ev)
            if expr not in w["specs"]:
                w["specs"][expr] = r.model_spec
        got = result_digest(r)
        want = fresh_digest(ev)
        detail = {"history": hist, "step": step, "event": ev, "formulas": FORMULA_SRC}
        if got != want:
            col.violation(key, dict(detail, got=got, fresh=want, note="the same call as the only call of a fresh history gives another result"),
                          sig="history-dependent-result:" + ev[0])
            return
        d1 = world_digests(w)
        if d1 != d0:
            bad = [k for k in d0 if d0[k] != d1[k]]
            col.violation(key, dict(detail, mutated=bad), sig="input-mutated:" + ",".join(bad))
            return
        for k, dg in udig.items():
            if digest(spec_state(w[k])) != dg:
                col.violation(key, dict(detail, spec=k, note="a shared, not yet materialized ModelSpec object was changed by building a matrix from it"),
                              sig="shared-spec-mutated")
                return
        for expr, s in w["specs"].items():
            dg = digest(spec_state(s))
            if expr not in snapshots:
                snapshots[expr] = (dg, pickle.dumps(s))
            elif snapshots[expr][0] != dg:
                col.violation(key, dict(detail, spec=repr(expr)), sig="previously-obtained-spec-changed")
                return
        col.state((tuple(sorted(d1.items())), tuple(sorted((repr(e), v[0]) for e, v in snapshots.items()))))
        seen_objs.append(touched(ev))
    # at the end every spec behaves like its snapshot
    for expr, (dg, blob) in snapshots.items():
        live = w["specs"][expr]
        snap = pickle.loads(blob)
        for d in ("D1", "D2"):
            with warnings.catch_warnings():
                warnings.simplefilter("ignore")
                a = result_digest(_safe(lambda: live.get_model_matrix(make_world()[d])))
                b = result_digest(_safe(lambda: snap.get_model_matrix(make_world()[d])))
            if a != b:
                col.violation("history %s" % (hist,), {"history": hist, "spec": repr(expr), "frame": d, "live": a, "snapshot": b},
                              sig="spec-behaviour-changed")
                return
    if any(seen_objs[i] & seen_objs[j] for i in range(len(seen_objs)) for j in range(i)):
        col.interesting()
    col.sample({"history": [list(map(str, e)) for e in hist]})


def _safe(fn):
    try:
        return fn()
    except Exception as e:  # noqa
        return e


# ---------------------------------------------------------------------------
# the factor-order seam

PERM_FORMULAS = [FORMULA_SRC["F7"], "center(a) + A", "a:A + scale(b)", "y ~ a | A", "bs(a, df=3) + C(A, contr.sum) + b", "center(a) + scale(b) + A + {a*b}",
                 "poly(a, 2):A + center(b)", "y ~ center(a) + A | scale(a) + b"]


def drv_perm(c, ctx, col):
    from formulaic import model_matrix
    from formulaic.materializers.base import FormulaMaterializer
    src = c.pick(PERM_FORMULAS)
    dname = c.pick(["D1", "D2"])
    output = c.pick(ctx.get("outputs", ["pandas", "sparse"]))
    w = make_world()
    data = w[dname]
    orig = FormulaMaterializer._prepare_factor_evaluation_model_spec
    seen = {}

    def probe(self, model_specs):
        factors, spec = orig(self, model_specs)
        seen["n"] = len(factors)
        return factors, spec

    FormulaMaterializer._prepare_factor_evaluation_model_spec = probe
    try:
        with warnings.catch_warnings():
            warnings.simplefilter("ignore")
            base = model_matrix(src, data, output=output)
    finally:
        FormulaMaterializer._prepare_factor_evaluation_model_spec = orig
    nf = seen["n"]
    perm = c.perm(list(range(nf)))

    def seam(self, model_specs):
        factors, spec = orig(self, model_specs)
        fl = sorted(factors, key=lambda f: f.expr)
        return [fl[i] for i in perm], spec

    FormulaMaterializer._prepare_factor_evaluation_model_spec = seam
    try:
        with warnings.catch_warnings():
            warnings.simplefilter("ignore")
            drop = set()
            got = model_matrix(src, make_world()[dname], output=output, drop_rows=drop)
    finally:
        FormulaMaterializer._prepare_factor_evaluation_model_spec = orig
    key = "factor-order %r frame=%s output=%s perm=%s" % (src, dname, output, perm)
    if perm != sorted(perm):
        col.interesting()
    if result_digest(got) != result_digest(base):
        col.violation(key, {"formula": src, "frame": dname, "output": output, "factor_order": perm,
                            "note": "evaluating the pooled factors in another order changes the result"}, sig="factor-order-dependent-result")
    col.sample({"formula": src, "frame": dname, "factor_permutation": perm})


# ---------------------------------------------------------------------------
# builds that overlap in time: a helper in the caller's context builds another model matrix while the outer build is under way

NESTED_FORMULAS = [("a + nested(b) + A", "a + b + A"), ("nested(a):A + b", "a:A + b"), ("y ~ nested(a) | A + nested(b)", "y ~ a | A + b"), ("center(a) + nested(b)", "center(a) + b")]


def drv_nested(c, ctx, col):
    from formulaic import model_matrix
    from props.common import dense
    src, plain = c.pick(NESTED_FORMULAS)
    dname = c.pick(["D1", "D2"])
    output = c.pick(["pandas", "numpy", "sparse"])
    depth = 1 + c.upto(1)  # the helper's own build may itself use the helper

    def nested(x, _d=[0]):
        _d[0] += 1
        try:
            other = pd.DataFrame({"a": [10.0, 20.0, 30.0], "b": [1.0, 0.0, 2.0], "A": pd.Series(["q", "r", "q"], dtype=object), "y": [0.0, 1.0, 2.0]})
            model_matrix("a + nested(b) + A" if _d[0] < depth else "a + b + A", other, context={"nested": nested})
        finally:
            _d[0] -= 1
        return x

    key = "nested-build %r frame=%s output=%s depth=%d" % (src, dname, output, depth)
    with warnings.catch_warnings():
        warnings.simplefilter("ignore")
        want = _safe(lambda: model_matrix(plain, make_world()[dname], output=output))
        got = _safe(lambda: model_matrix(src, make_world()[dname], output=output, context={"nested": nested}))
    col.interesting()

    def flat(r):
        from formulaic.utils.structured import Structured
        if isinstance(r, Exception):
            return ("raised", type(r).__name__)
        parts = list(r._flatten()) if isinstance(r, Structured) else [r]
        return [dense(p_).tolist() for p_ in parts]

    a, b = flat(got), flat(want)
    if digest(a) != digest(b):
        col.violation(key, {"formula": src, "same_formula_without_the_helper": plain, "frame": dname, "output": output, "got": a, "want": b,
                            "note": "a build started from inside a context function changes the outer build's result"}, sig="overlapping-builds-interfere")
    col.sample({"formula": src, "frame": dname, "output": output})


# ---------------------------------------------------------------------------
# one materializer object serving several builds

REUSE_FORMULAS = ["a", "A", "a + A", "b + B", "y ~ a | A", "center(a) + b"]


def drv_mat_reuse(c, ctx, col):
    from formulaic.materializers import NarwhalsMaterializer, PandasMaterializer
    f1, f2 = c.pick(REUSE_FORMULAS), c.pick(REUSE_FORMULAS)
    dname = c.pick(["D1", "D2"])
    o1, o2 = c.pick(["pandas", "sparse"]), c.pick(["pandas", "numpy"])
    cls = c.pick([PandasMaterializer, NarwhalsMaterializer])
    key = "materializer-reuse %s(%s): %r [%s] then %r [%s]" % (cls.__name__, dname, f1, o1, f2, o2)
    with warnings.catch_warnings():
        warnings.simplefilter("ignore")
        m = cls(make_world()[dname][["y", "a", "b", "A", "B"]])
        _safe(lambda: m.get_model_matrix(f1, output=o1))
        d_got = set()
        got = _safe(lambda: m.get_model_matrix(f2, output=o2, drop_rows=d_got))
        d_want = set()
        want = _safe(lambda: cls(make_world()[dname][["y", "a", "b", "A", "B"]]).get_model_matrix(f2, output=o2, drop_rows=d_want))
    col.interesting()
    a, b = (result_digest(got), sorted(int(i) for i in d_got)), (result_digest(want), sorted(int(i) for i in d_want))
    if a != b:
        col.violation(key, {"first": f1, "first_output": o1, "second": f2, "second_output": o2, "frame": dname, "materializer": cls.__name__,
                            "second_after_first": a, "second_on_a_fresh_materializer": b}, sig="materializer-object-remembers-earlier-build")
    col.sample({"first": f1, "second": f2, "frame": dname})


# ---------------------------------------------------------------------------
# the hash-order seam: iteration order of ANY set / dict of the library's hashable objects

HASH_CLASSES = {
    "Factor": ("formulaic.parser.types.factor", "Factor", lambda o: o.expr),
    "ScopedFactor": ("formulaic.materializers.types.scoped_factor", "ScopedFactor", lambda o: repr(o)),
    "ScopedTerm": ("formulaic.materializers.types.scoped_term", "ScopedTerm", lambda o: tuple(sorted(repr(f) for f in o.factors))),
}
HASH_FORMULAS = ["A:B", "0 + A:B", "a + A:B", "a:A + scale(b)", "center(a) + A + B + A:B", "0 + A:B + center(b)", "y ~ a + A:B | B:A", "A:B:a + b"]


def drv_hashorder(c, ctx, col):
    """The interpreter's hash seed decides the iteration order of sets of Factor / ScopedFactor / ScopedTerm objects (their
    hashes derive from str hashes).  CPython iterates a small set in ascending order of hash & mask, so replacing a class's
    __hash__ by a harness-chosen rank makes EVERY iteration order of every set of such objects reachable.  All rank
    assignments (all permutations for <= 5 distinct objects, otherwise all choices of the first three) are enumerated;
    results must not change."""
    import importlib
    from formulaic import model_matrix
    cname = c.pick(list(HASH_CLASSES))
    src = c.pick(ctx["formulas"])
    dname = c.pick(["D1", "D2"])
    modname, clsname, keyfn = HASH_CLASSES[cname]
    cls = getattr(importlib.import_module(modname), clsname)
    orig = cls.__hash__
    keys = []

    def discover(self):
        k = keyfn(self)
        if k not in keys:
            keys.append(k)
        return orig(self)

    cls.__hash__ = discover
    try:
        with warnings.catch_warnings():
            warnings.simplefilter("ignore")
            base = _safe(lambda: model_matrix(src, make_world()[dname], context={}))
    finally:
        cls.__hash__ = orig
    n = len(keys)
    if n < 2:
        raise Skip()
    order = list(range(n))
    depth = n if n <= 5 else 3
    chosen = []
    for _ in range(depth):
        chosen.append(order.pop(c.choose(len(order))))
    perm = chosen + order
    rank = {keys[i]: r for r, i in enumerate(perm)}

    def patched(self):
        return rank.get(keyfn(self), 1000)

    cls.__hash__ = patched
    try:
        with warnings.catch_warnings():
            warnings.simplefilter("ignore")
            got = _safe(lambda: model_matrix(src, make_world()[dname], context={}))
    finally:
        cls.__hash__ = orig
    key = "hash-order class=%s %r frame=%s ranks=%s" % (cname, src, dname, perm)
    if perm != sorted(perm):
        col.interesting()
    a, b = result_digest(got), result_digest(base)
    if a != b:
        col.violation(key, {"class": cname, "formula": src, "frame": dname, "objects": [repr(k) for k in keys], "hash_ranks": perm,
                            "got": a, "baseline": b,
                            "note": "another iteration order of a set of %s objects (as another PYTHONHASHSEED would give) changes the result" % cname},
                      sig="hash-order-dependent-result:" + cname)
    col.sample({"class": cname, "formula": src, "frame": dname, "objects": len(keys), "ranks": perm})


# ---------------------------------------------------------------------------
# separate-process hash seeds (cross-check of the seam)

PROBE = r"""
import sys, json, warnings
sys.path.insert(0, %r)
repo = %r
if repo: sys.path.insert(0, repo)
warnings.simplefilter('ignore')
from props import c18
from formulaic import model_matrix
out = {}
for src in c18.PERM_FORMULAS + c18.HASH_FORMULAS:
    for d in ('D1', 'D2'):
        for output in ('pandas', 'sparse'):
            w = c18.make_world()
            drop = set()
            r = c18._safe(lambda: model_matrix(src, w[d], output=output, drop_rows=drop))
            out['%%s|%%s|%%s' %% (src, d, output)] = [c18.result_digest(r), sorted(int(i) for i in drop)]
# a formula given as a SET of terms, the recorded ORDER of transform state, and which factor a 'raise' policy names
w = c18.make_world()
r = c18._safe(lambda: model_matrix({'a', 'b', 'A', 'a:b'}, w['D1']))
out['set-spec|D1'] = [c18.result_digest(r), list(getattr(getattr(r, 'model_spec', None), 'column_names', []))]
r = c18._safe(lambda: model_matrix('center(a) + center(b) + scale(y) + C(A)', w['D1']))
out['state-order|D1'] = list(r.model_spec.transform_state) if not isinstance(r, Exception) else repr(r)
r = c18._safe(lambda: model_matrix('b + A + a', c18.make_world()['D2'], na_action='raise'))
out['raise-names|D2'] = str(r)[:200]
# a spec pickled by ANOTHER interpreter (hash seed 0) must behave like a spec built here
import pickle, base64
from formulaic.parser.types import Term, Factor
blob = %r
if blob:
    spec = pickle.loads(base64.b64decode(blob))
    def lookups(sp):
        res = []
        for probe in (lambda: sp.term_indices[Term([Factor('b'), Factor('a')])], lambda: sp.get_term_indices('b:a'), lambda: list(sp.subset('a').column_names),
                      lambda: sp.get_slice('a'), lambda: c18.result_digest(sp.get_model_matrix(c18.make_world()['D1']))):
            res.append(repr(c18._safe(probe)))
        return res
    here = model_matrix('a + b + b:a + A', c18.make_world()['D1']).model_spec
    out['foreign-pickle'] = [lookups(spec), lookups(here)]
else:
    out['pickle-blob'] = base64.b64encode(pickle.dumps(model_matrix('a + b + b:a + A', c18.make_world()['D1']).model_spec)).decode()
print(json.dumps(out, sort_keys=True))
"""


def run_probe(seed, blob=""):
    verif = os.path.dirname(os.path.dirname(os.path.abspath(__file__)))
    env = dict(os.environ, PYTHONHASHSEED=str(seed))
    p = subprocess.run([sys.executable, "-c", PROBE % (verif, os.environ.get("VERIF_REPO", ""), blob)], env=env, capture_output=True, text=True, timeout=600)
    if p.returncode != 0:
        raise RuntimeError("probe failed: " + p.stderr[-2000:])
    return json.loads(p.stdout.strip().splitlines()[-1])


def drv_seeds(c, ctx, col):
    seed = c.pick(ctx["seeds"])
    base = ctx["baseline"]
    got = run_probe(seed, base.get("pickle-blob", ""))
    col.interesting()
    fp = got.get("foreign-pickle")
    if fp is not None and fp[0] != fp[1]:
        col.violation("hash-seed PYTHONHASHSEED=%s foreign-pickle" % seed, {"seed": seed, "spec_pickled_under_seed_0": fp[0], "spec_built_here": fp[1],
                                                                           "probes": ["term_indices[Term(b, a)]", "get_term_indices('b:a')", "subset('a').column_names", "get_slice('a')", "get_model_matrix(D1)"]},
                      sig="pickled-spec-differs-in-another-interpreter")
        return
    for k in base:
        if k == "pickle-blob":
            continue
        if got.get(k) != base[k]:
            col.violation("hash-seed PYTHONHASHSEED=%s %s" % (seed, k), {"seed": seed, "case": k, "got": got.get(k), "seed0": base[k]},
                          sig="hash-seed-dependent-result")
            return
    col.sample({"PYTHONHASHSEED": seed, "cases": len(base)})


# ---------------------------------------------------------------------------
# histories in pristine interpreters: module-level state (caches, default-argument dictionaries, registries) that leaks
# between calls cannot be seen against an in-process "fresh world", so every history is also run in its own interpreter and
# each event's result is compared with the same event run alone in its own interpreter.

PROC_EVENTS = [("F8", "D1", "ctx-default"), ("F8", "D2", "ctx-default"), ("parser", ""), ("parser", "TWOSIDED"), ("F7", "D1", "ctx-default"), ("F6", "D1", "ctx-default"), ("F1", "D1", "ctx-default"), ("F1", "D1", "ctx-shadow"), ("F1", "D2", "ctx-default"), ("F2", "D1", "ctx-default"),
               ("F2", "D2", "ctx-shadow"), ("F5", "D2", "ctx-default"), ("F4", "D1", "ctx-default"), ("F3", "D1", "ctx-default")]

PROBE_HIST = r"""
import sys, json, warnings
sys.path.insert(0, %r)
repo = %r
if repo: sys.path.insert(0, repo)
warnings.simplefilter('ignore')
from props import c18
hist = json.loads(%r)
out = []
for ev in hist:
    w = c18.make_world()
    out.append(c18.result_digest(c18.do_event(w, tuple(ev) if ev[0] == 'parser' else ('mmctx',) + tuple(ev))))
print(json.dumps(out))
"""


def run_hist_probe(hist):
    verif = os.path.dirname(os.path.dirname(os.path.abspath(__file__)))
    env = dict(os.environ, PYTHONHASHSEED="0")
    p = subprocess.run([sys.executable, "-c", PROBE_HIST % (verif, os.environ.get("VERIF_REPO", ""), json.dumps(hist))],
                       env=env, capture_output=True, text=True, timeout=600)
    if p.returncode != 0:
        raise RuntimeError("probe failed: " + p.stderr[-2000:])
    return json.loads(p.stdout.strip().splitlines()[-1])


def proc_baseline():
    from concurrent.futures import ThreadPoolExecutor
    with ThreadPoolExecutor(8) as ex:
        res = list(ex.map(lambda e: run_hist_probe([e])[0], PROC_EVENTS))
    return {e: r for e, r in zip(PROC_EVENTS, res)}


def drv_proc_hist(c, ctx, col):
    n = 2 + c.upto(ctx["D"] - 2)
    hist = [c.pick(PROC_EVENTS) for _ in range(n)]
    if all(e[0] == "parser" for e in hist):
        raise Skip()
    got = run_hist_probe(hist)
    col.interesting()
    for i, (ev, g) in enumerate(zip(hist, got)):
        want = ctx["alone"][ev]
        if g != want:
            col.violation("process-history %s" % (hist,), {"history": hist, "step": i, "event": ev, "got": g, "alone_in_fresh_interpreter": want,
                                                         "formulas": FORMULA_SRC, "note": "the same call gives another result when other calls ran earlier in the same interpreter"},
                          sig="interpreter-history-dependent-result")
            return
    col.sample({"history": hist})


def subchecks(tier, seed):
    quick = tier == "quick"
    seeds = [1, 2, 3] if quick else list(range(1, 16))
    if quick:
        seeds = seeds + [100 + seed]
    return [
        Sub("histories", drv_hist, {"D": 2 if quick else 3, "formulas": ["F1", "F2", "F3"], "entries": ["mm", "umm"] if quick else ["mm", "fmm", "umm"]},
            shard_depth=2, bounds={"max_events": 2 if quick else 3, "formulas": FORMULA_SRC, "frames": 2}),
        Sub("histories-depth3-slice", drv_hist, {"D": 3, "formulas": ["F1"] if quick else ["F1", "F2", "F3", "F4"], "entries": ["umm"] if quick else ["mm", "umm"]},
            shard_depth=2, bounds={"max_events": 3, "formulas": ["F1"] if quick else list(FORMULA_SRC), "entries": "shared unfitted specs (+model_matrix in thorough)"}),
        Sub("histories-contexts", drv_hist, {"D": 2 if quick else 3, "formulas": [], "ctx_formulas": ["F1", "F2", "F6", "F3", "F7", "F8", "F9", "F10"], "entries": []},
            shard_depth=2, bounds={"max_events": 2 if quick else 3, "events": "builds of F1/F2 under the default context and under a context binding "
                                   "'center'/'scale' to plain functions, reuse of every produced spec, update, pickle, subset"}),
        Sub("overlapping-builds", drv_nested, {}, shard_depth=2,
            bounds={"formulas": [x[0] for x in NESTED_FORMULAS], "frames": 2, "outputs": 3, "nesting_depth": "1..2", "oracle": "the same formula without the helper"}),
        Sub("materializer-object-reuse", drv_mat_reuse, {}, shard_depth=2,
            bounds={"formulas": REUSE_FORMULAS, "pairs": "all ordered pairs", "frames": 2, "materializers": ["pandas", "narwhals"], "outputs": "2 x 2"}),
        Sub("hash-orders", drv_hashorder, {"formulas": HASH_FORMULAS[:4] if quick else HASH_FORMULAS}, shard_depth=3,
            bounds={"classes": list(HASH_CLASSES), "formulas": HASH_FORMULAS[:4] if quick else HASH_FORMULAS,
                    "orders": "all permutations of <= 5 distinct objects, otherwise every choice of the first three"}),
        Sub("factor-order", drv_perm, {"outputs": ["pandas"] if quick else ["pandas", "sparse"]}, shard_depth=3, bounds={"formulas": PERM_FORMULAS, "permutations": "all (<= 5! per build)"}),
        Sub("process-histories", drv_proc_hist, {"D": 2 if quick else 3, "alone": proc_baseline()}, shard_depth=2,
            bounds={"events": [list(e) for e in PROC_EVENTS], "history_length": "2" if quick else "2..3", "each history in its own interpreter": True}),
        Sub("hash-seeds", drv_seeds, {"seeds": seeds, "baseline": run_probe(0)}, shard_depth=1, bounds={"PYTHONHASHSEED": seeds, "baseline": 0}),
    ]
