"""C09 - reusing a spec on incompatible data fails loudly and never reshapes columns."""
import itertools
import warnings

import numpy as np
import pandas as pd
import scipy.sparse as sp

import props.common  # noqa: F401  (global warning filter; overridden locally where warnings are recorded)
from mc.explorer import Skip
from mc.runner import Sub
from models import dummy_ref as R

RULE = (
    "Operation histories on one recorded ModelSpec: fit formula F on a training frame (text column A = every "
    "non-empty multiset of <= 3 values over {x,y,z}, object dtype; numeric column a; text column B), then apply "
    "mm.model_spec.get_model_matrix to follow-up frame 1 and then to follow-up frame 2.  A follow-up varies one "
    "column: A <- every vector of length <= 3 (histories: <= 2) over {x,y,z,w} or a numeric vector (kind change); "
    "a <- numeric vectors or a text vector (kind change).  x formula {A, a, A:a, A:B, C(A), a + A, C(A, contr.sum)} "
    "x ensure_full_rank x output {pandas, numpy, sparse}.  Each application is compared with the stateless "
    "reference (models/dummy_ref.py evaluated with the TRAINING levels): FactorEncodingError iff a factor's kind "
    "changed; otherwise names == the spec's names, every row = the coding row of its level (all-zero for a level "
    "not seen at fit time), and a DataMismatchWarning iff an unseen level occurs.  The second application must "
    "equal what the same frame gives on a freshly fitted spec.  Sub-check 'representations': the same depth-1 "
    "oracle with the training column given as object / str / category (sorted or reversed declared order) and the "
    "follow-up column as str / string[pyarrow] / category whose declared categories are the values present, the "
    "trained levels plus the new ones, the reversed union, or the union plus a never-occurring extra category -- the "
    "recorded levels must govern whatever the follow-up column declares.  Depth 1 also references A through the "
    "pass-through Python factors I(A), Q('A'), {A}; depth 2 also hands the second frame to the spec attached to the "
    "FIRST FOLLOW-UP MATRIX (mm1.model_spec) instead of the training spec.  Non-trivial = the follow-up loses a level, gains a "
    "level or changes kind relative to the training column (counted per application)."
)
ASSUMPTIONS = [
    "small-scope hypothesis: level pinning, the kind guard and column reconciliation depend only on the set of "
    "trained levels (<= 3), the set of follow-up values (<= 3 rows over 4 letters, so 0-3 absent and 0-3 unseen "
    "levels occur in every combination) and the factor kinds; histories of depth 2 expose any state carried from "
    "one application to the next",
    "C(A) declares the factor categorical, so numbers arriving in A under C(A) are unseen levels (zero rows + "
    "warning), not a kind change",
    "a DataMismatchWarning although no unseen level occurs is not forbidden by the property: counted, not alarmed",
    "mutation of the recorded spec's encoder_state by an application is not forbidden by C09 (C18 covers purity): "
    "counted as spec-state-changed, alarmed only through its observable effect on the next application",
    "the training-time column structure is C03/C08 territory: if the reference and formulaic disagree on the column "
    "names at FIT time the history is skipped and counted (0 on the current tree)",
]

FORMULAS = ["A", "a", "A:a", "A:B", "C(A)", "a + A", "C(A, contr.sum)"]
VARIES = {"A": ["A"], "a": ["a"], "A:a": ["A", "a"], "A:B": ["A"], "C(A)": ["A"], "a + A": ["A", "a"],
          "C(A, contr.sum)": ["A"]}
C_FORMULAS = ("C(A)", "C(A, contr.sum)")
# the same column referenced through a pass-through Python factor instead of a bare look-up: the recorded kind must
# be enforced for these exactly as for `A`
PASS_THROUGH = {"I(A)": "I(A)", "Q('A')": "Q('A')", "{A}": "A"}   # formula -> printed factor name
for _f in PASS_THROUGH:
    VARIES[_f] = ["A"]
TRAIN_B = ["p", "q", "p"]
TRAIN_a = [1.5, -2.0, 4.0]
FOLLOW_a = [2.5, -1.0, 3.0]

TRAININGS = [list(reversed(t)) for n in (1, 2, 3) for t in itertools.combinations_with_replacement("xyz", n)]
REPRESENTATIVES = [["x"], ["y", "x"], ["z", "y", "x"]]                      # one per number of levels
LEVEL_SETS = [list(reversed(t)) for n in (1, 2, 3) for t in itertools.combinations("xyz", n)]  # one per level set


def trainings_of(ctx):
    trs = ctx["trainings"]
    return [t for v in trs.values() for t in v] if isinstance(trs, dict) else trs


def text_events(col, alphabet, maxlen):
    return [(col, "text", list(v)) for n in range(1, maxlen + 1) for v in itertools.product(alphabet, repeat=n)]


def num_events(col, values, maxlen):
    return [(col, "num", list(v)) for n in range(1, maxlen + 1) for v in itertools.product(values, repeat=n)]


A_NUMERIC = [("A", "num", [7.0]), ("A", "num", [7.0, 8.5]), ("A", "int", [1, 2, 3])]
# the follow-up column holds nothing but missing values, as a NUMERIC column (float64 all-NaN; a zero-row float64 column)
A_MISSING = [("A", "nan", [None]), ("A", "nan", [None, None]), ("A", "nan", [])]
a_TEXT = [("a", "text", ["u"]), ("a", "text", ["u", "v"]), ("a", "text", ["x", "x"])]
a_VALUES = (0.0, 1.5, -2.0)


def make_frame(A, B, a, a_text=False, A_kind="text"):
    if A_kind == "text":
        colA = pd.Series(A, dtype=object)
    elif A_kind == "int":
        colA = pd.Series(A, dtype="int64")
    else:
        colA = pd.Series(A, dtype="float64")
    cola = pd.Series(a, dtype=object) if a_text else pd.Series(a, dtype="float64")
    return pd.DataFrame({"A": colA, "B": pd.Series(B, dtype=object), "a": cola})


def training_frame(tr):
    n = len(tr)
    return make_frame(tr, TRAIN_B[:n], TRAIN_a[:n])


def followup(tr, ev):
    """-> (frame, rows for the reference, description)"""
    col, kind, vec = ev
    m, n = len(vec), len(tr)
    B = [TRAIN_B[:n][i % n] for i in range(m)]
    if col == "A":
        A, a = vec, FOLLOW_a[:m]
        frame = make_frame(A, B, a, A_kind=kind)
    else:
        A, a = [tr[i % n] for i in range(m)], vec
        frame = make_frame(A, B, a, a_text=(kind == "text"))
    rows = [{"A": A[i], "B": B[i], "a": a[i]} for i in range(m)]
    return frame, rows


def ref_columns(formula, tr, efr, levels=None):
    """levels: the fit-time levels of A when they are not the sorted training values (categorical-dtype training)"""
    n = len(tr)
    LA, LB = (list(levels) if levels is not None else R.sorted_levels(tr)), R.sorted_levels(TRAIN_B[:n])
    fA, fB, fa = R.Factor("A", "A", "cat", LA), R.Factor("B", "B", "cat", LB), R.Factor("a", "a", "num")
    if formula in PASS_THROUGH:
        return R.design("f1", R.Factor(PASS_THROUGH[formula], "A", "cat", LA), full_rank=efr)
    if formula == "A":
        return R.design("f1", fA, full_rank=efr)
    if formula == "A + a":
        return R.design("f1+f2", fA, fa, full_rank=efr)
    if formula == "0 + A + a":
        return R.design("f1+f2", fA, fa, full_rank=efr, intercept=False)
    if formula == "0 + A":      # a left-hand side has no intercept
        return R.design("f1", fA, full_rank=efr, intercept=False)
    if formula == "a":
        return R.design("f1", fa, full_rank=efr)
    if formula == "A:a":
        return R.design("f1:f2", fA, fa, full_rank=efr)
    if formula == "A:B":
        return R.design("f1:f2", fA, fB, full_rank=efr)
    if formula == "C(A)":
        return R.design("f1", R.Factor("C(A)", "A", "cat", LA), full_rank=efr)
    if formula == "a + A":
        return R.design("f1+f2", fa, fA, full_rank=efr)
    if formula == "C(A, contr.sum)":
        return R.design("f1", R.Factor("C(A, contr.sum)", "A", "cat", LA, coding="sum"), full_rank=efr)
    raise AssertionError(formula)


def expectation(formula, tr, efr, ev, rows, levels=None):
    """-> ('ERR',) | ('OK', names, matrix, unseen: bool)  and a non-triviality flag"""
    col, kind, vec = ev
    trained = set(tr)
    if col == "A":
        if kind != "text" and formula not in C_FORMULAS:
            return ("ERR",), True
        if kind == "nan":
            return None, False  # C(A) of an all-missing column: the rows are dropped (C06's business): unspecified
        unseen = any(v not in trained for v in vec)
        absent = any(l not in vec for l in trained)
        names, mat = R.evaluate(ref_columns(formula, tr, efr, levels), rows)
        return ("OK", names, mat, unseen), (unseen or absent)
    if kind == "text":
        return ("ERR",), True
    names, mat = R.evaluate(ref_columns(formula, tr, efr, levels), rows)
    return ("OK", names, mat, False), False


def to_matrix(m):
    obj = getattr(m, "__wrapped__", m)
    if isinstance(obj, pd.DataFrame):
        arr = obj.to_numpy(dtype=float)
    elif sp.issparse(obj):
        arr = np.asarray(obj.toarray(), dtype=float)
    else:
        arr = np.asarray(obj, dtype=float)
    return [[float(v) for v in row] for row in arr.tolist()]


ROUTES = ["spec.get_model_matrix(frame)", "materializer object used before"]


def apply_spec(spec, frame, keep=None, route=ROUTES[0]):
    """-> outcome: ('OK', names, matrix, n DataMismatchWarnings) | ('ERR', exception class name, message)
    keep: a list that receives the ModelSpec attached to the resulting matrix
    route 'materializer object used before': ONE PandasMaterializer(frame) first builds the plain formula 'A + a' on
    the follow-up frame (which evaluates and caches the factors from that frame) and is then given the recorded spec --
    the recorded spec must be honoured exactly as on a fresh materializer"""
    from formulaic.errors import DataMismatchWarning

    with warnings.catch_warnings(record=True) as rec:
        warnings.simplefilter("always")
        try:
            if route == ROUTES[0]:
                m = spec.get_model_matrix(frame)
            else:
                from formulaic.materializers import PandasMaterializer

                used = PandasMaterializer(frame)
                used.get_model_matrix("A + a", output=str(spec.output))
                rec[:] = []  # only what the application of the recorded spec announces counts
                m = used.get_model_matrix(spec)
        except Exception as e:  # noqa: BLE001 - classified by the caller
            return ("ERR", type(e).__name__, str(e)[:200])
        try:
            mat = to_matrix(m)
        except (TypeError, ValueError) as e:
            return ("ERR-NONNUMERIC", type(e).__name__, str(e)[:200])
        names = [str(c) for c in m.model_spec.column_names]
        if keep is not None:
            keep.append(m.model_spec)
        obj = getattr(m, "__wrapped__", m)
        if isinstance(obj, pd.DataFrame) and [str(c) for c in obj.columns] != names:
            names = ["<frame columns %r != spec columns %r>" % (list(obj.columns), names)]
    nwarn = sum(1 for w in rec if issubclass(w.category, DataMismatchWarning))
    return ("OK", names, mat, nwarn)


def close(a, b):
    return abs(a - b) <= 1e-9 * max(1.0, abs(a), abs(b))


def judge(outcome, want, train_names):
    """-> None | sig"""
    if want[0] == "ERR":
        if outcome[0] == "OK":
            return "kind-change-no-error"
        if outcome[1] != "FactorEncodingError":
            return "kind-change-wrong-exception:" + outcome[1]
        return None
    if outcome[0] != "OK":
        return "compatible-followup-raises:" + outcome[1]
    _, names, mat, nwarn = outcome
    _, wnames, wmat, unseen = want
    if names != train_names:
        return "columns-differ-from-training-spec"
    if names != wnames:
        return "columns-differ-from-reference"
    if len(mat) != len(wmat) or any(len(r) != len(w) for r, w in zip(mat, wmat)):
        return "wrong-shape"
    if not all(close(g, w) for r, wr in zip(mat, wmat) for g, w in zip(r, wr)):
        return "wrong-values"
    if unseen and nwarn == 0:
        return "unseen-level-not-announced"
    return None


def spec_digest(spec):
    enc = []
    for k in sorted(spec.encoder_state):
        kind, st = spec.encoder_state[k]
        enc.append((k, getattr(kind, "value", str(kind)), tuple(str(c) for c in st.get("categories", ()))))
    names = tuple(spec.column_names) if spec.structure else ("<no recorded structure>", str(spec.formula))
    return (names, tuple(enc), str(spec.output), bool(spec.ensure_full_rank))


FIT_VARIANTS = [("cluster_by='numerical_factors'", {"cluster_by": "numerical_factors"}, "direct"),
                ("cluster_by='numerical_factors'", {"cluster_by": "numerical_factors"}, "pickled"),
                ("default", {}, "pickled")]


def fit(formula, tr, efr, out, fit_kw=None, transport="direct"):
    from formulaic import model_matrix

    mm = model_matrix(formula, training_frame(tr), ensure_full_rank=efr, output=out, **(fit_kw or {}))
    spec = mm.model_spec
    if transport == "pickled":  # how a spec reaches a scoring service
        import pickle

        spec = pickle.loads(pickle.dumps(spec))
    return spec


def ev_str(ev):
    return "%s<-%s%r" % (ev[0], "" if ev[1] == "text" else ev[1] + " ", ev[2])


def repro(formula, tr, efr, out, evs):
    n = len(tr)
    s = ("O=lambda v: pandas.Series(v, dtype=object); ms = formulaic.model_matrix(%r, pandas.DataFrame({'A': O(%r), "
         "'B': O(%r), 'a': %r}), ensure_full_rank=%r, output=%r).model_spec" % (formula, tr, TRAIN_B[:n], TRAIN_a[:n], efr, out))
    for ev in evs:
        _, rows = followup(tr, ev)
        A = [r["A"] for r in rows]
        a = [r["a"] for r in rows]
        if ev[0] == "A" and ev[1] == "nan":
            A_src = "pandas.Series(%r, dtype='float64')" % (A,)
        elif ev[0] == "a" or ev[1] == "text":
            A_src = "O(%r)" % (A,)
        else:
            A_src = repr(A)
        a_src = ("O(%r)" % (a,)) if (a and isinstance(a[0], str)) else repr(a)
        s += "; ms.get_model_matrix(pandas.DataFrame({'A': %s, 'B': O(%r), 'a': %s}))" % (A_src, [r["B"] for r in rows], a_src)
    return s


def choose_config(c, ctx):
    formula = c.pick(ctx.get("formulas", FORMULAS))
    efr = not c.flag()
    out = c.pick(ctx["outputs"])
    trs = ctx["trainings"]
    tr = c.pick(trs[out] if isinstance(trs, dict) else trs)
    return formula, efr, out, tr


def choose_event(c, ctx, formula, which):
    evs = [e for colname in VARIES[formula] for e in ctx[which][colname]]
    return c.pick(evs)


def fit_checked(col, formula, tr, efr, out, variant=None):
    spec = fit(formula, tr, efr, out, *(variant[1:] if variant else ()))
    train_names = [str(x) for x in spec.column_names]
    ref_names, _ = R.evaluate(ref_columns(formula, tr, efr), [])
    if variant and variant[1] and sorted(train_names) == sorted(ref_names):
        return spec, train_names  # clustering terms only reorders the columns; the caller aligns the reference
    if train_names != ref_names:
        col.count("fit-structure-differs-from-reference (skipped)")
        raise Skip()
    return spec, train_names


def drv_followup(c, ctx, col):
    """depth 1: fit, apply one follow-up"""
    formula, efr, out, tr = choose_config(c, ctx)
    ev = choose_event(c, ctx, formula, "ev1")
    # the used-materializer route does not depend on the output type: thorough explores it for pandas output only
    route = c.pick(ctx.get("routes", ROUTES[:1]) if (out == "pandas" or not ctx.get("second_route_pandas_only"))
                   else ROUTES[:1])
    variant = c.pick(ctx["fit_variants"]) if ctx.get("fit_variants") else None
    spec, train_names = fit_checked(col, formula, tr, efr, out, variant)
    col.state(spec_digest(spec))
    frame, rows = followup(tr, ev)
    want, nontrivial = expectation(formula, tr, efr, ev, rows)
    if want is None:
        col.count("unspecified:C() of an all-missing column")
        raise Skip()
    if want[0] == "OK" and want[1] != train_names and sorted(want[1]) == sorted(train_names):
        order = [want[1].index(nm) for nm in train_names]  # reference columns in the (clustered) order of the fit
        want = ("OK", train_names, [[r[j] for j in order] for r in want[2]], want[3])
    outcome = apply_spec(spec, frame, route=route)
    col.state(spec_digest(spec))
    if nontrivial:
        col.interesting()
    col.sample({"formula": formula, "ensure_full_rank": efr, "output": out, "train_A": tr, "followup": ev_str(ev),
                "expected": want[0] if want[0] == "ERR" else {"columns": want[1], "rows": want[2], "warning": want[3]}})
    sig = judge(outcome, want, train_names)
    key = "followup :: %s efr=%s out=%s train=%r apply %s%s%s" % (
        formula, efr, out, tr, ev_str(ev), "" if route == ROUTES[0] else " (via a materializer object used before)",
        "" if not variant else " [fit: %s, spec %s]" % (variant[0], variant[2]))
    if sig:
        col.count("where[%s | %s efr=%s %s]" % (sig, formula, efr, "A<-" + ev[1] if ev[0] == "A" else "a<-" + ev[1]))
        col.violation(key, {"formula": formula, "ensure_full_rank": efr, "output": out, "train_A": tr,
                            "followup": ev_str(ev), "training_columns": train_names, "got": outcome, "want": want,
                            "repro": repro(formula, tr, efr, out, [ev])}, sig=sig)
        return
    col.count("agree:" + ("error" if want[0] == "ERR" else ("unseen-level" if want[3] else "compatible")))
    if outcome[0] == "OK" and want[0] == "OK" and not want[3] and outcome[3]:
        col.count("warning-without-unseen-level (not forbidden)")


# ---------------------------------------------------------------------------------------------------------------
# the same column arriving in every categorical representation

TRAIN_REPRS = ["object", "category(reversed)", "str", "category(sorted)"]
FOLLOW_REPRS = ["str", "category(present)", "category(trained+present)", "category(reversed union)",
                "category(union+extra)", "string[pyarrow]", "object"]
A_FORMULAS = [f for f in FORMULAS if "A" in VARIES[f]]


def fit_levels(tr, train_repr):
    """levels a fit must record: text -> sorted values; categorical dtype -> its declared order"""
    return sorted(set(tr), reverse=(train_repr == "category(reversed)"))


def a_column(values, representation, levels):
    """The text values `values` as a pandas column in the given representation.  Every categorical variant declares
    all values that occur (so no cell becomes missing); what varies is which other categories are declared, and in
    which order -- none of which may matter when a recorded spec is applied."""
    if representation == "object":
        return pd.Series(values, dtype=object)
    if representation == "str":
        return pd.Series(values, dtype="str")
    if representation == "string[pyarrow]":
        return pd.Series(values, dtype="string[pyarrow]")
    if representation == "category(present)":      # what .astype("category") gives: the sorted values that occur
        return pd.Series(values, dtype=object).astype("category")
    if representation in ("category(sorted)", "category(reversed)"):   # training columns
        return pd.Series(pd.Categorical(values, categories=fit_levels(values, representation)))
    union = list(levels) + sorted(set(values) - set(levels))
    if representation == "category(trained+present)":
        cats = union
    elif representation == "category(reversed union)":
        cats = sorted(union, reverse=True)
    elif representation == "category(union+extra)":  # 'v' is declared but never occurs
        cats = sorted(union) + ["v"]
    else:
        raise AssertionError(representation)
    return pd.Series(pd.Categorical(values, categories=cats))


def frame_with(Acol, B, a):
    return pd.DataFrame({"A": Acol, "B": pd.Series(B, dtype=object), "a": pd.Series(a, dtype="float64")})


def drv_representations(c, ctx, col):
    """depth 1, the follow-up (and the training) column in every representation pandas offers for text /
    categorical data: the recorded levels must govern, whatever the follow-up column declares"""
    from formulaic import model_matrix

    formula = c.pick(A_FORMULAS)
    efr = not c.flag()
    out = c.pick(ctx["outputs"])
    tr = c.pick(ctx["trainings"])
    train_repr = c.pick(ctx["train_reprs"])
    follow_repr = c.pick(ctx["follow_reprs"])
    ev = c.pick(ctx["events"])
    n, vec = len(tr), ev[2]
    levels = fit_levels(tr, train_repr)
    spec = model_matrix(formula, frame_with(a_column(tr, train_repr, levels), TRAIN_B[:n], TRAIN_a[:n]),
                        ensure_full_rank=efr, output=out).model_spec
    train_names = [str(x) for x in spec.column_names]
    ref_names, _ = R.evaluate(ref_columns(formula, tr, efr, levels), [])
    if train_names != ref_names:
        col.count("fit-structure-differs-from-reference (skipped)")
        raise Skip()
    col.state(spec_digest(spec))
    m = len(vec)
    B = [TRAIN_B[:n][i % n] for i in range(m)]
    rows = [{"A": vec[i], "B": B[i], "a": FOLLOW_a[i]} for i in range(m)]
    frame = frame_with(a_column(vec, follow_repr, levels), B, FOLLOW_a[:m])
    want, nontrivial = expectation(formula, tr, efr, ev, rows, levels)
    outcome = apply_spec(spec, frame)
    if nontrivial or follow_repr != train_repr:
        col.interesting()
    declared = list(frame["A"].dtype.categories) if isinstance(frame["A"].dtype, pd.CategoricalDtype) else None
    col.sample({"formula": formula, "ensure_full_rank": efr, "output": out, "train_A": tr, "train_as": train_repr,
                "followup_A": vec, "followup_as": follow_repr, "followup_declared_categories": declared})
    sig = judge(outcome, want, train_names)
    key = ("representation :: %s efr=%s out=%s train=%r as %s apply A<-%r as %s"
           % (formula, efr, out, tr, train_repr, vec, follow_repr))
    if sig:
        col.count("where[%s | %s efr=%s train as %s, follow-up as %s]" % (sig, formula, efr, train_repr, follow_repr))
        col.violation(key, {"formula": formula, "ensure_full_rank": efr, "output": out, "train_A": tr,
                            "train_as": train_repr, "fit_levels": levels, "followup_A": vec, "followup_as": follow_repr,
                            "followup_declared_categories": declared, "training_columns": train_names,
                            "got": outcome, "want": want,
                            "repro": "ms = formulaic.model_matrix(%r, DataFrame({'A': <%r as %s>, 'B': O(%r), 'a': %r}), "
                                     "ensure_full_rank=%r, output=%r).model_spec; ms.get_model_matrix(DataFrame({'A': "
                                     "<%r as %s, categories %r>, 'B': O(%r), 'a': %r}))"
                                     % (formula, tr, train_repr, TRAIN_B[:n], TRAIN_a[:n], efr, out, vec, follow_repr,
                                        declared, B, FOLLOW_a[:m])}, sig=sig)
        return
    col.count("agree:" + ("unseen-level" if want[3] else "compatible"))


# ---------------------------------------------------------------------------------------------------------------
# structured formulas whose parts share the factor A: every LEAF spec applied on its own

STRUCTURED = {
    # fitted formula -> [(label, how the spec to re-apply is obtained from the fit, its formula as known to ref_columns)]
    # leaves of structured formulas, each used on its own
    "A + a | A:a": [("[0]", lambda mm: mm[0].model_spec, "A + a"), ("[1]", lambda mm: mm[1].model_spec, "A:a")],
    "A ~ 0 + A + a": [("lhs", lambda mm: mm.lhs.model_spec, "0 + A"), ("rhs", lambda mm: mm.rhs.model_spec, "0 + A + a")],
    # specs DERIVED from the fitted one: the recorded kind and levels of the surviving factor A must survive too
    "A:a": [("differentiate('a')", lambda mm: mm.model_spec.differentiate("a"), "0 + A")],          # d/da (1 + A:a) = 0 + A
    "a + A:a": [("differentiate('a')", lambda mm: mm.model_spec.differentiate("a"), "A")],          # = 0 + 1 + A
    "a + A": [("subset('A')", lambda mm: mm.model_spec.subset("A"), "A")],                          # = 1 + A
}
for _f in ("A + a", "0 + A + a"):
    VARIES[_f] = ["A", "a"]
VARIES["0 + A"] = ["A"]


def drv_structured(c, ctx, col):
    """depth 1: fit a structured formula as a whole, then apply ONE of its leaf specs on its own to a follow-up"""
    from formulaic import model_matrix

    formula = c.pick(sorted(STRUCTURED))
    efr = not c.flag()
    out = c.pick(ctx["outputs"])
    tr = c.pick(ctx["trainings"])
    label, access, leaf_formula = c.pick(STRUCTURED[formula])
    ev = choose_event(c, ctx, leaf_formula, "ev1")
    route = c.pick(ctx.get("routes", ROUTES[:1]))
    mm = model_matrix(formula, training_frame(tr), ensure_full_rank=efr, output=out)
    spec = access(mm)
    ref_names, _ = R.evaluate(ref_columns(leaf_formula, tr, efr), [])
    if spec.structure:
        train_names = [str(x) for x in spec.column_names]
        if train_names != ref_names:
            col.count("fit-structure-differs-from-reference (skipped)")
            raise Skip()
    else:  # a differentiated spec carries no recorded structure: the columns follow from the recorded levels
        train_names = ref_names
    col.state(spec_digest(spec))
    frame, rows = followup(tr, ev)
    want, nontrivial = expectation(leaf_formula, tr, efr, ev, rows)
    if want is None:
        col.count("unspecified:C() of an all-missing column")
        raise Skip()
    outcome = apply_spec(spec, frame, route=route)
    if nontrivial:
        col.interesting()
    col.sample({"formula": formula, "leaf": label, "ensure_full_rank": efr, "output": out, "train_A": tr,
                "followup": ev_str(ev), "route": route})
    sig = judge(outcome, want, train_names)
    key = "structured :: %s leaf=%s efr=%s out=%s train=%r apply %s%s" % (
        formula, label, efr, out, tr, ev_str(ev), "" if route == ROUTES[0] else " (via a materializer object used before)")
    if sig:
        col.count("where[%s | %s leaf %s efr=%s %s]" % (sig, formula, label, efr, ev[0] + "<-" + ev[1]))
        col.violation(key, {"formula": formula, "leaf": label, "leaf_formula": leaf_formula, "ensure_full_rank": efr,
                            "output": out, "train_A": tr, "followup": ev_str(ev), "route": route,
                            "training_columns": train_names, "got": outcome, "want": want,
                            "repro": "mm = model_matrix(%r, <training frame of %s>); <mm leaf %s>.model_spec.get_model_matrix(<follow-up>): %s"
                                     % (formula, repro(leaf_formula, tr, efr, out, [])[:0] or tr, label,
                                        repro(leaf_formula, tr, efr, out, [ev]).split("; ", 2)[-1])}, sig=sig)
        return
    col.count("agree:" + ("error" if want[0] == "ERR" else ("unseen-level" if want[3] else "compatible")))


def drv_history(c, ctx, col):
    """depth 2: fit, apply follow-up 1, apply follow-up 2; the second must behave as if it were the first"""
    formula, efr, out, tr = choose_config(c, ctx)
    ev1 = choose_event(c, ctx, formula, "ev1")
    ev2 = choose_event(c, ctx, formula, "ev2")
    # chain: the second frame is given to the spec ATTACHED TO THE FIRST FOLLOW-UP MATRIX (mm1.model_spec) instead
    # of the training spec -- how specs travel through a pipeline of batches; nothing may change
    chain = c.flag() if ctx.get("chain") else False
    spec, train_names = fit_checked(col, formula, tr, efr, out)
    d0 = spec_digest(spec)
    col.state(d0)
    frame1, rows1 = followup(tr, ev1)
    want1, nt1 = expectation(formula, tr, efr, ev1, rows1)
    attached = []
    out1 = apply_spec(spec, frame1, keep=attached)
    d1 = spec_digest(spec)
    col.state(d1)
    if d1 != d0:
        col.count("spec-state-changed-by-application (not forbidden by C09)")
    sig1 = judge(out1, want1, train_names)
    if sig1:
        col.count("step1-deviates (reported by the followup sub-check): " + sig1)
    frame2, rows2 = followup(tr, ev2)
    want2, nt2 = expectation(formula, tr, efr, ev2, rows2)
    via = "training spec"
    if chain:
        if not attached:
            col.count("chain-not-applicable (first application raised)")
            raise Skip()
        spec, via = attached[0], "spec attached to the first follow-up matrix"
        col.state(spec_digest(spec))
    out2 = apply_spec(spec, frame2)
    col.state(spec_digest(spec))
    if nt1 or nt2:
        col.interesting()
    col.sample({"formula": formula, "ensure_full_rank": efr, "output": out, "train_A": tr,
                "history": [ev_str(ev1), ev_str(ev2)]})
    sig2 = judge(out2, want2, train_names)
    key = "history :: %s efr=%s out=%s train=%r apply %s then %s%s" % (
        formula, efr, out, tr, ev_str(ev1), ev_str(ev2), " (via mm1.model_spec)" if chain else "")
    detail = {"formula": formula, "ensure_full_rank": efr, "output": out, "train_A": tr,
              "history": [ev_str(ev1), ev_str(ev2)], "training_columns": train_names, "got_first": out1, "got_second": out2,
              "want_second": want2, "second_applied_via": via, "repro": repro(formula, tr, efr, out, [ev1, ev2])}
    # what does the second frame give on a freshly fitted spec?
    fresh_spec = fit(formula, tr, efr, out) if (sig2 or ctx.get("always_fresh")) else None
    if fresh_spec is not None:
        fresh = apply_spec(fresh_spec, frame2)
        detail["second_frame_on_fresh_spec"] = fresh
        if not same_outcome(fresh, out2):
            col.violation(key, detail, sig="carry-over:second-application-differs-from-first-use")
            return
    if sig2:
        # deviates from the reference in the same way on a fresh spec: a depth-1 failure (the followup sub-check,
        # whose scope is a superset, reports it) -- unless the first application was needed to get here
        col.count("step2-deviates-like-fresh (reported by the followup sub-check): " + sig2)
        return
    col.count("agree")


def same_outcome(a, b):
    if a[0] != b[0]:
        return False
    if a[0] != "OK":
        return a[1] == b[1]
    if a[1] != b[1] or len(a[2]) != len(b[2]) or (a[3] > 0) != (b[3] > 0):
        return False
    return all(len(r) == len(s) and all(close(x, y) for x, y in zip(r, s)) for r, s in zip(a[2], b[2]))


def selftest():
    R.selftest()
    assert len(TRAININGS) == 19, TRAININGS
    # superset relation that lets the history sub-check leave depth-1 deviations to the followup sub-check
    for tier in ("quick", "thorough"):
        f, h = contexts(tier, 0)
        for hc in h:
            for k in ("A", "a"):
                for which in ("ev1", "ev2"):
                    assert all(e in f["ev1"][k] for e in hc[which][k]), (tier, k, which)
            for o in hc["outputs"]:
                assert o in f["outputs"] and all(t in f["trainings"][o] for t in trainings_of(hc)), (tier, o)


def contexts(tier, seed):
    """Scopes.  Cost is dominated by formulaic itself (6-9 ms per fit / application), so the tiers are cut by the
    number of training columns per output type; every listed combination is enumerated completely."""
    a_small = num_events("a", a_VALUES, 1) + [("a", "num", [1.5, 0.0])]
    full3 = ["z", "y", "x"]
    if tier == "quick":
        others = [t for t in TRAININGS if t not in (["y", "x"], full3)]
        extra = others[seed % len(others)]
        pandas_tr = LEVEL_SETS + ([extra] if extra not in LEVEL_SETS else [])
        f = {"outputs": ["pandas", "numpy", "sparse"],
             "trainings": {"pandas": pandas_tr, "numpy": [full3], "sparse": [full3]},
             "ev1": {"A": text_events("A", "xyzw", 2) + A_NUMERIC, "a": a_small + a_TEXT[:2]}}
        second = {"A": [("A", "text", ["x"]), ("A", "text", ["w"]), ("A", "text", ["w", "x"]), ("A", "text", ["z", "y"]),
                        A_NUMERIC[0]],
                  "a": a_small[:3] + a_TEXT[:1]}
        first = {"A": text_events("A", "xyzw", 2) + A_NUMERIC[:1], "a": a_small[:3] + a_TEXT[:1]}
        h = [{"outputs": ["pandas"], "trainings": [["y", "x"], full3], "ev1": first, "ev2": second, "name": "history",
              "chain": True},
             {"outputs": ["pandas"], "trainings": [extra], "ev1": first, "ev2": second, "name": "history-seed-slice"}]
    else:
        f = {"outputs": ["pandas", "numpy", "sparse"],
             "trainings": {"pandas": TRAININGS, "numpy": LEVEL_SETS, "sparse": LEVEL_SETS},
             "ev1": {"A": text_events("A", "xyzw", 3) + A_NUMERIC, "a": num_events("a", a_VALUES, 3) + a_TEXT}}
        both = {"A": text_events("A", "xyzw", 2) + A_NUMERIC[:2], "a": a_small + a_TEXT[:2]}
        h = [{"outputs": ["pandas"], "trainings": [["x"], ["z"], ["y", "x"], ["z", "y"], full3], "ev1": both, "ev2": both,
              "name": "history", "chain": True},
             {"outputs": ["numpy", "sparse"], "trainings": [["y", "x"], full3], "ev1": both, "ev2": both,
              "name": "history-numpy-sparse"}]
    return f, h


def describe(ctx):
    trs = ctx["trainings"]
    return {"formulas": ctx.get("formulas", FORMULAS), "outputs": ctx["outputs"], "routes": ctx.get("routes", ROUTES[:1]),
            "second_application_via": ["training spec", "spec attached to the first follow-up matrix"] if ctx.get("chain")
            else ["training spec"],
            "training_A_columns": {o: v for o, v in trs.items()} if isinstance(trs, dict) else trs,
            "first_followups": {k: len(v) for k, v in ctx["ev1"].items()},
            "second_followups": {k: len(v) for k, v in ctx.get("ev2", {}).items()} or None,
            "ensure_full_rank": [True, False]}


def subchecks(tier, seed):
    selftest()
    f, h = contexts(tier, seed)
    f["ev1"] = {"A": f["ev1"]["A"] + A_MISSING, "a": f["ev1"]["a"]}
    f["formulas"] = FORMULAS + list(PASS_THROUGH)
    f["routes"] = ROUTES
    f["second_route_pandas_only"] = True
    subs = [Sub("followup", drv_followup, f, shard_depth=4, bounds=describe(f))]
    st = {"outputs": ["pandas"] if tier == "quick" else ["pandas", "sparse"],
          "trainings": [["y", "x"], ["z", "y", "x"]] if tier == "quick" else [["x"], ["y", "x"], ["z", "y"], ["z", "y", "x"]],
          "ev1": f["ev1"] if tier != "quick" else {"A": text_events("A", "xyzw", 2) + A_NUMERIC[:2], "a": f["ev1"]["a"]},
          "routes": ROUTES}
    # levels that are not text: integer codes in an object column; follow-ups bring the same codes as ints or as the
    # strings that print the same ('1' is not the level 1: zero row + warning), plus an unseen code
    codes = [1, 2, "1", "2", 4]
    lt = {"outputs": ["pandas"] if tier == "quick" else ["pandas", "numpy", "sparse"],
          "trainings": [[2, 1], [3, 2, 1]],
          "formulas": [x for x in FORMULAS if "A" in VARIES[x]],
          "ev1": {"A": text_events("A", codes, 2), "a": []}}
    subs.append(Sub("level-types", drv_followup, lt, shard_depth=4,
                    bounds={"formulas": lt["formulas"], "outputs": lt["outputs"], "training_A_columns (object dtype)": lt["trainings"],
                            "followup_A": "every vector of length <= 2 over {1, 2, '1', '2', 4} (object dtype)",
                            "ensure_full_rank": [True, False]}))
    fv = {"outputs": ["pandas"], "trainings": [["y", "x"], ["z", "y", "x"]] if tier == "quick" else LEVEL_SETS,
          "formulas": FORMULAS, "fit_variants": FIT_VARIANTS,
          "ev1": {"A": text_events("A", "xyzw", 1 if tier == "quick" else 2) + [("A", "text", ["w", "x"])] + A_NUMERIC[:2]
                       + A_MISSING[:1], "a": num_events("a", a_VALUES, 1)[:2] + a_TEXT[:1]}}
    subs.append(Sub("fit-variants", drv_followup, fv, shard_depth=4,
                    bounds={"formulas": FORMULAS, "fit_variants": [(v[0], v[2]) for v in FIT_VARIANTS],
                            "training_A_columns": fv["trainings"], "followups": {k: len(v) for k, v in fv["ev1"].items()},
                            "ensure_full_rank": [True, False], "outputs": ["pandas"]}))
    subs.append(Sub("structured", drv_structured, st, shard_depth=5,
                    bounds={"formulas": sorted(STRUCTURED),
                            "leaves / derived specs": {k: [l[0] for l in v] for k, v in STRUCTURED.items()},
                            "outputs": st["outputs"], "training_A_columns": st["trainings"], "routes": ROUTES,
                            "followups": {k: len(v) for k, v in st["ev1"].items()}, "ensure_full_rank": [True, False]}))
    quick = tier == "quick"
    r = {"outputs": ["pandas"] if quick else ["pandas", "sparse"],
         "trainings": [["y", "x"], ["z", "y", "x"]] if quick else [["y", "x"], ["z", "y"], ["z", "y", "x"]],
         "train_reprs": TRAIN_REPRS[:2] if quick else TRAIN_REPRS,
         "follow_reprs": FOLLOW_REPRS[:5] if quick else FOLLOW_REPRS,
         "events": text_events("A", "xyzw", 2)}
    subs.append(Sub("representations", drv_representations, r, shard_depth=5,
                    bounds={"formulas": A_FORMULAS, "outputs": r["outputs"], "training_A_columns": r["trainings"],
                            "training_representations": r["train_reprs"], "followup_representations": r["follow_reprs"],
                            "followup_A": "every vector of length <= 2 over {x,y,z,w}", "ensure_full_rank": [True, False]}))
    for hc in h:
        b = describe(hc)
        if hc["name"] == "history-seed-slice":
            b["note"] = "VERIF_SEED-selected exhaustive slice of the thorough scope (one more training column)"
        subs.append(Sub(hc["name"], drv_history, hc, shard_depth=5, bounds=b))
    return subs
