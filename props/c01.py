"""C01 - formula strings denote the documented Wilkinson term algebra."""
import itertools

from mc.explorer import Skip
from mc.runner import Sub
from models import wilkinson as W
from props.common import FLAG_SETS, parse, terms_to_plain

RULE = (
    "Every token string over the alphabet up to the length bound (rendered with single spaces), every "
    "grammar-generated sentence up to the operator bound in minimal and full parenthesisation, every sign run "
    "in every operand position, every documented identity over all operand pairs, and every equivalent "
    "specification form; x parser configuration (intercept on/off; all 8 feature-flag subsets when ~ or | "
    "occur; 4 available-variable lists when '.' occurs).  Non-trivial = the reference accepts the sentence and "
    "it contains at least one operator (counted once per distinct (sentence, configuration))."
)
ASSUMPTIONS = [
    "small-scope hypothesis: precedence, associativity, set semantics and intercept insertion have no mechanism "
    "that first fails beyond the explored token/operator bounds",
    "the reference algebra in models/wilkinson.py is a faithful reading of docsite/docs/guides/grammar.md; it is "
    "self-tested at start-up against the structure-preserving pinned cases of tests/parser/test_parser.py",
    "constructs on which the documentation is silent are classed UNSPECIFIED and only checked metamorphically",
]

SIGMA_Q = ["a", "b", "1", "0", "+", "-", "*", "/", ":", "**", "%in%", "~", "|", "(", ")", "."]
SIGMA_T = SIGMA_Q + ["c", "2", "2.5", "^"]
SIGMA_K = ["a", "`x y`", "log(a)", "{a+b}", "`p:q`", "`0`", "`1`", "0", "1", "+", "-", ":", "*", "(", ")", "~", "."]
SIGMA_K4 = ["a", "`x y`", "{a+b}", "`1`", "`0`", "1", "0", "+", "-", ":", "(", ")", "~"]
SIGMA_N = ["a", "b", "2", "2.5", "0.5", "1", ":", "+", "-", "*", "(", ")"]
AVAILS = [["a", "b", "c"], [], ["a"], ["c", "a", "b"]]

PINNED = {
    "": ["1"], "a": ["1", "a"], "a + b": ["1", "a", "b"], "b + a": ["1", "b", "a"], "a - 1": ["a"],
    "a + 0": ["a"], "a + b - a": ["1", "b"], "( a + b ) - a": ["1", "b"], "( a - a ) + b": ["1", "b"],
    "a + ( b - a )": ["1", "a", "b"], "( b - a ) + a": ["1", "b", "a"], "+ 0": [], "( + 0 )": ["1"],
    "0 + 0": [], "0 + 0 + 1": ["1"], "0 + 0 + 1 + 0": [], "0 - 0": ["1"],
    "a ~ + 0": {"lhs": ["a"], "rhs": []}, "a ~ - 0": {"lhs": ["a"], "rhs": ["1"]},
    "~ a + b": ["1", "a", "b"], "a ~ b + c": {"lhs": ["a"], "rhs": ["1", "b", "c"]},
    "a ~ ( b + c )": {"lhs": ["a"], "rhs": ["1", "b", "c"]}, "a | b": (["1", "a"], ["1", "b"]),
    "a | b | c": (["1", "a"], ["1", "b"], ["1", "c"]),
    "a | b ~ c | d": {"lhs": (["a"], ["b"]), "rhs": (["1", "c"], ["1", "d"])},
    "a : b": ["1", "a:b"], "b : a + a : b": ["1", "b:a"], "a * b": ["1", "a", "b", "a:b"],
    "( a + b ) : ( c + d )": ["1", "a:c", "a:d", "b:c", "b:d"],
    "( c + d ) : ( a + b )": ["1", "c:a", "c:b", "d:a", "d:b"], "( a + b ) ** 2": ["1", "a", "a:b", "b"],
    "( a + b ) ^ 2": ["1", "a", "a:b", "b"], "( a + b ) ** 3": ["1", "a", "a:b", "b"], "50 : a": ["1", "50:a"],
    "a / b": ["1", "a", "a:b"], "( b + a ) / c": ["1", "b", "a", "b:a:c"], "a / ( b + c )": ["1", "a", "a:b", "a:c"],
    "a / ( b + c - b )": ["1", "a", "a:c"], "b %in% a": ["1", "a", "a:b"],
    "c %in% ( a + b )": ["1", "a", "b", "a:b:c"], "( b + c ) %in% a": ["1", "a", "a:b", "a:c"],
    "( b + c - b ) %in% a": ["1", "a", "a:c"], "+ 1": ["1"], "- 0": ["1"], "+ x": ["1", "x"], "- x": ["1"],
    ".": ["1", "a", "b", "c"], ". ^ 2": ["1", "a", "a:b", "a:c", "b", "b:c", "c"],
    ". ^ 2 - a : b": ["1", "a", "a:c", "b", "b:c", "c"], "a ~ .": {"lhs": ["a"], "rhs": ["1", "b", "c"]},
}


def selftest():
    for s, want in PINNED.items():
        got = W.reference(s.split(), include_intercept=True, avail=["a", "b", "c"])
        if got != want:
            raise AssertionError("reference model disagrees with pinned case %r: %r != %r" % (s, got, want))


def ref_outcome(tokens, icpt, flags, avail):
    try:
        return ("OK", W.reference(tokens, include_intercept=icpt, avail=avail,
                                  twosided="TWOSIDED" in flags, multipart="MULTIPART" in flags))
    except W.Reject as e:
        return ("REJECT", str(e))
    except W.Unspec as e:
        return ("UNSPEC", str(e))


def compare(col, tokens, s, icpt, flags, avail, tag):
    ref = ref_outcome(tokens, icpt, flags, avail)
    got = parse(s, icpt, flags, avail)
    cfg = "icpt=%s flags=%s avail=%s" % (icpt, "+".join(flags) or "NONE", avail)
    key = "%s :: %r %s" % (tag, s, cfg)
    detail = {"formula": s, "include_intercept": icpt, "feature_flags": list(flags), "available": avail,
              "reference": ref, "formulaic": got,
              "repro": "DefaultFormulaParser(include_intercept=%r, feature_flags=%r).get_terms(%r, context=%r)"
                       % (icpt, set(flags), s, {"__formulaic_variables_available__": avail} if avail is not None else {})}
    if ref[0] == "UNSPEC":
        col.count("unspecified")
        return ref, got
    # a quoted NAME whose text is also present as a numeric LITERAL (e.g. `1` next to the implicit intercept): see known finding K2
    lits = {t for t in tokens if W.is_lit(t)} | ({"1"} if (icpt or "0" in tokens) else set())
    clash = any(t.startswith("`") and t.endswith("`") and t[1:-1] in lits for t in tokens)
    suffix = ":quoted-name-equals-literal" if clash else ""
    if ref[0] == "OK":
        if any(t in W.PREC or t == "." for t in tokens):
            col.interesting()
        if got[0] == "OK":
            if got[1] != ref[1]:
                col.violation(key, detail, sig="wrong-terms" + suffix)
            else:
                col.count("agree-accept")
        else:
            col.violation(key, detail, sig="rejects-valid" + suffix)
    else:
        if got[0] == "OK":
            col.violation(key, detail, sig="accepts-invalid" + suffix)
        else:
            col.count("agree-reject")
    return ref, got


def configs(c, tokens, all_flags=True):
    icpt = not c.flag()
    flags = FLAG_SETS[0]
    if all_flags and ("~" in tokens or "|" in tokens):
        flags = c.pick(FLAG_SETS)
    avail = AVAILS[0]
    if "." in tokens:
        avail = c.pick(AVAILS + [None])
    return icpt, flags, avail


def drv_tokens(c, ctx, col):
    sigma, L = ctx["sigma"], ctx["L"]
    if ctx.get("first") is not None:
        tokens = [ctx["first"]] + c.seq(sigma, L - 1, L - 1)
    else:
        tokens = c.seq(sigma, L, ctx.get("Lmin", 0))
    icpt, flags, avail = configs(c, tokens, ctx.get("all_flags", True))
    s = " ".join(tokens)
    compare(col, tokens, s, icpt, flags, avail, "tokens")
    col.sample({"formula": s, "include_intercept": icpt, "flags": list(flags), "available": avail})


# ---------------------------------------------------------------------------
# the shunting-yard machine itself: distinct (operator stack, output queue) states reached

def drv_parser_states(c, ctx, col):
    """Observe the real parser's internal state after every token through a token generator handed to tokens_to_ast
    (the generator reads the caller's frame).  Used to count the distinct states / transitions of the shunting-yard
    machine that the token enumeration drives it through, and to check two machine invariants on every step."""
    import sys
    from formulaic.parser.algos.tokens_to_ast import tokens_to_ast
    from formulaic.errors import FormulaParsingError
    from props.common import parser_for
    tokens = c.seq(ctx["sigma"], ctx["L"])
    icpt = not c.flag()
    s = " ".join(tokens)
    parser = parser_for(icpt, FLAG_SETS[0])
    try:
        toks = list(parser.get_tokens(s))
    except FormulaParsingError:
        col.count("tokenizer-rejected")
        return
    except Exception:
        col.count("tokenizer-escaped")  # C14's subject
        return
    prev = [("", 0)]
    bad = []

    def snap(frame):
        loc = frame.f_locals
        st = tuple(getattr(o.operator, "symbol", None) or str(o.token) for o in loc.get("operator_stack", []))
        q = len(loc.get("output_queue", []))
        return (st, q)

    def gen():
        for t in toks:
            yield t
            cur = snap(sys._getframe(1))
            col.state(repr(cur))
            col.count("machine-transitions")
            # invariant: operands recorded by stacked operators never exceed the queue
            loc = sys._getframe(1).f_locals
            for o in loc.get("operator_stack", []):
                if o.index > len(loc.get("output_queue", [])):
                    bad.append((str(t), cur))
            prev[0] = cur

    try:
        ast_ = tokens_to_ast(gen(), parser.operator_resolver)
    except FormulaParsingError:
        col.count("rejected")
    except Exception:
        col.count("escaped")  # C14's subject
    else:
        col.interesting()
    if bad:
        col.violation("parser-state :: %r icpt=%s" % (s, icpt), {"formula": s, "bad": bad}, sig="operator-index-beyond-queue")
    col.sample({"formula": s, "final_state": prev[0]})


# ---------------------------------------------------------------------------
# grammar-generated sentences

BIN = ["+", "-", ":", "*", "/", "%in%", "**"]


def gen_tree(c, k, leaves, powers):
    """choose an expression tree with exactly k binary operators"""
    if k == 0:
        return c.pick(leaves)
    op = c.pick(BIN)
    if op == "**":
        return (op, gen_tree(c, k - 1, leaves, powers), c.pick(powers))
    kl = c.upto(k - 1)
    return (op, gen_tree(c, kl, leaves, powers), gen_tree(c, k - 1 - kl, leaves, powers))


def render(t, mode, parent=None, side=None):
    if isinstance(t, str):
        return [t]
    op, l, r = t
    inner = render(l, mode, op, "L") + [op] + render(r, mode, op, "R")
    if parent is None:
        return inner
    if mode == "full":
        return ["("] + inner + [")"]
    p, pp = W.PREC[op], W.PREC[parent]
    need = p < pp or (p == pp and ((parent in W.RIGHT and side == "L") or (parent not in W.RIGHT and side == "R")))
    return (["("] + inner + [")"]) if need else inner


def drv_sentences(c, ctx, col):
    k = ctx["kmin"] + c.upto(ctx["k"] - ctx["kmin"])
    tree = gen_tree(c, k, ctx["leaves"], ctx["powers"])
    twosided = c.choose(3)  # 0: rhs only, 1: 'c ~ tree', 2: 'tree | a'
    icpt = not c.flag()
    tmin, tfull = render(tree, "min"), render(tree, "full")
    if twosided == 1:
        tmin, tfull = ["c", "~"] + tmin, ["c", "~"] + tfull
    elif twosided == 2:
        tmin, tfull = tmin + ["|", "a"], tfull + ["|", "a"]
    flags, avail = FLAG_SETS[0], AVAILS[0]
    r1, g1 = compare(col, tmin, " ".join(tmin), icpt, flags, avail, "sentence")
    if tfull != tmin:
        r2, g2 = compare(col, tfull, " ".join(tfull), icpt, flags, avail, "sentence-fullparens")
        # reference-free metamorphic law: redundant parentheses around sub-expressions change nothing
        # (only for literal-free trees: "b - 1" and "(b - 1)" legitimately differ, see grammar.md)
        if (g1 != g2 and not (g1[0] != "OK" and g2[0] != "OK") and r1[0] != "UNSPEC" and r2[0] != "UNSPEC"
                and "1" not in tmin and "0" not in tmin):
            col.violation("parens :: %r vs %r icpt=%s" % (" ".join(tmin), " ".join(tfull), icpt),
                          {"minimal": " ".join(tmin), "full": " ".join(tfull), "got_minimal": g1, "got_full": g2},
                          sig="parenthesisation-changes-meaning")
    col.sample({"formula": " ".join(tmin), "fully_parenthesised": " ".join(tfull), "include_intercept": icpt})


# ---------------------------------------------------------------------------
# sign runs (parity law, reference-free) ------------------------------------

SIGN_BASES = [
    ["@", "a"], ["a", "+", "@", "b"], ["a", "-", "@", "b"], ["a", ":", "@", "b"], ["a", "*", "@", "b"],
    ["a", "/", "@", "b"], ["a", "%in%", "@", "b"], ["a", "**", "@", "2"], ["a", "^", "@", "2"], ["(", "@", "a", ")"],
    ["a", "+", "(", "@", "b", ")"], ["y", "~", "@", "a"], ["a", "|", "@", "b"], ["y", "~", "a", "|", "@", "b"],
    ["@", "a", "~", "b"], ["@", "1"], ["@", "0"], ["a", "+", "@", "1"], ["a", "+", "@", "0"], ["a", "-", "@", "1"],
    ["y", "~", "@", "0"], ["y", "~", "@", "1", "+", "a"], ["a", ":", "b", "+", "@", "c"], ["@", "a", ":", "b"],
    ["@", "a", "+", "b"], ["@", "(", "a", "+", "b", ")"], ["a", "+", "@", "b", ":", "c"], ["a", "+", "@", "b", "+", "@", "c"],
    ["a", ":", "(", "@", "b", ")"], ["y", "|", "@", "z", "~", "a"], ["@", "."], ["a", "+", "@", "."],
]


def drv_signs(c, ctx, col):
    base = c.pick(SIGN_BASES)
    nslots = base.count("@")
    runs = [c.seq(["+", "-"], ctx["R"]) for _ in range(nslots)]
    icpt = not c.flag()
    spaced = c.flag()  # signs separated by spaces or adjacent characters
    def build(runs_):
        out, it = [], iter(runs_)
        for t in base:
            if t == "@":
                out.extend(next(it))
            else:
                out.append(t)
        return out
    toks = build(runs)
    collapsed = build([(["-"] if r.count("-") % 2 else ["+"]) if r else [] for r in runs])
    def rend(ts):
        if spaced:
            return " ".join(ts)
        s = ""
        for i, t in enumerate(ts):
            glue = i > 0 and t in "+-" and ts[i - 1] in "+-"
            s += ("" if (glue or i == 0) else " ") + t
        return s
    s1, s2 = rend(toks), rend(collapsed)
    flags, avail = FLAG_SETS[0], AVAILS[0]
    ref, g1 = compare(col, toks, s1, icpt, flags, avail, "signs")
    if s1 != s2:
        g2 = parse(s2, icpt, flags, avail)
        same = g1 == g2 or (g1[0] != "OK" and g2[0] != "OK")
        if any(len(r) >= 2 for r in runs):
            col.interesting()
        if not same:
            col.violation("parity :: %r vs %r icpt=%s" % (s1, s2, icpt),
                          {"with_run": s1, "collapsed": s2, "include_intercept": icpt, "got_run": g1, "got_collapsed": g2,
                           "law": "a run of +/- signs means its parity-collapsed single sign"},
                          sig="sign-run-parity")
    col.sample({"formula": s1, "collapsed": s2, "include_intercept": icpt})


# ---------------------------------------------------------------------------
# documented identities (reference-free) ------------------------------------

def small_exprs(k_max, leaves):
    """all rendered operand sentences with <= k_max operators (no ** to keep operands literal-free)"""
    out = []
    ops = ["+", "-", ":", "*", "/"]
    def trees(k):
        if k == 0:
            return list(leaves)
        res = []
        for op in ops:
            for kl in range(k):
                for l in trees(kl):
                    for r in trees(k - 1 - kl):
                        res.append((op, l, r))
        return res
    for k in range(k_max + 1):
        for t in trees(k):
            out.append(render(t, "min"))
    return out


IDENTITIES = [
    ("X * Y == X + Y + X:Y", lambda X, Y: (X + ["*"] + Y, X + ["+"] + Y + ["+"] + X + [":"] + Y), "XY"),
    ("a / Y == a + a:Y", lambda X, Y: (["a", "/"] + Y, ["a", "+", "a", ":"] + Y), "Y"),
    ("Y %in% X == X / Y", lambda X, Y: (Y + ["%in%"] + X, X + ["/"] + Y), "XY"),
    ("X ^ 2 == X ** 2", lambda X, Y: (X + ["^", "2"], X + ["**", "2"]), "X"),
    ("X ^ 3 == X ** 3", lambda X, Y: (X + ["^", "3"], X + ["**", "3"]), "X"),
    ("X ** 2 == X:X (as term sets)", lambda X, Y: (X + ["**", "2"], X + [":"] + X), "Xset"),
    ("X / c == X + (prod X):c", None, "Xnest"),
]


def drv_identities(c, ctx, col):
    ident = c.pick(IDENTITIES)
    name, mk, uses = ident
    exprs = ctx["exprs"]
    X = ["("] + c.pick(exprs) + [")"]
    Y = ["("] + c.pick(exprs) + [")"] if uses == "XY" or uses == "Y" else None
    if uses == "Y":
        X = ["(", "a", ")"]
    icpt = not c.flag()
    flags, avail = FLAG_SETS[0], AVAILS[0]
    if uses == "Xnest":
        gx = parse(" ".join(X), False, flags, avail)
        if gx[0] != "OK" or not isinstance(gx[1], list) or not gx[1] or any(W.is_lit(f) for t in gx[1] for f in W.split_factors(t)):
            col.count("identity-not-applicable")
            return
        facs = []
        for t in gx[1]:
            for f in W.split_factors(t):
                if f not in facs:
                    facs.append(f)
        lhs, rhs = X + ["/", "c"], X + ["+"] + list(itertools.chain(*[[f, ":"] for f in facs])) + ["c"]
    else:
        lhs, rhs = mk(X, Y)
    s1, s2 = " ".join(lhs), " ".join(rhs)
    g1, g2 = parse(s1, icpt, flags, avail), parse(s2, icpt, flags, avail)
    r1 = ref_outcome(lhs, icpt, flags, avail)
    r2 = ref_outcome(rhs, icpt, flags, avail)
    if r1[0] != "OK" or r2[0] != "OK":
        col.count("identity-operands-unspecified-or-rejected")
        return
    col.interesting()
    if uses == "Xset" and g1[0] == "OK" and g2[0] == "OK":
        norm = lambda st: sorted(tuple(sorted(W.split_factors(t))) for t in st)
        ok = norm(g1[1]) == norm(g2[1])
    else:
        ok = g1 == g2
    if not ok:
        col.violation("identity %s :: %r vs %r icpt=%s" % (name, s1, s2, icpt),
                      {"identity": name, "lhs": s1, "rhs": s2, "got_lhs": g1, "got_rhs": g2, "include_intercept": icpt},
                      sig="identity:" + name.split(" ==")[0])
    col.sample({"identity": name, "lhs": s1, "rhs": s2})


def drv_power_all(c, ctx, col):
    """(v1+...+vn)**k == all interactions of order <= k, in the documented order"""
    names = ctx["names"]
    n = 1 + c.upto(len(names) - 1)
    k = 1 + c.upto(ctx["kmax"] - 1)
    vs = c.perm(names[:n]) if n <= 3 else names[:n]
    op = c.pick(["**", "^"])
    s = "( " + " + ".join(vs) + " ) " + op + " " + str(k)
    g = parse(s, False)
    want = set()
    for r in range(1, k + 1):
        for comb in itertools.combinations(sorted(vs), r):
            want.add(comb)
    col.interesting()
    if g[0] != "OK" or {tuple(sorted(W.split_factors(t))) for t in g[1]} != want or len(g[1]) != len(want):
        col.violation("power-all :: %r" % s, {"formula": s, "got": g, "want_sets": sorted(want)}, sig="power-all-interactions")
    col.sample({"formula": s, "terms": g[1] if g[0] == "OK" else g})


# ---------------------------------------------------------------------------
# equivalent specification forms and final degree ordering -------------------

def drv_forms(c, ctx, col):
    from formulaic import Formula
    from formulaic.errors import FormulaicError
    k = c.upto(ctx["k"])
    tree = gen_tree(c, k, ctx["leaves"], ctx["powers"])
    shape = c.choose(4)  # 0 simple, 1 'y ~ T', 2 'T | b', 3 'y ~ T | b'
    toks = render(tree, "min")
    full = {0: toks, 1: ["y", "~"] + toks, 2: toks + ["|", "b"], 3: ["y", "~"] + toks + ["|", "b"]}[shape]
    s = " ".join(full)
    ref = ref_outcome(full, True, FLAG_SETS[0], AVAILS[0])
    if ref[0] != "OK":
        col.count("forms-skipped-" + ref[0].lower())
        return
    col.interesting()
    try:
        f = Formula(s)
    except Exception as e:
        col.violation("forms :: Formula(%r) raised %s" % (s, type(e).__name__), {"formula": s, "error": repr(e)}, sig="forms-rejects-valid")
        return
    got = terms_to_plain(f) if not isinstance(f, list) else [str(t) for t in f]
    def dsort(x):
        if isinstance(x, dict):
            return {k_: dsort(v) for k_, v in x.items()}
        if isinstance(x, tuple):
            return tuple(dsort(v) for v in x)
        return W.degree_sorted(x)
    from formulaic.formula import SimpleFormula
    got = [str(t) for t in f] if isinstance(f, SimpleFormula) else terms_to_plain(f)
    want = dsort(ref[1])
    if got != want:
        col.violation("degree-order :: Formula(%r)" % s, {"formula": s, "got": got, "want": want}, sig="final-degree-ordering")
    # equivalent forms
    def lst(x):
        return list(x)
    forms = {}
    try:
        if shape == 0:
            forms["list-of-term-strings"] = Formula([t for t in want])
            forms["from_spec(list)"] = Formula.from_spec(list(want))
            forms["list-of-Terms"] = Formula(list(f))
        elif shape == 1:
            forms["lhs=/rhs= keywords (strings)"] = Formula(lhs="y", rhs=want["rhs"])
            forms["lhs=/rhs= keywords (formula strings)"] = Formula(lhs=["y"], rhs=" + ".join(toks_to_str(want["rhs"])) if want["rhs"] else [])
            forms["from_spec(dict)"] = Formula.from_spec({"lhs": ["y"], "rhs": want["rhs"]})
        elif shape == 2:
            forms["tuple of lists"] = Formula((want[0], want[1]))
            forms["from_spec(tuple)"] = Formula.from_spec((want[0], want[1]))
        else:
            forms["lhs=, rhs=tuple"] = Formula(lhs=["y"], rhs=(want["rhs"][0], want["rhs"][1]))
    except FormulaicError as e:
        col.violation("forms :: building equivalent forms of %r raised %s" % (s, type(e).__name__),
                      {"formula": s, "error": repr(e)}, sig="forms-rejects-valid")
        return
    for name, g in forms.items():
        if not (g == f and terms_to_plain(g) == terms_to_plain(f) if not isinstance(f, SimpleFormula) else (list(g) == list(f) and [str(t) for t in g] == [str(t) for t in f])):
            col.violation("forms :: %s of %r" % (name, s),
                          {"formula": s, "form": name, "string_form": terms_to_plain(f) if not isinstance(f, SimpleFormula) else [str(t) for t in f],
                           "other_form": terms_to_plain(g) if not isinstance(g, SimpleFormula) else [str(t) for t in g]},
                          sig="equivalent-forms-differ")
    col.sample({"formula": s, "forms": sorted(forms)})


# ---------------------------------------------------------------------------
# left-hand sides that are more than a bare name ---------------------------

LHS_SHAPES = [["c"], ["(", "c", ")"], ["(", "c", "+", "b", ")"], ["(", "(", "c", ")", ")"], ["c", "|", "b"], ["(", "c", ")", "|", "b"],
              ["c", "|", "(", "b", ")"], ["(", "c", ")", "|", "(", "b", ")"], ["c", "+", "(", "b", ")"], ["(", "c", ")", ":", "b"]]
RHS_TAILS = [[], ["|", "a"], ["|", "(", "a", ")"]]


def drv_lhs(c, ctx, col):
    """'<lhs> ~ <tree> [| a]' with grouped / multi-part left-hand sides, under every flag subset and available-variable list"""
    lhs = c.pick(LHS_SHAPES)
    tree = gen_tree(c, c.upto(ctx["k"]), ctx["leaves"], ["2"])
    tail = c.pick(RHS_TAILS)
    toks = lhs + ["~"] + render(tree, "min") + tail
    icpt, flags, avail = configs(c, toks)
    compare(col, toks, " ".join(toks), icpt, flags, avail, "lhs")
    col.sample({"formula": " ".join(toks), "include_intercept": icpt, "flags": list(flags), "available": avail})


# ---------------------------------------------------------------------------
# one parser object re-configured between parses ----------------------------

RECONF_FORMULAS = ["a + b", "y ~ a + b", "a | b", "y ~ a | b", "y | z ~ a", "~ a"]


def drv_reconfigure(c, ctx, col):
    """every ordered pair of feature-flag subsets on ONE parser object: configure F1, parse (so that operator tables are built), switch to F2
    through set_feature_flags / a fresh assignment, parse again; the second outcome must be that of a fresh parser configured with F2"""
    from formulaic.parser import DefaultFormulaParser
    f1, f2 = c.pick(FLAG_SETS), c.pick(FLAG_SETS)
    warm, probe = c.pick(RECONF_FORMULAS), c.pick(RECONF_FORMULAS)
    icpt = not c.flag()
    how = c.pick(["set_feature_flags", "set_feature_flags-twice"])
    parser = DefaultFormulaParser(include_intercept=icpt, feature_flags=set(f1))

    def run(p, s):
        from formulaic.errors import FormulaParsingError
        try:
            return ("OK", terms_to_plain(p.get_terms(s)))
        except FormulaParsingError as e:
            return ("REJECT", type(e).__name__)
        except Exception as e:  # noqa
            return ("ESCAPE", "%s: %s" % (type(e).__name__, str(e)[:80]))

    first = run(parser, warm)
    parser.set_feature_flags(set(f2))
    if how == "set_feature_flags-twice":
        parser.set_feature_flags(set(f1))
        run(parser, warm)
        parser.set_feature_flags(set(f2))
    got = run(parser, probe)
    want = parse(probe, icpt, f2)
    if f1 != f2:
        col.interesting()
    if got != want:
        col.violation("reconfigure :: %s -> %s warm=%r probe=%r icpt=%s how=%s" % ("+".join(f1) or "NONE", "+".join(f2) or "NONE", warm, probe, icpt, how),
                      {"flags_first": list(f1), "flags_then": list(f2), "warm_up_formula": warm, "warm_up_outcome": first, "formula": probe, "include_intercept": icpt,
                       "reconfigured_parser": got, "fresh_parser": want, "how": how}, sig="reconfigured-parser-differs-from-fresh")
    col.sample({"flags_first": list(f1), "flags_then": list(f2), "formula": probe})


# ---------------------------------------------------------------------------
# what a string denotes does not depend on what the same parser object parsed before

SEQ_POOL = ["( a + b ) ** 2", "( b + a ) ** 2", "( a + b + c ) ** 2", "( c + a + b ) ** 2", "a : b", "b : a", "a : b + b : a", "a * b", "b * a",
            "( a + b ) : c", "( b + a ) : c", "c : ( a + b )", "a / b", "b / a", "b %in% a", "a %in% b", "a + b - a", "b + a", "y ~ a + b", "y ~ b + a",
            "a | b", "b | a", "a ** 2", "( a : b + c ) ** 2", "( c + b : a ) ** 2"]


def drv_sequences(c, ctx, col):
    """every ordered pair of sentences on ONE fresh parser object (and through the module-level default parser behind Formula()): the
    second result must be what the reference says / what a fresh parser gives"""
    from formulaic.parser import DefaultFormulaParser
    from formulaic.errors import FormulaParsingError
    s1, s2 = c.pick(SEQ_POOL), c.pick(SEQ_POOL)
    icpt = not c.flag()
    via = c.pick(["one DefaultFormulaParser object", "Formula() (module-level default parser)"])

    def run(p, s):
        try:
            if p is None:
                from formulaic import Formula
                f = Formula(s)
                from formulaic.formula import SimpleFormula
                return ("OK", [str(t) for t in f] if isinstance(f, SimpleFormula) else terms_to_plain(f))
            return ("OK", terms_to_plain(p.get_terms(s)))
        except FormulaParsingError as e:
            return ("REJECT", type(e).__name__)
        except Exception as e:  # noqa
            return ("ESCAPE", "%s: %s" % (type(e).__name__, str(e)[:80]))

    if via.startswith("Formula"):
        if not icpt:
            raise Skip()
        run(None, s1)
        got = run(None, s2)
        ref = ref_outcome(s2.split(), True, FLAG_SETS[0], AVAILS[0])
        want = ("OK", _degree_sorted(ref[1])) if ref[0] == "OK" else ref
    else:
        parser = DefaultFormulaParser(include_intercept=icpt)
        run(parser, s1)
        got = run(parser, s2)
        want = ref_outcome(s2.split(), icpt, FLAG_SETS[0], AVAILS[0])
    if s1 != s2:
        col.interesting()
    if want[0] == "UNSPEC":
        col.count("unspecified")
        return
    if (got[0], got[1] if got[0] == "OK" else None) != (want[0], want[1] if want[0] == "OK" else None):
        col.violation("sequence :: %r then %r icpt=%s via=%s" % (s1, s2, icpt, via),
                      {"first": s1, "second": s2, "include_intercept": icpt, "via": via, "got_for_second": got, "reference_for_second": want},
                      sig="result-depends-on-earlier-parse")
    col.sample({"first": s1, "second": s2, "via": via})


def _degree_sorted(x):
    if isinstance(x, dict):
        return {k: _degree_sorted(v) for k, v in x.items()}
    if isinstance(x, tuple):
        return tuple(_degree_sorted(v) for v in x)
    return W.degree_sorted(x)


# ---------------------------------------------------------------------------
# equivalent forms under a parser of the caller's own

FORM_PARTS = ["a + b", "x", "a:b - 1", "a + 0", "u ~ v", "a | b", "[ a ~ b ] + c"]


def drv_forms_parser(c, ctx, col):
    """keyword form, dict form and tuple form given the SAME custom parser must treat the part strings alike"""
    from formulaic import Formula
    from formulaic.parser import DefaultFormulaParser
    cfg = c.pick([("include_intercept=True", dict(include_intercept=True)), ("include_intercept=False, flags=NONE", dict(include_intercept=False, feature_flags=set())),
                  ("include_intercept=False, flags=ALL", dict(include_intercept=False, feature_flags={"all"})), ("include_intercept=True, flags=NONE", dict(include_intercept=True, feature_flags=set()))])
    lhs, rhs = c.pick(FORM_PARTS), c.pick(FORM_PARTS)

    def build(kind):
        P = DefaultFormulaParser(**cfg[1])
        try:
            if kind == "keywords":
                f = Formula(lhs=lhs, rhs=rhs, _parser=P)
            elif kind == "dict":
                f = Formula({"lhs": lhs, "rhs": rhs}, _parser=P)
            else:
                f = Formula.from_spec({"lhs": lhs, "rhs": rhs}, parser=P)
            return ("OK", terms_to_plain(f))
        except Exception as e:  # noqa
            return ("RAISED", type(e).__name__)

    a, b, d = build("keywords"), build("dict"), build("from_spec")
    col.interesting()
    if not (a == b == d):
        col.violation("forms-parser :: lhs=%r rhs=%r parser(%s)" % (lhs, rhs, cfg[0]),
                      {"lhs": lhs, "rhs": rhs, "parser": cfg[0], "Formula(lhs=, rhs=, _parser=P)": a, "Formula({'lhs':, 'rhs':}, _parser=P)": b, "Formula.from_spec(dict, parser=P)": d},
                      sig="equivalent-forms-differ-under-custom-parser")
    col.sample({"lhs": lhs, "rhs": rhs, "parser": cfg[0]})


def toks_to_str(terms):
    return list(terms)


# ---------------------------------------------------------------------------

def subchecks(tier, seed):
    selftest()
    subs = []
    if tier == "quick":
        subs.append(Sub("tokens", drv_tokens, {"sigma": SIGMA_Q, "L": 4}, shard_depth=3,
                        bounds={"alphabet": SIGMA_Q, "max_tokens": 4}))
        first = SIGMA_T[seed % len(SIGMA_T)]
        subs.append(Sub("tokens-seed-slice", drv_tokens, {"sigma": SIGMA_Q, "L": 5, "Lmin": 5, "first": first, "all_flags": False}, shard_depth=3,
                        bounds={"alphabet": SIGMA_Q, "tokens": 5, "first_token": first,
                                "note": "VERIF_SEED-selected exhaustive slice of the thorough scope"}))
        subs.append(Sub("tokens-operand-kinds", drv_tokens, {"sigma": SIGMA_K, "L": 3}, shard_depth=2,
                        bounds={"alphabet": SIGMA_K, "max_tokens": 3}))
        subs.append(Sub("tokens-operand-kinds-4", drv_tokens, {"sigma": SIGMA_K4, "L": 4, "Lmin": 4, "all_flags": False}, shard_depth=3,
                        bounds={"alphabet": SIGMA_K4, "tokens": 4}))
        subs.append(Sub("parser-states", drv_parser_states, {"sigma": SIGMA_Q, "L": 3}, shard_depth=2,
                        bounds={"alphabet": SIGMA_Q, "max_tokens": 3, "observed": "operator stack symbols + output queue length after every token"}))
        subs.append(Sub("sentences", drv_sentences, {"k": 2, "kmin": 0, "leaves": ["a", "b", "c", "1", "0"], "powers": ["2"]},
                        shard_depth=3, bounds={"max_binary_operators": 2, "leaves": ["a", "b", "c", "1", "0"]}))
        subs.append(Sub("sentences-quoted-colon-names", drv_sentences, {"k": 2, "kmin": 1, "leaves": ["a", "b", "`a:b`", "`b:a`"], "powers": ["2"]},
                        shard_depth=3, bounds={"max_binary_operators": 2, "leaves": ["a", "b", "`a:b`", "`b:a`"],
                                               "note": "a quoted name containing ':' next to the interaction it looks like"}))
        subs.append(Sub("sentences-3", drv_sentences, {"k": 3, "kmin": 3, "leaves": ["a", "b"], "powers": ["2"]},
                        shard_depth=4, bounds={"binary_operators": 3, "leaves": ["a", "b"]}))
        subs.append(Sub("signs", drv_signs, {"R": 3}, shard_depth=2, bounds={"max_run": 3, "bases": len(SIGN_BASES)}))
        subs.append(Sub("identities", drv_identities, {"exprs": small_exprs(1, ["a", "b", "c"])}, shard_depth=2,
                        bounds={"operand_operators": 1}))
        subs.append(Sub("power-all", drv_power_all, {"names": ["a", "b", "c", "d"], "kmax": 3}, shard_depth=1, bounds={"n": 4, "k": 3}))
        subs.append(Sub("forms", drv_forms, {"k": 2, "leaves": ["a", "b", "c", "1"], "powers": ["2"]}, shard_depth=3,
                        bounds={"max_binary_operators": 2}))
        subs.append(Sub("tokens-numeric-scalings", drv_tokens, {"sigma": SIGMA_N, "L": 4, "all_flags": False}, shard_depth=3,
                        bounds={"alphabet": SIGMA_N, "max_tokens": 4, "note": "integer and decimal literals as scalings inside interactions"}))
        subs.append(Sub("lhs-shapes", drv_lhs, {"k": 1, "leaves": ["a", "b", ".", "1", "0"]}, shard_depth=2,
                        bounds={"lhs_shapes": [" ".join(x) for x in LHS_SHAPES], "rhs_max_binary_operators": 1, "rhs_tails": ["", "| a", "| ( a )"]}))
        subs.append(Sub("reconfigure", drv_reconfigure, {}, shard_depth=2,
                        bounds={"flag_subset_pairs": 64, "formulas": RECONF_FORMULAS, "sequence": "configure F1, parse, set_feature_flags(F2), parse"}))
        subs.append(Sub("sequences", drv_sequences, {}, shard_depth=2,
                        bounds={"sentences": SEQ_POOL, "pairs": "all ordered pairs", "via": ["one parser object", "Formula()"], "x": "intercept on/off"}))
        subs.append(Sub("forms-custom-parser", drv_forms_parser, {}, shard_depth=2,
                        bounds={"part_strings": FORM_PARTS, "parsers": 4, "forms": ["keywords", "dict", "from_spec"]}))
    else:
        subs.append(Sub("tokens", drv_tokens, {"sigma": SIGMA_T, "L": 4}, shard_depth=3,
                        bounds={"alphabet": SIGMA_T, "max_tokens": 4}))
        subs.append(Sub("tokens-operand-kinds", drv_tokens, {"sigma": SIGMA_K + ["|", "/", "**", "2"], "L": 5}, shard_depth=3,
                        bounds={"alphabet": SIGMA_K + ["|", "/", "**", "2"], "max_tokens": 5}))
        subs.append(Sub("parser-states", drv_parser_states, {"sigma": SIGMA_Q, "L": 4}, shard_depth=2,
                        bounds={"alphabet": SIGMA_Q, "max_tokens": 4, "observed": "operator stack symbols + output queue length after every token"}))
        subs.append(Sub("tokens-5", drv_tokens, {"sigma": SIGMA_Q, "L": 5, "Lmin": 5}, shard_depth=3,
                        bounds={"alphabet": SIGMA_Q, "tokens": 5}))
        subs.append(Sub("sentences", drv_sentences, {"k": 3, "kmin": 0, "leaves": ["a", "b", "c", "1", "0"], "powers": ["2", "3"]},
                        shard_depth=4, bounds={"max_binary_operators": 3, "leaves": ["a", "b", "c", "1", "0"]}))
        subs.append(Sub("sentences-quoted-colon-names", drv_sentences, {"k": 3, "kmin": 1, "leaves": ["a", "b", "`a:b`", "`b:a`"], "powers": ["2"]},
                        shard_depth=4, bounds={"max_binary_operators": 3, "leaves": ["a", "b", "`a:b`", "`b:a`"]}))
        subs.append(Sub("sentences-4", drv_sentences, {"k": 4, "kmin": 4, "leaves": ["a", "b"], "powers": ["2"]},
                        shard_depth=5, bounds={"binary_operators": 4, "leaves": ["a", "b"]}))
        subs.append(Sub("signs", drv_signs, {"R": 4}, shard_depth=2, bounds={"max_run": 4, "bases": len(SIGN_BASES)}))
        subs.append(Sub("identities", drv_identities, {"exprs": small_exprs(2, ["a", "b", "c"])}, shard_depth=2,
                        bounds={"operand_operators": 2}))
        subs.append(Sub("power-all", drv_power_all, {"names": ["a", "b", "c", "d", "e"], "kmax": 4}, shard_depth=1, bounds={"n": 5, "k": 4}))
        subs.append(Sub("forms", drv_forms, {"k": 3, "leaves": ["a", "b", "c", "1"], "powers": ["2"]}, shard_depth=3,
                        bounds={"max_binary_operators": 3}))
        subs.append(Sub("tokens-numeric-scalings", drv_tokens, {"sigma": SIGMA_N, "L": 5, "all_flags": False}, shard_depth=3,
                        bounds={"alphabet": SIGMA_N, "max_tokens": 5, "note": "integer and decimal literals as scalings inside interactions"}))
        subs.append(Sub("lhs-shapes", drv_lhs, {"k": 2, "leaves": ["a", "b", ".", "1", "0"]}, shard_depth=2,
                        bounds={"lhs_shapes": [" ".join(x) for x in LHS_SHAPES], "rhs_max_binary_operators": 2, "rhs_tails": ["", "| a", "| ( a )"]}))
        subs.append(Sub("reconfigure", drv_reconfigure, {}, shard_depth=2,
                        bounds={"flag_subset_pairs": 64, "formulas": RECONF_FORMULAS, "sequence": "configure F1, parse, set_feature_flags(F2), parse"}))
        subs.append(Sub("sequences", drv_sequences, {}, shard_depth=2,
                        bounds={"sentences": SEQ_POOL, "pairs": "all ordered pairs", "via": ["one parser object", "Formula()"], "x": "intercept on/off"}))
        subs.append(Sub("forms-custom-parser", drv_forms_parser, {}, shard_depth=2,
                        bounds={"part_strings": FORM_PARTS, "parsers": 4, "forms": ["keywords", "dict", "from_spec"]}))
    return subs
