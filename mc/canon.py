"""Canonical digests of live formulaic objects (matrices, specs, frames, state dicts)."""
import enum
import hashlib

import numpy as np


def canon(o, depth=0):
    """nested structure of plain python values with deterministic ordering"""
    import pandas as pd

    if depth > 12:
        return "<deep>"
    if o is None or isinstance(o, (bool, int, str)):
        return o
    if isinstance(o, float):
        return "nan" if o != o else repr(o)
    if isinstance(o, (np.floating, np.integer, np.bool_)):
        return canon(o.item(), depth + 1)
    if isinstance(o, enum.Enum):
        return "%s.%s" % (type(o).__name__, o.name)
    if isinstance(o, np.ndarray):
        return ("ndarray", str(o.dtype), list(o.shape), [canon(x, depth + 1) for x in o.ravel().tolist()])
    if isinstance(o, pd.DataFrame):
        return ("DataFrame", [canon(c, depth + 1) for c in o.columns.tolist()], type(o.columns).__name__, [str(d) for d in o.dtypes],
                type(o.index).__name__, [canon(x, depth + 1) for x in o.index.tolist()],
                [[canon(x, depth + 1) for x in o[c].tolist()] for c in o.columns])
    if isinstance(o, pd.Series):
        return ("Series", str(o.dtype), [canon(x, depth + 1) for x in o.index.tolist()], [canon(x, depth + 1) for x in o.tolist()])
    if isinstance(o, pd.Index):
        return ("Index", [canon(x, depth + 1) for x in o.tolist()])
    if hasattr(o, "toarray") and hasattr(o, "nnz"):
        return ("sparse", canon(np.asarray(o.toarray()), depth + 1))
    if isinstance(o, dict):
        items = [(canon(k, depth + 1), canon(v, depth + 1)) for k, v in o.items()]
        return ("dict", sorted(items, key=lambda kv: repr(kv[0])))
    if isinstance(o, (list, tuple)):
        return (type(o).__name__ if type(o) in (list, tuple) else "seq", [canon(x, depth + 1) for x in o])
    if isinstance(o, (set, frozenset)):
        return ("set", sorted((canon(x, depth + 1) for x in o), key=repr))
    if hasattr(o, "__wrapped__"):
        return ("proxy", canon(o.__wrapped__, depth + 1))
    if hasattr(o, "__dataclass_fields__"):
        return (type(o).__name__, [(k, canon(getattr(o, k), depth + 1)) for k in o.__dataclass_fields__])
    if hasattr(o, "__dict__") and not callable(o):
        return (type(o).__name__, sorted((k, canon(v, depth + 1)) for k, v in vars(o).items() if not k.startswith("__")))
    if hasattr(o, "__slots__"):
        return (type(o).__name__, [(k, canon(getattr(o, k, None), depth + 1)) for k in o.__slots__])
    return ("obj", type(o).__name__, repr(o)[:200])


def digest(o):
    return hashlib.blake2b(repr(canon(o)).encode(), digest_size=8).hexdigest()


def spec_state(spec):
    """the observable recorded state of a ModelSpec (or structured specs)"""
    from formulaic.utils.structured import Structured

    if isinstance(spec, Structured):
        return ("specs", [spec_state(s) for s in spec._flatten()])
    return (
        "spec",
        [str(t) for t in spec.formula],
        canon(spec.materializer),
        spec.ensure_full_rank,
        canon(spec.na_action),
        spec.output,
        [(str(s.term), [repr(st) for st in s.scoped_terms], list(s.columns)) for s in (spec.structure or [])],
        canon(spec.transform_state),
        canon(spec.encoder_state),
        _structure_factors(spec),
    )


def _structure_factors(spec):
    """what the factors recorded inside the structure carry: scale, reduced flag, attached data values (a digest; None when, as
    after materialization, no values are retained) and the variables with the layer they were resolved from"""
    out = []
    for row in (spec.structure or []):
        for st in row.scoped_terms:
            fs = []
            for sf in st.factors:
                f = sf.factor
                vals = getattr(f, "values", None)
                fs.append((getattr(f, "expr", None), bool(sf.reduced), None if vals is None else digest(getattr(vals, "__wrapped__", vals)),
                           sorted((str(v), getattr(v, "source", None)) for v in (getattr(f, "variables", None) or ()))))
            out.append((repr(getattr(st, "scale", None)), fs))
    return out


def matrix_state(mm):
    from formulaic.utils.structured import Structured

    if isinstance(mm, Structured):
        return ("matrices", [matrix_state(m) for m in mm._flatten()])
    inner = getattr(mm, "__wrapped__", mm)
    return ("matrix", canon(inner), list(mm.model_spec.column_names) if getattr(mm, "model_spec", None) is not None else None)
