"""Process-pool runner, evidence writer and VIOLATION / KNOWN-FINDING protocol."""
from __future__ import annotations

import importlib
import json
import multiprocessing as mp
import os
import re
import signal
import sys
import time
import traceback

from . import explorer

VERIF = os.path.dirname(os.path.dirname(os.path.abspath(__file__)))
_SUBS = None  # populated in the parent before the pool forks


class Sub:
    """One exhaustive sub-check of a property."""

    def __init__(self, name, driver, ctx=None, shard_depth=1, budget=None, describe=None, bounds=None):
        self.name = name
        self.driver = driver
        self.ctx = ctx
        self.shard_depth = shard_depth
        self.budget = budget  # per-shard execution cap (reported as a cap when hit)
        self.describe = describe  # trace -> human readable rendering (for replay files)
        self.bounds = bounds or {}


def _work(args):
    si, prefix = args
    sub = _SUBS[si]
    col = explorer.Collector()
    if _KNOWN:
        def matcher(key, sig, _name=sub.name):
            k = match_known(_KNOWN, _name, {"key": key, "sig": sig})
            return k["id"] if k is not None else None
        col.known_matcher = matcher
    try:
        explorer.explore(sub.driver, sub.ctx, prefix, col, budget=sub.budget)
    except explorer.HarnessError:
        return si, prefix, None, traceback.format_exc()
    except Exception:
        return si, prefix, None, traceback.format_exc()
    return si, prefix, col.summary(), None


def _json_default(o):
    try:
        import numpy as np

        if isinstance(o, np.generic):
            return o.item()
        if isinstance(o, np.ndarray):
            return o.tolist()
    except Exception:
        pass
    if isinstance(o, (set, frozenset, tuple)):
        return list(o)
    if isinstance(o, bytes):
        return o.hex()
    return repr(o)


def load_known(prop_id):
    path = os.path.join(VERIF, "known_findings.json")
    if not os.path.exists(path):
        return []
    with open(path) as f:
        data = json.load(f)
    return [k for k in data.get("known", []) if k["property"] == prop_id]


def match_known(known, sub, v):
    for k in known:
        if k.get("sub") and k["sub"] != sub:
            continue
        if k.get("sig") and k["sig"] != v["sig"]:
            continue
        if k.get("key") is not None and k["key"] != v["key"]:
            continue
        if k.get("key_regex") and not re.fullmatch(k["key_regex"], v["key"], re.S):
            continue
        return k
    return None


def confirm(sub, v):
    """Re-execute a violating trace twice; it must reproduce identically."""
    keys = []
    for _ in range(2):
        col = explorer.Collector(max_violations=1000)
        explorer.run_one(sub.driver, sub.ctx, v["trace"], col)
        keys.append(sorted((x["key"], x["sig"]) for x in col.violations))
    want = (v["key"], v["sig"])
    return all(want in k for k in keys) and keys[0] == keys[1]


_KNOWN = []


def run_property(prop_id, tier, seed, jobs, only=None):
    global _SUBS, _KNOWN
    _KNOWN = load_known(prop_id)
    t0 = time.time()
    mod = importlib.import_module("props." + prop_id.lower())
    subs = mod.subchecks(tier, seed)
    if only:
        subs = [s for s in subs if s.name in only]
    _SUBS = subs
    tasks = []
    for si, sub in enumerate(subs):
        for p in explorer.shard_prefixes(sub.driver, sub.ctx, sub.shard_depth):
            tasks.append((si, p))
    # big shards first is unknowable; interleave subs so the pool stays busy
    results = []
    harness_errors = []
    if jobs <= 1 or len(tasks) <= 1:
        for t in tasks:
            results.append(_work(t))
    else:
        ctx = mp.get_context("fork")
        with ctx.Pool(jobs) as pool:
            for r in pool.imap_unordered(_work, tasks, chunksize=1):
                results.append(r)
    per_sub = {}
    for si, prefix, summ, err in results:
        name = subs[si].name
        agg = per_sub.setdefault(
            name,
            dict(executions=0, skipped=0, nodes=0, edges=0, nontrivial=0, n_violations=0, violations=[],
                 samples=[], counters={}, digests=set(), shards=0, max_depth=0, known_counts={}),
        )
        if err:
            harness_errors.append((name, prefix, err))
            continue
        agg["shards"] += 1
        for k in ("executions", "skipped", "nodes", "edges", "nontrivial", "n_violations"):
            agg[k] += summ[k]
        agg["max_depth"] = max(agg["max_depth"], summ["max_depth"])
        for v in summ["violations"]:
            # keep a bounded number of records PER SIGNATURE, so that a flood of one class cannot hide another
            n_sig = agg.setdefault("_per_sig", {}).get(v["sig"], 0)
            if n_sig < 60 and len(agg["violations"]) < 3000:
                agg["violations"].append(v)
                agg["_per_sig"][v["sig"]] = n_sig + 1
        if len(agg["samples"]) < 3:
            agg["samples"].extend(summ["samples"][: 3 - len(agg["samples"])])
        for k, n in summ["counters"].items():
            agg["counters"][k] = agg["counters"].get(k, 0) + n
        agg["digests"] |= summ["digests"]
        for kid, n in summ.get("known_counts", {}).items():
            agg["known_counts"][kid] = agg["known_counts"].get(kid, 0) + n
    if harness_errors:
        for name, prefix, err in harness_errors[:5]:
            sys.stderr.write("HARNESS ERROR in %s/%s shard %r:\n%s\n" % (prop_id, name, list(prefix), err))
        print("HARNESS-ERROR property=%s (%d shards failed; no verdict)" % (prop_id, len(harness_errors)))
        return 2

    # ---- verdicts -------------------------------------------------------
    known = load_known(prop_id)
    known_seen = {}
    new = []
    flaky = []
    for sub in subs:
        agg = per_sub.get(sub.name)
        if not agg:
            continue
        for kid, n in agg["known_counts"].items():
            k = [x for x in known if x["id"] == kid][0]
            known_seen[kid] = (k, known_seen.get(kid, (k, 0))[1] + n)
        for v in agg["violations"]:
            k = match_known(known, sub.name, v)
            if k is not None:
                known_seen.setdefault(k["id"], (k, 0))
                known_seen[k["id"]] = (k, known_seen[k["id"]][1] + 1)
            else:
                new.append((sub, v))
    if os.environ.get("VERIF_VERBOSE"):
        for sub, v in new:
            print("  [%s] %s :: %s" % (sub.name, v["sig"], v["key"]))
            if os.environ.get("VERIF_VERBOSE") == "2":
                print("      " + json.dumps(v["detail"], default=_json_default)[:600])
        for name, a in per_sub.items():
            print("  counters[%s] = %s" % (name, {k: n for k, n in sorted(a["counters"].items())}))
    os.makedirs(os.path.join(VERIF, "replays"), exist_ok=True)
    reported = 0
    seen_sigs = {}
    exit_code = 0
    for sub, v in new:
        n = seen_sigs.get((sub.name, v["sig"]), 0)
        seen_sigs[(sub.name, v["sig"])] = n + 1
        if n >= 3 or reported >= 30:
            continue
        if not confirm(sub, v):
            flaky.append((sub.name, v))
            continue
        reported += 1
        path = os.path.join("replays", "%s-%d.json" % (prop_id, reported))
        with open(os.path.join(VERIF, path), "w") as f:
            json.dump(
                {
                    "property": prop_id,
                    "sub": sub.name,
                    "tier": tier,
                    "seed": seed,
                    "trace": v["trace"],
                    "key": v["key"],
                    "sig": v["sig"],
                    "detail": v["detail"],
                    "replay_cmd": "./check %s --replay %s" % (prop_id, path),
                },
                f, indent=1, default=_json_default,
            )
        print("VIOLATION property=%s replay=%s" % (prop_id, path))
        print("  sub=%s sig=%s key=%s" % (sub.name, v["sig"], v["key"]))
        exit_code = 1
    if flaky:
        for name, v in flaky[:5]:
            sys.stderr.write("NONDETERMINISTIC replay in %s/%s: %s\n" % (prop_id, name, v["key"]))
        print("HARNESS-ERROR property=%s nondeterministic harness (%d traces did not reproduce)" % (prop_id, len(flaky)))
        return 2
    for kid, (k, n) in sorted(known_seen.items()):
        print("KNOWN-FINDING: property=%s %s [%s, %d occurrences in scope]" % (prop_id, k["what"], kid, n))

    # ---- evidence -------------------------------------------------------
    total = lambda key: sum(a[key] for a in per_sub.values())
    all_digests = set()
    for name, a in per_sub.items():
        all_digests |= {(name, d) for d in a["digests"]}
    caps = {n: a["counters"].get("cap_hit", 0) for n, a in per_sub.items() if a["counters"].get("cap_hit")}
    samples = []
    for sub in subs:
        a = per_sub.get(sub.name)
        if a and a["samples"]:
            samples.append({"sub": sub.name, "case": a["samples"][0]})
    n_viol_total = total("n_violations")
    n_known = sum(n for _, n in known_seen.values())
    evidence = {
        "property_id": prop_id,
        "tier": tier,
        "seed": seed,
        "level": "model_checking",
        "coverage": {
            "states": max(1, sum(len(a["digests"]) if a["digests"] else a["nodes"] + a["shards"] for a in per_sub.values())),
            "transitions": max(1, total("edges")),
            "traces_validated_against_impl": total("executions"),
            "evaluations": total("executions"),
            "distinct_nontrivial": total("nontrivial"),
            "rule": getattr(mod, "RULE", ""),
            "samples": samples or [{"note": "no samples recorded"}],
            "exhaustive": not caps,
            "caps_hit": caps,
            "bounds": {s.name: s.bounds for s in subs},
            "state_count_kind": "per sub-check: distinct canonical state digests where the driver records them, otherwise choice-tree nodes",
            "choice_tree_nodes": total("nodes"),
            "shards": len(tasks),
            "per_subcheck": {
                n: {
                    "executions": a["executions"],
                    "skipped_out_of_scope": a["skipped"],
                    "tree_nodes": a["nodes"],
                    "distinct_states": len(a["digests"]),
                    "states_counted": len(a["digests"]) if a["digests"] else a["nodes"] + a["shards"],
                    "nontrivial": a["nontrivial"],
                    "max_depth": a["max_depth"],
                    "violations": a["n_violations"],
                    "counters": a["counters"],
                }
                for n, a in per_sub.items()
            },
            "known_findings_observed": sorted(known_seen),
        },
        "assumptions": list(getattr(mod, "ASSUMPTIONS", [])),
        "wall_s": round(time.time() - t0, 2),
        "violations": len(new),
    }
    evidence["coverage"]["violating_executions_including_known_findings"] = n_viol_total
    os.makedirs(os.path.join(VERIF, "evidence"), exist_ok=True)
    with open(os.path.join(VERIF, "evidence", prop_id + ".json"), "w") as f:
        json.dump(evidence, f, indent=1, default=_json_default)
    print(
        "%s tier=%s seed=%d executions=%d states=%d transitions=%d nontrivial=%d violations=%d known=%d wall=%.1fs"
        % (prop_id, tier, seed, total("executions"), evidence["coverage"]["states"], total("edges"),
           total("nontrivial"), len(new), n_known, time.time() - t0)
    )
    return exit_code


def replay(prop_id, path):
    with open(path if os.path.isabs(path) else os.path.join(VERIF, path)) as f:
        rec = json.load(f)
    mod = importlib.import_module("props." + prop_id.lower())
    subs = mod.subchecks(rec.get("tier", "quick"), rec.get("seed", 0))
    sub = [s for s in subs if s.name == rec["sub"]][0]
    col = explorer.Collector(max_violations=1000)
    explorer.run_one(sub.driver, sub.ctx, rec["trace"], col)
    if col.violations:
        for v in col.violations:
            print("REPRODUCED sub=%s sig=%s key=%s" % (sub.name, v["sig"], v["key"]))
            print(json.dumps(v["detail"], indent=1, default=_json_default))
        known = load_known(prop_id)
        if all(match_known(known, sub.name, v) for v in col.violations):
            print("(all listed in known_findings.json)")
            return 0
        print("VIOLATION property=%s replay=%s" % (prop_id, path))
        return 1
    print("not reproduced: the recorded execution satisfies the property on this tree")
    return 0
