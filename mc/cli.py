import argparse
import os
import sys

VERIF = os.path.dirname(os.path.dirname(os.path.abspath(__file__)))
sys.path.insert(0, VERIF)
if os.environ.get("VERIF_REPO"):
    sys.path.insert(0, os.environ["VERIF_REPO"])


def main():
    ap = argparse.ArgumentParser()
    ap.add_argument("prop")
    ap.add_argument("--tier", default=os.environ.get("VERIF_TIER", "quick"), choices=["quick", "thorough"])
    ap.add_argument("--replay")
    ap.add_argument("--jobs", type=int, default=int(os.environ.get("VERIF_JOBS", "16")))
    ap.add_argument("--only")
    a = ap.parse_args()
    seed = int(os.environ.get("VERIF_SEED", "0") or 0)
    import formulaic

    want = os.environ.get("VERIF_REPO", "/repo")
    if not os.path.abspath(formulaic.__file__).startswith(os.path.abspath(want) + os.sep):
        print("HARNESS-ERROR formulaic imported from %s, expected under %s" % (formulaic.__file__, want))
        sys.exit(2)
    from mc import runner

    if a.replay:
        sys.exit(runner.replay(a.prop, a.replay))
    sys.exit(runner.run_property(a.prop, a.tier, seed, a.jobs, only=a.only.split(",") if a.only else None))


if __name__ == "__main__":
    main()
