"""Bounded-exhaustive exploration engines.

ChoiceTree  -- stateless depth-first enumeration of *every* choice sequence a
               driver can produce.  A driver is an ordinary function that asks
               ``c.choose(n)`` at each decision point and then runs the real
               implementation; the explorer re-executes the driver from scratch
               for every path (simplest alternative first), counts tree nodes
               and edges, and can be sharded by choice prefix.
StateGraph  -- explicit-state breadth-first search over operation histories
               with canonical state hashing (live objects are rebuilt by
               replaying the history on fresh objects).
"""
from __future__ import annotations

import collections
import hashlib


class HarnessError(Exception):
    """The harness itself is wrong (never reported as a VIOLATION)."""


class _Cut(Exception):
    """Raised inside a driver when a shard-discovery run reaches its depth."""


class Skip(Exception):
    """Raised by a driver to abandon an execution that is outside the scope
    (counted separately, never a violation)."""


class Chooser:
    """One execution: replays ``prefix`` and then takes alternative 0."""

    __slots__ = ("prefix", "trace", "widths", "cut_at", "out")

    def __init__(self, prefix=(), cut_at=None, out=None):
        self.prefix = prefix
        self.trace = []
        self.widths = []
        self.cut_at = cut_at
        self.out = out

    def choose(self, n):
        if n <= 0:
            raise HarnessError("choose(%r)" % (n,))
        i = len(self.trace)
        if self.cut_at is not None and i >= self.cut_at:
            raise _Cut()
        if i < len(self.prefix):
            v = self.prefix[i]
            if v >= n:
                raise HarnessError(
                    "replayed choice %d out of range %d at position %d (prefix %r)"
                    % (v, n, i, list(self.prefix))
                )
        else:
            v = 0
        self.trace.append(v)
        self.widths.append(n)
        return v

    # conveniences -----------------------------------------------------
    def pick(self, seq):
        return seq[self.choose(len(seq))]

    def flag(self):
        return bool(self.choose(2))

    def upto(self, n):
        """an integer 0..n inclusive"""
        return self.choose(n + 1)

    def seq(self, alphabet, max_len, min_len=0):
        """a sequence over alphabet with min_len <= length <= max_len, shortest first"""
        length = min_len + self.choose(max_len - min_len + 1)
        return [self.pick(alphabet) for _ in range(length)]

    def subset(self, items):
        return [x for x in items if self.flag()]

    def perm(self, items):
        items = list(items)
        out = []
        while items:
            out.append(items.pop(self.choose(len(items))))
        return out


class Collector:
    """What a driver reports about one execution / what a shard accumulates."""

    def __init__(self, max_violations=25, max_samples=4):
        self.executions = 0
        self.skipped = 0
        self.nodes = 0
        self.edges = 0
        self.nontrivial = 0
        self.violations = []
        self.n_violations = 0
        self.samples = []
        self.counters = collections.Counter()
        self.digests = set()
        self.max_violations = max_violations
        self.max_samples = max_samples
        self._cur_trace = None
        self._pending = []
        self.max_depth = 0
        self.known_matcher = None  # (key, sig) -> id of a listed known finding, or None
        self.known_counts = collections.Counter()
        self.known_examples = {}

    # driver-facing API
    def violation(self, key, detail=None, sig=None):
        self.n_violations += 1
        self.counters["violation:" + (sig or "unclassified")] += 1
        if self.known_matcher is not None:
            kid = self.known_matcher(key, sig or "unclassified")
            if kid is not None:
                # a listed known finding: counted apart, so that its repeats can never use up the caps below and hide a new violation
                self.known_counts[kid] += 1
                self.known_examples.setdefault(kid, {"key": key, "sig": sig or "unclassified", "trace": list(self._cur_trace.trace)})
                return
        n_same = sum(1 for v in self.violations if v["sig"] == (sig or "unclassified"))
        if (len(self.violations) < self.max_violations and n_same < 10) or (n_same < 3 and len(self.violations) < 8 * self.max_violations):
            v = {"key": key, "sig": sig or "unclassified", "detail": detail, "trace": list(self._cur_trace.trace)}
            self.violations.append(v)
            self._pending.append(v)

    def count(self, name, k=1):
        self.counters[name] += k

    def interesting(self, k=1):
        self.nontrivial += k

    def state(self, digest):
        """record a canonical state digest (for distinct-state counting)"""
        if not isinstance(digest, (bytes, str, int)):
            digest = repr(digest)
        if isinstance(digest, str) and len(digest) > 24:
            digest = hashlib.blake2b(digest.encode(), digest_size=8).digest()
        self.digests.add(digest)

    def sample(self, obj):
        if len(self.samples) < self.max_samples:
            self.samples.append(obj)

    # merging
    def summary(self):
        return {
            "executions": self.executions,
            "skipped": self.skipped,
            "nodes": self.nodes,
            "edges": self.edges,
            "nontrivial": self.nontrivial,
            "violations": self.violations,
            "n_violations": self.n_violations,
            "samples": self.samples,
            "counters": dict(self.counters),
            "digests": self.digests,
            "max_depth": self.max_depth,
            "known_counts": dict(self.known_counts),
        }


def run_one(driver, ctx, prefix, col):
    """Execute the driver once along ``prefix`` (then all-zeros)."""
    c = Chooser(prefix)
    col._cur_trace = c
    col._pending = []
    try:
        driver(c, ctx, col)
    except Skip:
        col.skipped += 1
    for v in col._pending:  # the complete choice vector of the failing execution
        v["trace"] = list(c.trace)
    col._pending = []
    return c


def explore(driver, ctx, shard_prefix=(), col=None, budget=None):
    """Stateless DFS over every completion of ``shard_prefix``.

    Returns the collector.  ``budget`` (max executions) is a cap, reported as
    such by the caller when hit (col.counters['cap_hit']).
    """
    col = col or Collector()
    base = len(shard_prefix)
    prefix = list(shard_prefix)
    prev = None
    while True:
        c = run_one(driver, ctx, prefix, col)
        col.executions += 1
        t, w = c.trace, c.widths
        if len(t) < base:
            # the driver finished before consuming the shard prefix: one leaf
            if prev is None:
                col.nodes += len(t)
                col.edges += len(t)
            break
        # count new tree nodes/edges: those below the longest common prefix with prev
        if prev is None:
            new = len(t) - base
        else:
            k = 0
            m = min(len(prev), len(t))
            while k < m and prev[k] == t[k]:
                k += 1
            new = len(t) - k
        col.nodes += new
        col.edges += new
        if len(t) > col.max_depth:
            col.max_depth = len(t)
        prev = t
        # odometer
        i = len(t) - 1
        while i >= base and t[i] + 1 >= w[i]:
            i -= 1
        if i < base:
            break
        prefix = t[:i] + [t[i] + 1]
        if budget is not None and col.executions >= budget:
            col.counters["cap_hit"] += 1
            break
    return col


def shard_prefixes(driver, ctx, depth):
    """All distinct choice prefixes of length ``depth`` (or complete shorter
    executions), discovered by running the driver with a cut at ``depth``."""
    out = []
    prefix = []
    dummy = Collector()
    while True:
        c = Chooser(prefix, cut_at=depth)
        dummy._cur_trace = c
        try:
            driver(c, ctx, dummy)
        except _Cut:
            pass
        except Skip:
            pass
        t, w = c.trace, c.widths
        out.append(tuple(t))
        i = len(t) - 1
        while i >= 0 and t[i] + 1 >= w[i]:
            i -= 1
        if i < 0:
            break
        prefix = t[:i] + [t[i] + 1]
    return out


# ---------------------------------------------------------------------------


class StateGraph:
    """Explicit-state BFS over histories.

    build(history)      -> live state (fresh objects, history replayed)
    events(state, hist) -> list of event descriptors enabled in that state
    canon(state)        -> hashable canonical digest
    check(state, hist)  -> None or (key, detail, sig) describing a violation
    """

    def __init__(self, build, events, canon, check, max_depth, merge=True):
        self.build, self.events, self.canon, self.check = build, events, canon, check
        self.max_depth = max_depth
        self.merge = merge
        self.states = 0
        self.transitions = 0
        self.violations = []
        self.depth_reached = 0
        self.histories = 0

    def run(self, init_history=()):
        seen = set()
        s0 = self.build(list(init_history))
        seen.add(self.canon(s0))
        frontier = collections.deque([list(init_history)])
        self.states = 1
        v = self.check(s0, list(init_history))
        if v:
            self.violations.append((list(init_history), v))
        while frontier:
            hist = frontier.popleft()
            if len(hist) - len(init_history) >= self.max_depth:
                continue
            st = self.build(hist)
            for ev in self.events(st, hist):
                h2 = hist + [ev]
                nxt = self.build(h2)
                self.histories += 1
                self.transitions += 1
                self.depth_reached = max(self.depth_reached, len(h2) - len(init_history))
                v = self.check(nxt, h2)
                if v:
                    self.violations.append((h2, v))
                k = self.canon(nxt)
                if not self.merge or k not in seen:
                    seen.add(k)
                    self.states = len(seen)
                    frontier.append(h2)
        self.states = len(seen)
        return self
