#!/usr/bin/env python3
"""Regenerate /verif/MANIFEST.json from the table below and validate it (python3-vt has jsonschema)."""
import json, os, sys

HERE = os.path.dirname(os.path.dirname(os.path.abspath(__file__)))
sys.path.insert(0, HERE)
from tools.manifest_table import CHECKS, NOT_APPLICABLE, HOOK_COMMITS

TECH = "bounded-exhaustive stateless exploration of the real implementation (choice-tree DFS / history BFS) against a reference model or differential oracle"

m = {
    "version": 1,
    "setup_cmd": "sh tools/setup.sh",
    "hooks": {
        "guard": "FORMULAIC_VERIF",
        "enable": "no source hooks are needed: every seam is owned from the harness (public API, token generators, harness-side wrappers); ./check exports FORMULAIC_VERIF=1 for completeness and imports formulaic from /repo's working tree (editable install)",
        "baseline_off_cmd": "sh tools/baseline.sh",
        "source_commits": HOOK_COMMITS,
        "add_only": True,
    },
    "engines": [
        {"name": "choice-tree", "path": "mc/explorer.py", "serves_properties": [c["id"] for c in CHECKS],
         "kind_free_text": "stateless depth-first enumeration of every choose(n) sequence of a driver that runs the real code; sharded by choice prefix over 16 processes; violations re-executed twice before being reported"},
        {"name": "state-graph", "path": "mc/explorer.py", "serves_properties": [c["id"] for c in CHECKS if c.get("bfs")],
         "kind_free_text": "explicit-state breadth-first search over operation histories with canonical state digests; live objects rebuilt by replaying the history"},
    ],
    "checks": [],
    "notes": "Every check is ./check <ID> --tier quick|thorough; evidence in evidence/<ID>.json; replays in replays/. known_findings.json lists recorded defects (read-only at run time). See DESIGN.md.",
    "not_applicable": NOT_APPLICABLE,
}
for c in CHECKS:
    m["checks"].append({
        "property_id": c["id"],
        "quick_cmd": "./check %s --tier quick" % c["id"],
        "thorough_cmd": "./check %s --tier thorough" % c["id"],
        "evidence_file": "/verif/evidence/%s.json" % c["id"],
        "replay_cmd_template": "./check %s --replay {path}" % c["id"],
        "engine": "state-graph" if c.get("bfs") else "choice-tree",
        "level_claimed": {"category": "model_checking", "text": c["text"], "design_ref": c["design_ref"]},
        "level_note": c["note"],
        "technique": c.get("technique", TECH),
    })
with open(os.path.join(HERE, "MANIFEST.json"), "w") as f:
    json.dump(m, f, indent=1)
try:
    import jsonschema
    jsonschema.validate(m, json.load(open("/root/.vp/MANIFEST.schema.json")))
    print("MANIFEST.json valid;", len(m["checks"]), "checks,", len(NOT_APPLICABLE), "not applicable")
except ImportError:
    print("written (jsonschema not available in this interpreter)")
