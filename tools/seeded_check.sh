#!/bin/sh
# tools/seeded_check.sh <seeded-id> [tier] [check ids...]
# Applies /verif/seeded/<id>/patch.diff to a scratch worktree of /repo (never to /repo itself while other runs use it),
# optionally runs the baseline, runs the named checks (default: the property in meta.json) against it, and removes the worktree.
set -u
ID="$1"; TIER="${2:-quick}"; shift; [ $# -gt 0 ] && shift
DIR="/verif/seeded/$ID"
WT="/tmp/seeded_wt_$ID.$$"
git -C /repo worktree add -q --detach "$WT" HEAD || exit 2
trap 'git -C /repo worktree remove --force "$WT" >/dev/null 2>&1; rm -rf "$WT"' EXIT
git -C "$WT" apply "$DIR/patch.diff" || { echo "PATCH DOES NOT APPLY"; exit 2; }
if [ "${SEEDED_BASELINE:-0}" = "1" ]; then sh /verif/tools/baseline.sh "$WT" | tail -3; fi
if [ -f "$DIR/demo.py" ] && [ "${SEEDED_DEMO:-0}" = "1" ]; then
  (cd "$WT" && PYTHONPATH="$WT" /venv/bin/python "$DIR/demo.py" >/dev/null 2>&1; echo "demo exit with change: $?")
  (cd /repo && PYTHONPATH=/repo /venv/bin/python "$DIR/demo.py" >/dev/null 2>&1; echo "demo exit without change: $?")
fi
PROPS="$*"
[ -z "$PROPS" ] && PROPS="$(python3 -c "import json;print(json.load(open('$DIR/meta.json'))['property'])")"
rc=0
for P in $PROPS; do
  (cd /verif && VERIF_REPO="$WT" ./check "$P" --tier "$TIER" --jobs "${VERIF_JOBS:-8}" 2>&1 | grep -v conda | grep -E "^(VIOLATION|KNOWN|HARNESS|C[0-9]+ tier|  sub=)" | head -${SEEDED_LINES:-16})
done
