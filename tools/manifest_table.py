HOOK_COMMITS = []

CHECKS = [
    dict(
        id="C01",
        text="Every token string up to 4 (thorough 5) tokens over a 16-20 symbol alphabet, every grammar sentence up to 3 (4) binary "
             "operators in minimal and full parenthesisation, every sign run <= 3 (4) in every operand position, every documented "
             "identity over all operand pairs, every equivalent specification form, every grouped / multi-part left-hand side shape and every "
             "ordered pair of feature-flag subsets applied in turn to ONE parser object is parsed by the real parser under every "
             "parser configuration and compared with an independent reference term algebra (three-valued: accept / reject / unspecified) "
             "and with reference-free metamorphic laws.  Exhaustive within the bounds, so any precedence, associativity, set-semantics, "
             "intercept or sign-handling fault that shows up in a small formula is found.",
        design_ref="DESIGN.md section 3 C01, 3.1",
        note="Trusted: the reference algebra in models/wilkinson.py (self-tested against the pinned parser cases at start-up); "
             "small-scope hypothesis for nesting deeper than the bounds; constructs on which the documentation is silent are only "
             "checked metamorphically.",
    ),
]

CHECKS += [
    dict(
        id="C02",
        text="Every ordered list of <= 2 (thorough 3) terms over a universe of 38 ordered factor tuples (numeric, categorical with 3 and 2 "
             "levels, a Python-expression factor, literal scalings) x intercept x construction (string / term list) x rank reduction "
             "on/off x pandas/numpy/sparse output x four frames (1 row, repeated values, full cross, a declared level absent) is "
             "materialized by the real code; every column is recomputed from its label with numpy and, with rank reduction off, the whole "
             "label list is predicted as the row-wise Kronecker product with the first factor fastest.  Also: contrast-coded factors, a level "
             "order nominated by the caller, frames with non-default index labels, the narwhals materializer, and every build regenerated "
             "from its attached spec (those columns must obey the labels too).",
        design_ref="DESIGN.md section 3 C02",
        note="Trusted: models/design.py (label -> product recomputation). Numeric values are distinct primes / non-integers in general "
             "position; arbitrary values are covered by the argument that columns are products of the same degree.",
    ),
    dict(
        id="C03",
        text="Two engines bound to each other. (i) The real rank-reduction functions are run on a stub factor cache for all 2^15 subsets of "
             "the interaction lattice over 4 factors (four factor-kind configurations in thorough) and every ordered list of <= 3 (4) "
             "lattice terms including the intercept, with and without numerical-factor clustering; the emitted scoped terms are expanded "
             "into exact atoms (W_S x numeric factors) and must cover the unreduced design's atoms exactly once. (ii) Real matrices on "
             "fully crossed data for every ordered list of <= 3 (4) terms x built-in contrasts: SVD rank with a gap requirement; the atom "
             "verdict from model_spec.structure, the stub run and the numeric verdict must coincide.  The numeric engine also runs with every "
             "written factor order, clustered terms, a one-level factor, a numeric factor spanning the intercept, falsy level names, and "
             "pandas output on a frame whose index labels are a permutation of the positions.",
        design_ref="DESIGN.md section 3 C03",
        note="Trusted: the atom algebra (models/atoms.py; standard ANOVA decomposition on fully crossed data in general position); level "
             "counts > 3 are not run end to end (the algebra is level-count independent; C11 covers codings for n <= 12).",
    ),
]

CHECKS += [
    dict(
        id="C06",
        text="Frames of 3 (thorough 4) rows with a numeric column, a text column and a response: every null pattern over the data columns x "
             "four index kinds (default, strings, non-unique, unsorted ints that collide with positions) x nine formulas (plain, interaction, "
             "C(), Python factor, two-sided, multi-part, hashed()) x caller drop sets x five entry points x three outputs x three policies, "
             "organised so that every pair of dimensions is fully crossed in some sub-check, plus fitted-spec reuse, every null-carrying dtype, "
             "the narwhals materializer, 2-D factors, column-less parts and a context factor held in every container type the null handling "
             "dispatches on (list, array, series, dict with integer / string keys, 2-D array) x every null pattern.  A reference null model "
             "predicts the kept rows; output rows, pandas index (by position) and the caller's drop set afterwards are compared exactly.",
        design_ref="DESIGN.md section 3 C06",
        note="Trusted: the kept-row model for element-wise factors; expected cell values come from the same library on the clean sub-frame "
             "(values are C02's subject). 'ignore' + caller drop set is not checked (property silent).",
    ),
]

CHECKS += [
    dict(
        id="C07",
        text="Twenty-nine structured formulas (two-sided, multi-part on either side, lhs=/rhs= keywords, tuples, nested keyword structure, root "
             "plus key, root-only structures, column-less parts, nested tuples, context-dependent factors) with factors shared between parts x every null pattern with <= 2 (thorough 3) nulls over the 16 data cells x entry "
             "points x outputs x index kinds.  The result and its spec must have the formula's nested shape, all parts the same rows and "
             "index, every part must equal that part's terms built alone with the jointly dropped rows (reference null model) as drop set, "
             "and every leaf spec must regenerate its part.",
        design_ref="DESIGN.md section 3 C07",
        note="Trusted: the joint-drop model for element-wise factors; part values come from a separate build by the same library "
             "(differential), so this check decides shape, alignment and joint dropping.",
    ),
]

CHECKS += [
    dict(
        id="C05",
        text="For each of 49 formulas (plain, interactions in both factor orders, scalings, Python factors, stateful transforms, contrasts, "
             "contrasts with non-default options, two-sided and multi-part) and three (thorough four) frames (clean; nulls in three cells; "
             "shuffled index; categorical dtypes with a declared order) the full product of 3 outputs x 8 entry points (incl. re-use of a spec / "
             "matrix with overriding options) x 5 materializer/input combinations (pandas, narwhals on pandas, narwhals on a pyarrow table, "
             "plain dict, recarray) x 2 null policies is built by the real code and compared (values, shape, container type, spec column names, "
             "pandas labels) with the pandas/model_matrix variant; every proper subset spec of 6 parent formulas is pushed through 6 spec-"
             "accepting entry points x 3 x 3 outputs and compared with the parent's own columns.",
        design_ref="DESIGN.md section 3 C05",
        note="Pure differential: no reference values. polars is not installed; bool columns excluded (property silent on their kind); "
             "index labels are not compared.",
    ),
]

CHECKS += [
    dict(
        id="C04",
        text="57 formulas covering every stateful and stateless built-in transform (center, scale, standardize, poly, bs, cr/cs/cc with and "
             "without constraints, C() with several contrasts, hashed, Python factors, interactions, nested transforms) are fitted on "
             "sub-multisets of a 5-row pool; the recorded spec is applied to EVERY row selection of length <= 2 (thorough 3) inside the "
             "training domain and to EVERY history of <= 2 (3) events over {apply(selection), apply via model_matrix, pickle round trip, "
             "update() copy}; also scaled terms, repeated stateful calls, explicit spline bounds, back-quoted names whose aliases collide, "
             "follow-up frames keeping index labels or arriving with a categorical dtype.  Oracle: differential row-locality out(pool[sel]) == out(pool)[sel], unchanged names, training matrix "
             "reproduced, and the canonical digest of the spec state identical in every reachable state (one state per fit).",
        design_ref="DESIGN.md section 3 C04",
        note="Differential oracle (no hand-written values; the numeric contracts are C12/C13). Follow-up rows are drawn from the training "
             "domain; lag() excluded as the property says.",
        bfs=True,
    ),
]

CHECKS += [
    dict(
        id="C18",
        text="Explicit exploration of EVERY history of <= 2 (thorough 3) events (plus a depth-3 slice in quick) over shared Formula objects, "
             "shared not-yet-materialized ModelSpec objects, two frames (one with nulls and a non-unique index) and every spec produced so "
             "far: builds through three entry points, reuse, update(), pickle, subset, differentiate, required_variables.  After every "
             "event the inputs and formulas must have their initial digests, the result must equal the same call in a fresh world, every "
             "spec obtained so far must keep its state digest and finally behave like its pickled snapshot.  The one seed-dependent input "
             "(iteration order of the pooled factor set) is owned through a harness-side seam and ALL permutations are enumerated; "
             "a hash-order seam replaces __hash__ of Factor / ScopedFactor / ScopedTerm by harness-chosen ranks (every iteration order of every "
             "set of such objects); every history of 2 (3) builds / foreign parser configurations is also run in its own pristine interpreter "
             "(module-level state); fresh interpreters under several PYTHONHASHSEED values cross-check the seams.",
        design_ref="DESIGN.md section 3 C18",
        note="2^32 hash seeds cannot be enumerated; the claim is that the seed reaches results only through the enumerated factor order "
             "(validated by separate-process runs). Bit-identity is decided on canonical digests (mc/canon.py).",
        bfs=True,
    ),
]

CHECKS += [
    dict(
        id="C08",
        text="Every column dtype the installed pandas 3 / pyarrow / narwhals stack produces for text (object, str, string[python], "
             "string[pyarrow], ArrowDtype string, arrow string / large_string), categorical (sorted, unsorted, ordered, with an unused "
             "category, arrow dictionary), numeric (all int / uint / float widths, nullable and arrow-backed) and boolean data x 5 formulas "
             "x 3 materializer routes x 3-4 output types x rank flag x every distinct row order of 1-3-level columns (two alphabets) is "
             "built by the real model_matrix and compared cell by cell with an independent reference dummy coding (sorted levels for text, "
             "declared order for categorical dtypes, values unchanged for numerics); every cell must be a number."
             " Later rounds added: every 64-bit integer dtype with values float64 cannot hold, float16, arrow-backed text / dictionary dtypes, level names starting with '__' (known finding K4), a no-intercept formula whose first column is integer / boolean typed, and a spec fitted on one representation applied to another.",
        design_ref="DESIGN.md section 3 C08; notes/c08.md",
        note="Trusted: models/dummy_ref.py (self-tested against documented outputs). The order of pyarrow dictionary columns and the numpy "
             "container dtype (object vs float) of results built from masked extension dtypes are classed unspecified and only counted; "
             "bool columns: only 'every cell numeric' is demanded. polars is not installed.",
    ),
    dict(
        id="C09",
        text="Operation histories on a recorded spec with the real code: 7 formulas x rank flag x 3 outputs are fitted on every non-empty "
             "multiset of <= 3 text values over {x,y,z}; the spec is then applied to every follow-up vector of length <= 3 over {x,y,z,w}, to "
             "numeric vectors where text was trained and to text where numbers were trained (depth 1), and to every ordered pair of "
             "follow-ups (depth 2).  Each application is compared with a stateless reference evaluated with the training levels: "
             "FactorEncodingError iff a factor's kind changed, otherwise the spec's column names and order, coding rows of present levels, "
             "all-zero columns for absent levels, nothing added or renamed for unseen levels plus a DataMismatchWarning; the second "
             "application must equal what the same frame gives on a freshly fitted spec (no carry-over)."
             " Later rounds added: pass-through Python factors (I(A), Q('A'), {A}), chains through the spec attached to a follow-up matrix, non-string level types, every leaf spec of structured formulas and derived (subset / differentiated) specs used on their own, and a materializer object that served an earlier call.",
        design_ref="DESIGN.md section 3 C09; notes/c09.md",
        note="Trusted: models/dummy_ref.py. Warnings are recorded locally with simplefilter('always').",
        bfs=True,
    ),
    dict(
        id="C10",
        text="Every ordered list of <= 2 distinct terms over a 32-term universe (factor subsets of size <= 3 of {a, b, A(3), B(2), {a+b}}, "
             "scaled terms, unsorted factor orders such as B:A and b:A:a, multi-column transforms, a one-level categorical giving zero "
             "columns) and every 3-term list over its core (thorough), with the intercept absent / first / last, built from strings and from "
             "term lists, x 3 outputs x rank flag x two frames.  For each spec: column_names vs actual labels, term index ranges (contiguous, "
             "disjoint, ordered, covering, each holding only its own term's columns), every lookup by Term object / printed form / column "
             "name through term_indices, term_slices, get_slice, get_term_indices, column_indices, variable_indices against a hand-written "
             "variable table, and regeneration of every non-empty term subset against the parent's columns."
             ' Later rounds added: quoted-name and Python-expression factors (keyword-only names, slices, dict literals) with a perturbation oracle for variable indices, lookups must not mutate the metadata, every leaf spec of structured formulas, duplicate column names, and specs pickled in one interpreter and loaded under another hash seed.',
        design_ref="DESIGN.md section 3 C10; notes/c10.md",
        note="Expectations (term order, printed forms, variables per factor) are written by hand in props/c10.py. Lookups by permuted "
             "forms other than the printed form are counted, not demanded. Not covered: > 3 terms, clustering, structured specs.",
    ),
    dict(
        id="C17",
        text="For 16 factor kinds (plain, back-quoted, dotted column, call, nested call with context functions, module call, attribute "
             "access, method call, braces, I(), C(), stateful and multi-column transforms) every single-factor, sum, interaction formula "
             "with several left-hand-side forms is materialized on the frame restricted to exactly the reported required variables, plus "
             "an unused column, and minus each reported column - for Formula.required_variables and for the fitted spec.  Name resolution: "
             "every one of the 2^3 combinations of {data, context, built-in transforms} defining a value name and a callable name through 5 "
             "entry points; the produced column must come from the winning layer and variables_by_source must say so.  '.': every ordered "
             "column list of <= 3 (4) names x every LHS subset x 4 LHS forms x 5 entry points."
             ' Later rounds added: 46 factor kinds (method receivers, subscripts, comprehensions, calls of call results, builtins, aliases colliding with real names, transform-named columns), a restricted-data oracle, and re-use of fitted specs when another layer provides the name (known findings K3, K7-K9).',
        design_ref="DESIGN.md section 3 C17; notes/c17.md",
        note="Verdicts are operational (succeeds / raises FactorEvaluationError / equals the winning layer's value). Four known findings "
             "(K3a-d, one root cause: method-call receivers and attribute access in Python factors) are listed in known_findings.json.",
    ),
]

CHECKS += [
    dict(
        id="C11",
        text="For every level count n = 1..8 (thorough 1..12), every built-in contrast with every option value (treatment / SAS with the "
             "default and each level as base, sum, Helmert x reverse x scale, difference x direction, polynomial with and without scores), "
             "three label types and both entry points, the reduced and full coding matrices, coefficient matrices, their sparse forms, "
             "names, drop field and spans-intercept flag are compared with reference matrices derived twice in exact rational arithmetic "
             "from the R / textbook definitions (closed form and inverse of the hypothesis matrix), including exact rank of [1 | coding], "
             "zero column sums and K [1|C] = I.  Every data vector of length <= 4 over <= 4 levels plus null plus an out-of-list value is "
             "encoded through encode_contrasts and, up to length 3, through C(x, contr...) in model_matrix, with explicit and inferred "
             "level lists, and re-encoded from the recorded state; results equal indicator x reference coding."
             ' Later rounds added: histories of 2 (3) calls on ONE contrast instance with different level counts / flags, and one instance shared by two factors of a formula.',
        design_ref="DESIGN.md section 3 C11; notes/c11.md",
        note="Trusted: models/contrasts_ref.py (two independent exact derivations that must agree; pinned R output). The polynomial "
             "column-name prefix and ill-conditioned score vectors are classed unspecified / excluded (float64 limit).",
    ),
    dict(
        id="C12",
        text="Every sorted multiset of <= 4 (thorough 5) points of a 7-point grid plus nulls and out-of-range values as training vector x "
             "degree 0..5 x every <= 2-subset of interior grid points (incl. doubled knots) or every df in degree..degree+3 x default / "
             "explicit bounds x intercept x the 5 extrapolation modes (cubic: natural / cyclic x none / 'center' x df or explicit knots), "
             "each followed by re-use of the recorded state on follow-up vectors.  Every output row, the recorded knot vector and the "
             "error behaviour are compared with an independent exact (Fraction) reference: Cox-de Boor on the recorded knots with "
             "polynomial continuation, and the cardinal natural / periodic interpolating cubic splines from the second-derivative system; "
             "centring is checked through the constraint map (rank, zero training means, span)."
             ' Later rounds added: explicit bounds narrower than the training data in every extrapolation mode (knot selection sample, centering with zeroed rows), integer-typed data and spec re-use on wider data.',
        design_ref="DESIGN.md section 3 C12; notes/c12.md",
        note="Trusted: models/splines_ref.py (self-tested against its defining properties and scipy at start-up). A check of the "
             "construction on a grid, not a pointwise proof off the grid; the value exactly at the upper bound when a quantile knot "
             "coincides with it is a convention and classed unspecified.",
    ),
    dict(
        id="C13",
        text="Every vector of length 2..4 (thorough 5) over {-2, 0, 1, 3, 1e6, 1e-6} with two distinct values through scale / center / "
             "standardize in all 19 flag / ddof configurations (ndarray, Series, sparse column, and through model_matrix), compared with "
             "(x - mean)/sd in exact rational arithmetic; every follow-up vector transformed with the recorded state must equal "
             "(new - mean)/sd of the training data with the state unchanged.  poly of degree 1..3 with a null in every position is compared "
             "with the exact orthonormal polynomial basis (Q'Q = I, Q'1 = 0, span, NaN exactly in null rows) and new points are evaluated "
             "with the fitted polynomials.  log / log2 / log10 / exp / exp2 / exp10 are compared with the functions their names denote and "
             "with their inverse partners, directly and inside formulas."
             ' Later rounds added: integer dtypes of every width and numpy.bool_ flags, stateful calls nested inside ordinary calls / other stateful calls, multi-column input to scale, extreme magnitudes (known finding K6), and pristine-interpreter histories in which a transform name was bound to a plain function before.',
        design_ref="DESIGN.md section 3 C13; notes/c13.md",
        note="Trusted: models/c13_numeric_ref.py. Tolerances are derived from conditioning (1e-9 x kappa for scale; recurrence growth "
             "factor for poly); cases whose float64 conditioning is hopeless get shape / null checks only and are counted.",
    ),
    dict(
        id="C16",
        text="Every constraint expression tree with up to 2 (thorough 3) binary operators over {x, y, z, 1, 2, 0.5} and + - * /, every tree "
             "with 3 (4) operators over {x, y, 2}, every 'E = E' pair, with minimal, full and redundant parenthesisation, spaced and compact, "
             "with and without a head minus; every list of up to 2 constraints (and triples from a smaller pool) as comma string, list of "
             "strings and mapping; under 7 variable namings including reversed order, an unused name, back-quoted names and the column "
             "names of two materialized specs through ModelSpec.get_linear_constraints - compiled by the real LinearConstraints.from_spec "
             "and compared coefficient by coefficient with an exact Fraction affine-form evaluator; non-affine specs must be rejected."
             " Later rounds added: mapping values of every numeric type, unary signs after '=' and ',', columns named like numeric literals, and probes of constructs classed unspecified (sign after an arithmetic operator, exponent notation, chained '=').",
        design_ref="DESIGN.md section 3 C16; notes/c16.md",
        note="Trusted: models/affine.py (self-tested against the pinned constraint tests; every rendered string is re-derived from its "
             "tree). Because the compiled map is affine, coefficient equality settles all x. Adjacent operators such as 'x = -2' and "
             "specs affine only after cancellation are classed unspecified.",
    ),
    dict(
        id="C20",
        text="Every ordered list of up to 3 (thorough 4) distinct terms over the 14 products of 1-3 distinct factors of {a, b, c, log(a)}, "
             "with and without intercept, as a simple formula and as the right-hand side of a two-sided formula, is differentiated by the "
             "real code with respect to every tuple of up to 2 (3) variables over {a, b, c, d} with repetition and compared term by term "
             "(count, order, factor order) with an independent symbolic rule; the tuple call is compared with successive calls and with "
             "ModelSpec(s).differentiate.  For every list of up to 2 (3) terms the derivative is materialized (rank reduction on / off; "
             "Formula, spec and two-sided paths; three outputs) and each non-zero derivative term's column, located through term_indices, "
             "must equal the exact finite difference (h = 1 and 1/2) of the original term's column."
             " Later rounds added: literal-scaled terms (symbolic and materialized, also re-materialized from the derivative's own spec), fitted specs with stateful factors differentiated and applied to other data, mutation histories on one formula object between differentiations, and variable names containing ':' or spaces.",
        design_ref="DESIGN.md section 3 C20; notes/c20.md",
        note="Only the default use_sympy=False path (sympy is not installed in /venv). A wrt variable inside a function factor (log(a) "
             "w.r.t. a) is unspecified without sympy and skipped. Trusted: models/calculus_ref.py.",
    ),
]

CHECKS += [
    dict(
        id="C14",
        text="Every string of length <= 4 (thorough 5) over 24 characters covering all operators, three bracket kinds, four quote "
             "characters, back-slash and white space, every string of length <= 5 (6) over the 14 bracket / quote / escape characters, "
             "every token string of <= 4 (5) tokens incl. [ ], and grammar-generated operand-validation corners (empty sets under every "
             "operator, 43 exponent forms, string literals, '.' with and without context, all multistage shapes), x intercept mode x "
             "feature-flag subsets, is parsed by the real parser under a 5 s watchdog.  The outcome must be a value, a FormulaParsingError, "
             "or a SyntaxError justified by an invalid embedded Python fragment as delimited by an independent reference lexer; a string "
             "that needs a disabled operator must be rejected."
             ' Later rounds added: histories over copies of a parser (copy, deepcopy, pickle, dataclasses.replace, set_feature_flags on any object obtained so far) and a depth ladder up to 3000 repetitions of every nesting construct.',
        design_ref="DESIGN.md section 3 C14; notes/c14.md",
        note="Trusted: models/lexer.py and models/wilkinson.py for 'needs a disabled operator'. One known finding (K1: NotImplementedError "
             "for a nested multistage left-hand side, pinned by the existing suite).",
    ),
    dict(
        id="C15",
        text="(a) Every reference-accepted token sentence of <= 4 (thorough 5) tokens plus grammar-generated sentences with quoted leaves x "
             "every placement of nothing / space / tab+newline at every boundary where an independent reference lexer keeps the "
             "neighbours apart must parse identically to the single-space rendering. (b) Every name of <= 3 (4) characters over 17 "
             "operator, bracket, quote and non-ASCII characters, back-quoted in seven forms, must yield that name verbatim and materialize "
             "to that column. (c) 55 Python expressions x every subset of their own token boundaries re-spaced, both quote styles and "
             "redundant parentheses, in brace and call form, must give one ast-equivalent, string-identical factor. (d) For every string of "
             "<= 4 over 24 and <= 5 (6) over 14 characters, token spans must be ordered, disjoint and delimit their text."
             ' Later rounds added: backslashes, dots and the empty name as back-quoted names (known finding K5), string literals with escapes and triple quotes, stateful calls with quote-bearing string arguments evaluated end to end, names glued to keywords, and 45 evaluated fragments whose callee / attribute base is not a plain name.',
        design_ref="DESIGN.md section 3 C15; notes/c15.md",
        note="Trusted: models/lexer.py (reference lexer written from grammar.md and Python's lexical rules). Names containing a "
             "back-slash are classed unspecified (escape handling is not documented).",
    ),
    dict(
        id="C19",
        text="The real Structured, LayeredMapping, SimpleFormula and OrderedSet classes against plain-Python reference models written from "
             "their docstrings.  Structured: every shape up to nesting depth 4 / 6 nodes (keys, tuples, 0-2 redundant wrappers) under _map "
             "(all callback forms, recurse), _flatten, _to_dict, _simplify (all flag combinations), access, equality, pickling, _update / "
             "assignment, and _merge of every pair (thorough: small triples).  LayeredMapping: every stack of <= 3 plain or nested named "
             "layers over three keys with every history of <= 3 (4) mutating events (set, del, named_layers, with_layers prepend / append x "
             "inplace x naming), comparing lookups with source-layer names, length and the supplied layers after every event and every "
             "read operation after every history.  SimpleFormula: every history of <= 3 (4) sequence mutations over five terms for the "
             "three ordering modes, compared with a re-sorted list after every event."
             " Later rounds added: every history also run 'blind' (no read between events, compared at the end only), aliasing between a mapping and mappings derived from it, slice assignment, and callbacks that raise inside _map.",
        design_ref="DESIGN.md section 3 C19; notes/c19.md",
        note="Trusted: models/containers_ref.py. Undocumented behaviours (slice assignment, intersection order, reverse() in degree "
             "mode, _merge of tuple with non-tuple, with_layers resetting the name) are counted, not flagged.",
        bfs=True,
    ),
]

ALL = ["C%02d" % i for i in range(1, 21)]
_reason = "check not built yet in this revision (work in progress; see DESIGN.md section 3 for the planned bounded-exhaustive check)"
NOT_APPLICABLE = [dict(property_id=i, reason=_reason) for i in ALL if i not in {c["id"] for c in CHECKS}]
