HOOK_COMMITS = []

CHECKS = [
    dict(
        id="C01",
        text="Every token string up to 4 (thorough 5) tokens over a 16-20 symbol alphabet, every grammar sentence up to 3 (4) binary "
             "operators in minimal and full parenthesisation, every sign run <= 3 (4) in every operand position, every documented "
             "identity over all operand pairs and every equivalent specification form is parsed by the real parser under every "
             "parser configuration and compared with an independent reference term algebra (three-valued: accept / reject / unspecified) "
             "and with reference-free metamorphic laws.  Exhaustive within the bounds, so any precedence, associativity, set-semantics, "
             "intercept or sign-handling fault that shows up in a small formula is found.",
        design_ref="DESIGN.md section 3 C01, 3.1",
        note="Trusted: the reference algebra in models/wilkinson.py (self-tested against the pinned parser cases at start-up); "
             "small-scope hypothesis for nesting deeper than the bounds; constructs on which the documentation is silent are only "
             "checked metamorphically.",
    ),
]

CHECKS += [
    dict(
        id="C02",
        text="Every ordered list of <= 2 (thorough 3) terms over a universe of 38 ordered factor tuples (numeric, categorical with 3 and 2 "
             "levels, a Python-expression factor, literal scalings) x intercept x construction (string / term list) x rank reduction "
             "on/off x pandas/numpy/sparse output x four frames (1 row, repeated values, full cross, a declared level absent) is "
             "materialized by the real code; every column is recomputed from its label with numpy and, with rank reduction off, the whole "
             "label list is predicted as the row-wise Kronecker product with the first factor fastest.",
        design_ref="DESIGN.md section 3 C02",
        note="Trusted: models/design.py (label -> product recomputation). Numeric values are distinct primes / non-integers in general "
             "position; arbitrary values are covered by the argument that columns are products of the same degree.",
    ),
    dict(
        id="C03",
        text="Two engines bound to each other. (i) The real rank-reduction functions are run on a stub factor cache for all 2^15 subsets of "
             "the interaction lattice over 4 factors (four factor-kind configurations in thorough) and every ordered list of <= 3 (4) "
             "lattice terms including the intercept, with and without numerical-factor clustering; the emitted scoped terms are expanded "
             "into exact atoms (W_S x numeric factors) and must cover the unreduced design's atoms exactly once. (ii) Real matrices on "
             "fully crossed data for every ordered list of <= 3 (4) terms x built-in contrasts: SVD rank with a gap requirement; the atom "
             "verdict from model_spec.structure, the stub run and the numeric verdict must coincide.",
        design_ref="DESIGN.md section 3 C03",
        note="Trusted: the atom algebra (models/atoms.py; standard ANOVA decomposition on fully crossed data in general position); level "
             "counts > 3 are not run end to end (the algebra is level-count independent; C11 covers codings for n <= 12).",
    ),
]

CHECKS += [
    dict(
        id="C06",
        text="Frames of 3 (thorough 4) rows with a numeric column, a text column and a response: every null pattern over the data columns x "
             "four index kinds (default, strings, non-unique, unsorted ints that collide with positions) x nine formulas (plain, interaction, "
             "C(), Python factor, two-sided, multi-part, hashed()) x caller drop sets x five entry points x three outputs x three policies, "
             "organised so that every pair of dimensions is fully crossed in some sub-check, plus fitted-spec reuse.  A reference null model "
             "predicts the kept rows; output rows, pandas index (by position) and the caller's drop set afterwards are compared exactly.",
        design_ref="DESIGN.md section 3 C06",
        note="Trusted: the kept-row model for element-wise factors; expected cell values come from the same library on the clean sub-frame "
             "(values are C02's subject). 'ignore' + caller drop set is not checked (property silent).",
    ),
]

CHECKS += [
    dict(
        id="C07",
        text="Thirteen structured formulas (two-sided, multi-part on either side, lhs=/rhs= keywords, tuples, nested keyword structure, root "
             "plus key) with factors shared between parts x every null pattern with <= 2 (thorough 3) nulls over the 16 data cells x entry "
             "points x outputs x index kinds.  The result and its spec must have the formula's nested shape, all parts the same rows and "
             "index, every part must equal that part's terms built alone with the jointly dropped rows (reference null model) as drop set, "
             "and every leaf spec must regenerate its part.",
        design_ref="DESIGN.md section 3 C07",
        note="Trusted: the joint-drop model for element-wise factors; part values come from a separate build by the same library "
             "(differential), so this check decides shape, alignment and joint dropping.",
    ),
]

CHECKS += [
    dict(
        id="C05",
        text="For each of 29 formulas (plain, interactions in both factor orders, scalings, Python factors, stateful transforms, contrasts, "
             "two-sided and multi-part) and two frames (clean; nulls in three cells) the full product of 3 outputs x 5 entry points x 3 "
             "materializer/input combinations (pandas, narwhals on pandas, narwhals on a pyarrow table) x 2 null policies = 90 variants is "
             "built by the real code and compared (values, shape, spec column names, pandas labels) with the pandas/model_matrix variant.",
        design_ref="DESIGN.md section 3 C05",
        note="Pure differential: no reference values. polars is not installed; bool columns excluded (property silent on their kind); "
             "index labels are not compared.",
    ),
]

CHECKS += [
    dict(
        id="C04",
        text="29 formulas covering every stateful and stateless built-in transform (center, scale, standardize, poly, bs, cr/cs/cc with and "
             "without constraints, C() with several contrasts, hashed, Python factors, interactions, nested transforms) are fitted on "
             "sub-multisets of a 5-row pool; the recorded spec is applied to EVERY row selection of length <= 2 (thorough 3) inside the "
             "training domain and to EVERY history of <= 2 (3) events over {apply(selection), apply via model_matrix, pickle round trip, "
             "update() copy}.  Oracle: differential row-locality out(pool[sel]) == out(pool)[sel], unchanged names, training matrix "
             "reproduced, and the canonical digest of the spec state identical in every reachable state (one state per fit).",
        design_ref="DESIGN.md section 3 C04",
        note="Differential oracle (no hand-written values; the numeric contracts are C12/C13). Follow-up rows are drawn from the training "
             "domain; lag() excluded as the property says.",
        bfs=True,
    ),
]

CHECKS += [
    dict(
        id="C18",
        text="Explicit exploration of EVERY history of <= 2 (thorough 3) events (plus a depth-3 slice in quick) over shared Formula objects, "
             "shared not-yet-materialized ModelSpec objects, two frames (one with nulls and a non-unique index) and every spec produced so "
             "far: builds through three entry points, reuse, update(), pickle, subset, differentiate, required_variables.  After every "
             "event the inputs and formulas must have their initial digests, the result must equal the same call in a fresh world, every "
             "spec obtained so far must keep its state digest and finally behave like its pickled snapshot.  The one seed-dependent input "
             "(iteration order of the pooled factor set) is owned through a harness-side seam and ALL permutations are enumerated; "
             "fresh interpreters under several PYTHONHASHSEED values cross-check the seam.",
        design_ref="DESIGN.md section 3 C18",
        note="2^32 hash seeds cannot be enumerated; the claim is that the seed reaches results only through the enumerated factor order "
             "(validated by separate-process runs). Bit-identity is decided on canonical digests (mc/canon.py).",
        bfs=True,
    ),
]

CHECKS += [
    dict(
        id="C08",
        text="Every column dtype the installed pandas 3 / pyarrow / narwhals stack produces for text (object, str, string[python], "
             "string[pyarrow], ArrowDtype string, arrow string / large_string), categorical (sorted, unsorted, ordered, with an unused "
             "category, arrow dictionary), numeric (all int / uint / float widths, nullable and arrow-backed) and boolean data x 5 formulas "
             "x 3 materializer routes x 3-4 output types x rank flag x every distinct row order of 1-3-level columns (two alphabets) is "
             "built by the real model_matrix and compared cell by cell with an independent reference dummy coding (sorted levels for text, "
             "declared order for categorical dtypes, values unchanged for numerics); every cell must be a number.",
        design_ref="DESIGN.md section 3 C08; notes/c08.md",
        note="Trusted: models/dummy_ref.py (self-tested against documented outputs). The order of pyarrow dictionary columns and the numpy "
             "container dtype (object vs float) of results built from masked extension dtypes are classed unspecified and only counted; "
             "bool columns: only 'every cell numeric' is demanded. polars is not installed.",
    ),
    dict(
        id="C09",
        text="Operation histories on a recorded spec with the real code: 7 formulas x rank flag x 3 outputs are fitted on every non-empty "
             "multiset of <= 3 text values over {x,y,z}; the spec is then applied to every follow-up vector of length <= 3 over {x,y,z,w}, to "
             "numeric vectors where text was trained and to text where numbers were trained (depth 1), and to every ordered pair of "
             "follow-ups (depth 2).  Each application is compared with a stateless reference evaluated with the training levels: "
             "FactorEncodingError iff a factor's kind changed, otherwise the spec's column names and order, coding rows of present levels, "
             "all-zero columns for absent levels, nothing added or renamed for unseen levels plus a DataMismatchWarning; the second "
             "application must equal what the same frame gives on a freshly fitted spec (no carry-over).",
        design_ref="DESIGN.md section 3 C09; notes/c09.md",
        note="Trusted: models/dummy_ref.py. Warnings are recorded locally with simplefilter('always').",
        bfs=True,
    ),
    dict(
        id="C10",
        text="Every ordered list of <= 2 distinct terms over a 32-term universe (factor subsets of size <= 3 of {a, b, A(3), B(2), {a+b}}, "
             "scaled terms, unsorted factor orders such as B:A and b:A:a, multi-column transforms, a one-level categorical giving zero "
             "columns) and every 3-term list over its core (thorough), with the intercept absent / first / last, built from strings and from "
             "term lists, x 3 outputs x rank flag x two frames.  For each spec: column_names vs actual labels, term index ranges (contiguous, "
             "disjoint, ordered, covering, each holding only its own term's columns), every lookup by Term object / printed form / column "
             "name through term_indices, term_slices, get_slice, get_term_indices, column_indices, variable_indices against a hand-written "
             "variable table, and regeneration of every non-empty term subset against the parent's columns.",
        design_ref="DESIGN.md section 3 C10; notes/c10.md",
        note="Expectations (term order, printed forms, variables per factor) are written by hand in props/c10.py. Lookups by permuted "
             "forms other than the printed form are counted, not demanded. Not covered: > 3 terms, clustering, structured specs.",
    ),
    dict(
        id="C17",
        text="For 16 factor kinds (plain, back-quoted, dotted column, call, nested call with context functions, module call, attribute "
             "access, method call, braces, I(), C(), stateful and multi-column transforms) every single-factor, sum, interaction formula "
             "with several left-hand-side forms is materialized on the frame restricted to exactly the reported required variables, plus "
             "an unused column, and minus each reported column - for Formula.required_variables and for the fitted spec.  Name resolution: "
             "every one of the 2^3 combinations of {data, context, built-in transforms} defining a value name and a callable name through 5 "
             "entry points; the produced column must come from the winning layer and variables_by_source must say so.  '.': every ordered "
             "column list of <= 3 (4) names x every LHS subset x 4 LHS forms x 5 entry points.",
        design_ref="DESIGN.md section 3 C17; notes/c17.md",
        note="Verdicts are operational (succeeds / raises FactorEvaluationError / equals the winning layer's value). Four known findings "
             "(K3a-d, one root cause: method-call receivers and attribute access in Python factors) are listed in known_findings.json.",
    ),
]

ALL = ["C%02d" % i for i in range(1, 21)]
_reason = "check not built yet in this revision (work in progress; see DESIGN.md section 3 for the planned bounded-exhaustive check)"
NOT_APPLICABLE = [dict(property_id=i, reason=_reason) for i in ALL if i not in {c["id"] for c in CHECKS}]
