HOOK_COMMITS = []

CHECKS = [
    dict(
        id="C01",
        text="Every token string up to 4 (thorough 5) tokens over a 16-20 symbol alphabet, every grammar sentence up to 3 (4) binary "
             "operators in minimal and full parenthesisation, every sign run <= 3 (4) in every operand position, every documented "
             "identity over all operand pairs and every equivalent specification form is parsed by the real parser under every "
             "parser configuration and compared with an independent reference term algebra (three-valued: accept / reject / unspecified) "
             "and with reference-free metamorphic laws.  Exhaustive within the bounds, so any precedence, associativity, set-semantics, "
             "intercept or sign-handling fault that shows up in a small formula is found.",
        design_ref="DESIGN.md section 3 C01, 3.1",
        note="Trusted: the reference algebra in models/wilkinson.py (self-tested against the pinned parser cases at start-up); "
             "small-scope hypothesis for nesting deeper than the bounds; constructs on which the documentation is silent are only "
             "checked metamorphically.",
    ),
]

ALL = ["C%02d" % i for i in range(1, 21)]
_reason = "check not built yet in this revision (work in progress; see DESIGN.md section 3 for the planned bounded-exhaustive check)"
NOT_APPLICABLE = [dict(property_id=i, reason=_reason) for i in ALL if i not in {c["id"] for c in CHECKS}]
