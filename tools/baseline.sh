#!/bin/sh
# Run the repository's pinned baseline (guard OFF) and compare with /root/.vp/BASELINE.json.
# usage: tools/baseline.sh [repo_dir]   -> exit 0 iff every stable_pass test passed
REPO="${1:-/repo}"
OUT="$(mktemp -d)"
unset FORMULAIC_VERIF
cd "$REPO" && PYTHONPATH="$REPO" /venv/bin/python -m pytest -q -p no:cacheprovider --timeout=900 --continue-on-collection-errors --junitxml="$OUT/junit.xml" >"$OUT/log" 2>&1
/venv/bin/python - "$OUT/junit.xml" <<'PY'
import json, sys, xml.etree.ElementTree as ET
base = json.load(open('/root/.vp/BASELINE.json'))
want = set(base['stable_pass'])
ok = set()
for tc in ET.parse(sys.argv[1]).getroot().iter('testcase'):
    if not any(ch.tag in ('failure', 'error', 'skipped') for ch in tc):
        ok.add(tc.get('classname') + '::' + tc.get('name'))
missing = sorted(want - ok)
print('baseline: %d/%d stable tests pass; %d other tests pass' % (len(want & ok), len(want), len(ok - want)))
for m in missing[:20]:
    print('  NOT PASSING:', m)
sys.exit(1 if missing else 0)
PY
rc=$?
rm -rf "$OUT"
exit $rc
