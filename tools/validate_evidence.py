#!/usr/bin/env python3
"""Validate evidence/*.json against /root/.vp/EVIDENCE.schema.json (run with python3-vt)."""
import glob, json, os, sys
import jsonschema
HERE = os.path.dirname(os.path.dirname(os.path.abspath(__file__)))
schema = json.load(open("/root/.vp/EVIDENCE.schema.json"))
bad = 0
for p in sorted(glob.glob(os.path.join(HERE, "evidence", "*.json"))):
    try:
        d = json.load(open(p))
        jsonschema.validate(d, schema)
        c = d["coverage"]
        print("%s ok tier=%s evals=%d states=%d transitions=%d nontrivial=%d exhaustive=%s wall=%.1fs" % (
            os.path.basename(p), d["tier"], c["evaluations"], c["states"], c["transitions"], c["distinct_nontrivial"], c["exhaustive"], d["wall_s"]))
    except Exception as e:
        bad += 1
        print("%s INVALID: %s" % (os.path.basename(p), str(e)[:300]))
sys.exit(1 if bad else 0)
