#!/usr/bin/env python3
"""Run every seeded change (or the listed ids) against its property's check, record the outcome in seeded/<id>/meta.json and
write seeded/REPORT.md.   usage: tools/seeded_report.py [tier] [ids...]"""
import json, os, re, subprocess, sys, time
HERE = os.path.dirname(os.path.dirname(os.path.abspath(__file__)))
tier = sys.argv[1] if len(sys.argv) > 1 else "quick"
ids = sys.argv[2:] or sorted(d for d in os.listdir(os.path.join(HERE, "seeded")) if os.path.isdir(os.path.join(HERE, "seeded", d)))
head = subprocess.check_output(["git", "-C", "/repo", "log", "--format=%h", "-1"]).decode().strip()
rows = []
for i in ids:
    d = os.path.join(HERE, "seeded", i)
    meta = json.load(open(os.path.join(d, "meta.json")))
    env = dict(os.environ, SEEDED_BASELINE="1", SEEDED_DEMO="1", SEEDED_LINES="40")
    t0 = time.time()
    out = subprocess.run(["sh", os.path.join(HERE, "tools/seeded_check.sh"), i, tier], env=env, capture_output=True, text=True).stdout
    base = re.search(r"baseline: (\d+)/(\d+)", out)
    demo_with = re.search(r"demo exit with change: (\d+)", out)
    demo_without = re.search(r"demo exit without change: (\d+)", out)
    subs = sorted(set(re.findall(r"  sub=(\S+) sig=(\S+)", out)))
    caught = bool(re.search(r"^VIOLATION", out, re.M))
    harness = bool(re.search(r"HARNESS-ERROR|PATCH DOES NOT APPLY", out))
    meta["confirmed"] = {
        "repo_head": head,
        "baseline_with_change": (base.group(0) if base else None),
        "demo_exit_with_change": int(demo_with.group(1)) if demo_with else None,
        "demo_exit_without_change": int(demo_without.group(1)) if demo_without else None,
        "ran": "SEEDED_BASELINE=1 SEEDED_DEMO=1 sh tools/seeded_check.sh %s %s" % (i, tier),
    }
    meta["caught_by"] = {"tier": tier, "caught": caught, "harness_error": harness, "sub_checks_and_signatures": [list(x) for x in subs]}
    json.dump(meta, open(os.path.join(d, "meta.json"), "w"), indent=1)
    rows.append((i, meta["property"], caught, harness, subs, meta["confirmed"]))
    print(i, "CAUGHT" if caught else ("HARNESS-ERROR" if harness else "MISSED"), "%.0fs" % (time.time() - t0), flush=True)
# regenerate the report from ALL recorded outcomes (not only the ids of this run)
allrows = []
for i in sorted(d for d in os.listdir(os.path.join(HERE, "seeded")) if os.path.isdir(os.path.join(HERE, "seeded", d))):
    m = json.load(open(os.path.join(HERE, "seeded", i, "meta.json")))
    cb, conf = m.get("caught_by") or {}, m.get("confirmed") or {}
    if not cb:
        continue
    allrows.append((i, m["property"], cb.get("caught"), cb.get("harness_error"), [tuple(x) for x in cb.get("sub_checks_and_signatures", [])], conf, cb.get("tier"), m.get("neutralised")))
with open(os.path.join(HERE, "seeded", "REPORT.md"), "w") as f:
    f.write("# Seeded property-breaking changes vs. the checks\n\n")
    f.write("Each change was written by an independent sub-agent that saw only the property text and a scratch worktree (ids `-mN`: first wave;\n"
            "`-w2mN`, `-w3mN`, `-w4mN`: later waves, told which mechanisms had been used before); each passes the 463-test baseline and has a demo\n"
            "that exits 1 with the change and 0 without (columns 'baseline' / 'demo'; column '/repo' is the library commit the run was made against).\n"
            "Patches that stopped applying after later `fix:` commits were re-created against the new HEAD (`rebased` in meta.json).  Outcomes are\n"
            "recorded by tools/seeded_report.py in each meta.json.\n\n")
    n_c = sum(1 for r in allrows if r[2])
    n_n = sum(1 for r in allrows if r[7] and not r[2])
    f.write("%d changes recorded, %d caught by the %s tier of their property's check, %d no longer property-breaking on the current /repo "
            "(neutralised by a later fix: their own demo passes with the change).\n\n" % (len(allrows), n_c, "quick", n_n))
    f.write("| id | property | /repo | baseline | demo with/without | verdict | caught by (sub-check: signature) |\n|---|---|---|---|---|---|---|\n")
    for i, p, caught, harness, subs, conf, t, neut in allrows:
        f.write("| %s | %s | %s | %s | %s/%s | %s | %s |\n" % (
            i, p, conf.get("repo_head"), conf.get("baseline_with_change"), conf.get("demo_exit_with_change"), conf.get("demo_exit_without_change"),
            "caught" if caught else ("neutralised by a later fix" if neut else ("harness error" if harness else "MISSED")),
            "; ".join("%s: %s" % s for s in subs[:6])))
print("wrote seeded/REPORT.md")
