#!/bin/sh
# Offline set-up: nothing to build; verify the interpreter and that formulaic imports from /repo.
set -e
cd "$(dirname "$0")/.."
mkdir -p evidence replays
/venv/bin/python - <<'PY'
import formulaic, numpy, pandas, scipy, pyarrow, narwhals, sys
assert formulaic.__file__.startswith('/repo/'), formulaic.__file__
print('setup ok: python', sys.version.split()[0], 'formulaic from', formulaic.__file__)
PY
