#!/usr/bin/env python3
"""Copy sub-agent mutants from /tmp/mutwt_<P>/MUTANTS/<n> into /verif/seeded/<P>-m<n>/ with a meta.json stub."""
import json, os, shutil, sys
for P in sys.argv[1:]:
    src = "/tmp/mutwt_%s/MUTANTS" % P
    if not os.path.isdir(src):
        print("no mutants for", P); continue
    for n in sorted(os.listdir(src)):
        d = os.path.join(src, n)
        if not os.path.isfile(os.path.join(d, "patch.diff")):
            continue
        dst = "/verif/seeded/%s-%s%s" % (P, os.environ.get("MUT_TAG", "m"), n)
        os.makedirs(dst, exist_ok=True)
        for f in ("patch.diff", "demo.py", "README.md"):
            if os.path.exists(os.path.join(d, f)):
                shutil.copy(os.path.join(d, f), os.path.join(dst, f))
        meta_p = os.path.join(dst, "meta.json")
        if not os.path.exists(meta_p):
            json.dump({"id": os.path.basename(dst), "property": P, "origin": "independent sub-agent given only the property text and a scratch worktree",
                       "needs_to_manifest": "see README.md", "confirmed": {}, "caught_by": None}, open(meta_p, "w"), indent=1)
        print("imported", dst)
