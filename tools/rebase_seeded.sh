#!/bin/sh
# usage: tools/rebase_seeded.sh id...   re-create seeded patches that stopped applying (three-way merge in a scratch worktree)
git -C /repo worktree add -q --detach /tmp/wt_rb HEAD || exit 1
cd /tmp/wt_rb
for id in "$@"; do
  git reset -q --hard HEAD
  if git apply --check /verif/seeded/$id/patch.diff 2>/dev/null; then echo "$id applies"; continue; fi
  out=$(git apply --3way /verif/seeded/$id/patch.diff 2>&1)
  if git diff --name-only --diff-filter=U | grep -q .; then echo "$id CONFLICT"; continue; fi
  if echo "$out" | grep -q "^error"; then echo "$id ERROR: $(echo "$out" | grep ^error | head -1)"; continue; fi
  git diff HEAD > /verif/seeded/$id/patch.diff
  python3 - "$id" <<'PY'
import json,sys,subprocess
i=sys.argv[1]
p='/verif/seeded/%s/meta.json'%i
m=json.load(open(p)); h=subprocess.check_output(['git','-C','/repo','log','--format=%h','-1']).decode().strip()
m['rebased']="patch re-created against /repo %s by a three-way merge (later fix commits touched neighbouring lines); same change"%h
json.dump(m,open(p,'w'),indent=1)
PY
  echo "$id rebased"
done
git reset -q --hard HEAD
cd /; git -C /repo worktree remove --force /tmp/wt_rb
