#!/bin/sh
# tools/seeded_all.sh [tier] [ids...]: run every seeded change (or the listed ones) against its property's check; summary on stdout
TIER="${1:-quick}"; [ $# -gt 0 ] && shift
IDS="$*"; [ -z "$IDS" ] && IDS="$(ls /verif/seeded)"
for ID in $IDS; do
  OUT="$(SEEDED_BASELINE=${SEEDED_BASELINE:-0} SEEDED_DEMO=${SEEDED_DEMO:-0} sh /verif/tools/seeded_check.sh "$ID" "$TIER" 2>&1)"
  NV="$(echo "$OUT" | grep -c '^VIOLATION')"
  SUM="$(echo "$OUT" | grep -E '^C[0-9]+ tier' | tail -1)"
  BASE="$(echo "$OUT" | grep -E '^baseline' | tail -1)"
  DEMO="$(echo "$OUT" | grep -E '^demo exit' | tr '\n' ';')"
  if [ "$NV" -gt 0 ]; then V=CAUGHT; else V=MISSED; fi
  echo "$ID $V violations_lines=$NV | $BASE | $DEMO | $SUM"
done
