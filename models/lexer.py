"""Reference lexer for formula strings, independent of formulaic's tokenizer.

Written from docsite/docs/guides/grammar.md (operator table, rows marked "part of
the tokenisation process") and ordinary Python lexical rules for embedded code:

* white space outside quotes separates tokens and is otherwise ignored;
* `` `...` `` quotes a field name verbatim (up to the next back-tick);
* ``{...}`` quotes Python code; ``<word>(...)`` / ``<word>[...]`` is a Python call /
  subscript.  Inside Python code brackets nest, Python string literals
  (``'..'``, ``".."``, triple-quoted, back-slash escapes) and back-ticked names are
  opaque -- a bracket inside a string literal does not count;
* ``"..."`` / ``'...'`` is a string literal; ``%...%`` is a quoted operator (``%in%``);
* words are runs of letters, digits, ``_`` and ``.``; everything else that is not a
  bracket is an operator character (``**`` is the only documented two-character
  operator).

Where the documentation is silent the lexer records a reason in ``Lexed.unspec``
(e.g. a back-slash, a word glued to a quote, ``%x%`` other than ``%in%``) so that
callers can class the input UNSPECIFIED instead of demanding anything.

Nothing in here imports formulaic.
"""
import ast
import re

WORD_KINDS = ("name", "number", "dot")
DOC_OPS = ("**", "+", "-", "*", "/", ":", "^", "~", "|")
NUMBER_RE = re.compile(r"(\d+(\.\d*)?|\.\d+)$")
OPENERS = {"(": ")", "[": "]", "{": "}"}


class Tok:
    """kind: name number dot op qop qname brace call string open close
    text:  the token's meaning (name without back-ticks, code without braces, the call verbatim,
           the operator symbol, the string literal with its quotes)
    start/end: inclusive character positions of the whole lexeme (delimiters included)
    """

    __slots__ = ("kind", "text", "start", "end", "complete")

    def __init__(self, kind, text, start, end, complete=True):
        self.kind, self.text, self.start, self.end, self.complete = kind, text, start, end, complete

    def __repr__(self):
        return "%s(%r@%d-%d%s)" % (self.kind, self.text, self.start, self.end, "" if self.complete else " UNTERMINATED")

    @property
    def is_python(self):
        return self.kind in ("brace", "call")


class Lexed:
    def __init__(self, source):
        self.source = source
        self.tokens = []
        self.unspec = []       # reasons why the documentation does not pin the lexing down
        self.unterminated = None  # description of the quote / bracket context open at the end

    @property
    def ok(self):
        return self.unterminated is None

    def python_fragments(self):
        """code of every embedded Python fragment (possibly truncated if unterminated)"""
        return [t.text for t in self.tokens if t.is_python]

    def plain(self):
        """token strings in C01's notation (operators, names, brackets) -- None if the string contains
        anything that is not expressible there"""
        return [(t.kind, t.text) for t in self.tokens]


def is_word_char(ch):
    return ch == "_" or ch == "." or ch.isalnum()


def skip_python_string(s, i):
    """s[i] is a quote that opens a Python string literal; return index of its last char or None"""
    q = s[i]
    n = len(s)
    if s[i:i + 3] == q * 3:
        j = i + 3
        while j < n:
            if s[j] == "\\":
                j += 2
                continue
            if s[j:j + 3] == q * 3:
                return j + 2
            j += 1
        return None
    j = i + 1
    while j < n:
        if s[j] == "\\":
            j += 2
            continue
        if s[j] == q:
            return j
        j += 1
    return None


def scan_python(s, i, closer, notes):
    """s[i-1] opened a Python bracket context that ends at the matching ``closer``.
    Returns (index of the matching closer, well_nested) or (None, ...) if the input ends first."""
    stack = [closer]
    n = len(s)
    well = True
    while i < n:
        ch = s[i]
        if ch in "'\"":
            j = skip_python_string(s, i)
            if j is None:
                return None, well
            i = j + 1
            continue
        if ch == "`":
            j = s.find("`", i + 1)
            if j < 0:
                return None, well
            i = j + 1
            continue
        if ch == "\\":
            notes.append("back-slash inside a Python fragment")
            i += 1
            continue
        if ch in OPENERS:
            stack.append(OPENERS[ch])
        elif ch in ")]}":
            if ch == stack[-1]:
                stack.pop()
                if not stack:
                    return i, well
            else:
                well = False  # mismatched closer: certainly not valid Python; keep looking for ours
        i += 1
    return None, well


def lex(s):
    out = Lexed(s)
    toks = out.tokens
    n = len(s)
    i = 0
    while i < n:
        ch = s[i]
        if ch.isspace():
            i += 1
            continue
        if ch == "\\":
            out.unspec.append("back-slash outside quotes")
            toks.append(Tok("op", "\\", i, i))
            i += 1
            continue
        if ch == "`":
            j = s.find("`", i + 1)
            if j < 0:
                toks.append(Tok("qname", s[i + 1:], i, n - 1, complete=False))
                out.unterminated = "`"
                return out
            if j == i + 1:
                out.unspec.append("empty back-ticked name")
            if toks and toks[-1].end == i - 1 and toks[-1].kind in WORD_KINDS + ("call", "string"):
                out.unspec.append("back-tick glued to a word")
            toks.append(Tok("qname", s[i + 1:j], i, j))
            i = j + 1
            continue
        if ch == "{":
            j, _well = scan_python(s, i + 1, "}", out.unspec)
            if j is None:
                toks.append(Tok("brace", s[i + 1:], i, n - 1, complete=False))
                out.unterminated = "}"
                return out
            if toks and toks[-1].end == i - 1 and toks[-1].kind in WORD_KINDS + ("call", "string"):
                out.unspec.append("brace glued to a word")
            if not s[i + 1:j].strip():
                out.unspec.append("empty braces")
            toks.append(Tok("brace", s[i + 1:j], i, j))
            i = j + 1
            continue
        if ch == "%":
            j = s.find("%", i + 1)
            if j < 0:
                toks.append(Tok("qop", s[i + 1:], i, n - 1, complete=False))
                out.unterminated = "%"
                return out
            if s[i + 1:j] != "in":
                out.unspec.append("%...% operator other than %in%")
            toks.append(Tok("qop", s[i + 1:j], i, j))
            i = j + 1
            continue
        if ch in "'\"":
            if toks and toks[-1].end == i - 1 and toks[-1].kind in WORD_KINDS + ("call", "string", "qname", "brace"):
                out.unspec.append("quote glued to an operand")
            j = i + 1  # a formula-level string literal: up to the next unescaped identical quote
            while j < n and s[j] != ch:
                j += 2 if s[j] == "\\" else 1
            if j >= n:
                j = None
            if j is None:
                toks.append(Tok("string", s[i:], i, n - 1, complete=False))
                out.unterminated = ch
                return out
            if "\\" in s[i:j]:
                out.unspec.append("back-slash inside a string literal")
            toks.append(Tok("string", s[i:j + 1], i, j))
            i = j + 1
            continue
        if is_word_char(ch):
            j = i
            while j + 1 < n and is_word_char(s[j + 1]):
                j += 1
            word = s[i:j + 1]
            if toks and toks[-1].end == i - 1 and toks[-1].kind in ("call", "string", "qname", "brace"):
                out.unspec.append("word glued to a quoted operand")
            if j + 1 < n and s[j + 1] in "([" and set(word) != {"."}:
                # call / subscript: Python code up to the matching closer, repeated for f(x)(y), f(x)[0]
                k = j + 1
                while k < n and s[k] in "([":
                    e, _well = scan_python(s, k + 1, OPENERS[s[k]], out.unspec)
                    if e is None:
                        toks.append(Tok("call", s[i:], i, n - 1, complete=False))
                        out.unterminated = OPENERS[s[k]]
                        return out
                    k = e + 1
                if word[0].isdigit():
                    out.unspec.append("call on a word that starts with a digit")
                toks.append(Tok("call", s[i:k], i, k - 1))
                i = k
                continue
            if set(word) == {"."}:
                if len(word) > 1:
                    out.unspec.append("run of dots")
                if j + 1 < n and s[j + 1] in "([":
                    out.unspec.append("dot glued to an opening bracket")
                toks.append(Tok("dot", word, i, j))
            elif NUMBER_RE.match(word):
                toks.append(Tok("number", word, i, j))
            else:
                if word[0].isdigit() or word[0] == "." or word[-1] == "." or ".." in word:
                    out.unspec.append("odd word %r" % word)
                toks.append(Tok("name", word, i, j))
            i = j + 1
            continue
        if ch in "([":
            toks.append(Tok("open", ch, i, i))
            i += 1
            continue
        if ch in ")]":
            toks.append(Tok("close", ch, i, i))
            i += 1
            continue
        # operator characters
        if s[i:i + 2] == "**":
            if s[i:i + 3] == "***":
                out.unspec.append("run of more than two *")
            toks.append(Tok("op", "**", i, i + 1))
            i += 2
            continue
        if ch not in "+-*/:^~|":
            out.unspec.append("unknown operator character %r" % ch)
        toks.append(Tok("op", ch, i, i))
        i += 1
    return out


# ---------------------------------------------------------------------------
# back-tick aliasing and Python validity (independent of formulaic.utils.code)

def alias_backticks(code):
    """replace every `name` outside Python string literals by a fresh identifier.
    Returns (python_source, {alias: name}) or (None, {}) if a back-tick is unmatched / a name is empty."""
    out, names, i, n = [], {}, 0, len(code)
    rev = {}
    while i < n:
        ch = code[i]
        if ch in "'\"":
            j = skip_python_string(code, i)
            if j is None:
                out.append(code[i:])
                break
            out.append(code[i:j + 1])
            i = j + 1
            continue
        if ch == "`":
            j = code.find("`", i + 1)
            if j < 0 or j == i + 1:
                return None, {}
            nm = code[i + 1:j]
            if nm not in rev:
                rev[nm] = "bt%d__" % len(rev)
                names[rev[nm]] = nm
            out.append(" " + rev[nm] + " ")
            i = j + 1
            continue
        out.append(ch)
        i += 1
    return "".join(out), names


def python_ast(code):
    """canonical dump of the fragment's syntax tree with back-ticked names as Name nodes, or None if the
    fragment is not a valid Python expression"""
    src, names = alias_backticks(code)
    if src is None:
        return None
    try:
        tree = ast.parse(src.strip(), mode="eval")
    except (SyntaxError, ValueError, MemoryError, RecursionError):
        return None
    for node in ast.walk(tree):
        if isinstance(node, ast.Name) and node.id in names:
            node.id = "`" + names[node.id] + "`"
    return ast.dump(tree)


def python_valid(code):
    return python_ast(code) is not None


# ---------------------------------------------------------------------------
# may two neighbouring tokens be written without white space between them?

def merges(t1, t2):
    """True if writing token t1 directly followed by t2 (no white space) may lex differently from
    't1 t2' -- conservative: True whenever the documentation does not clearly say they stay apart."""
    k1, k2 = t1.kind, t2.kind
    if k1 in WORD_KINDS and k2 in WORD_KINDS:
        return True                      # a b -> ab ; 1 .5 -> 1.5 ; a . -> a.
    if k1 in WORD_KINDS + ("call",) and k2 == "open":
        return True                      # a ( -> call
    if k1 == "op" and k2 == "op" and t1.text.endswith("*") and t2.text.startswith("*"):
        return True                      # * * -> **
    if k1 == "op" and k2 == "op" and ("\\" in t1.text + t2.text):
        return True
    glue = ("call", "string") + WORD_KINDS
    if k1 in glue and k2 in glue:
        return True                      # f(x)a, "x"a, a"x" : undocumented
    if k1 in ("qname", "brace") and k2 in ("open",) + glue:
        return True                      # `a`(  {a}(  : undocumented
    if k2 in ("qname", "brace", "string") and k1 in glue + ("qname", "brace"):
        return True
    if k1 == "qop" or k2 == "qop":
        # %in% is self-delimiting, but '%' directly after another '%...%' would re-pair
        return k1 == "qop" and k2 == "qop"
    return False


def lex_one(token_string):
    """classify a stand-alone token string (as used by the token-level enumerations)"""
    lx = lex(token_string)
    if not lx.ok or len(lx.tokens) != 1:
        raise ValueError("not a single token: %r -> %r" % (token_string, lx.tokens))
    return lx.tokens[0]
