"""Reference model for C20: term-wise partial derivatives of products of distinct factors.

A term is a tuple of factor strings; a factor is a plain column name (``a``) or a
function of one (``log(a)``).  Independent of formulaic.

Symbolic rule (property statement): d(term)/dv is zero if v does not occur in the term,
the term without the factor v if it does ("1" if nothing remains); several variables are
applied successively.  The default (non-sympy) implementation documents that a factor is
only recognised when its string equals the variable ("factor token strings must match the
variable exactly in order to be detected", differentiate_term docstring), so a variable
that occurs *inside* a function factor (``log(a)`` w.r.t. ``a``) is outside what the
property can demand without sympy: such terms are UNSPEC unless the result is zero for a
reason that does not depend on the function (some other wrt variable is absent).
A literal numeric factor (``2`` in ``2:a``) is a constant: it is never a variable and it
stays in the term, so d(2:a)/da = ``2`` ("1" only if *nothing* remains).
"""
import math
import re

_FUNC = re.compile(r"^[A-Za-z_][A-Za-z_0-9.]*\((.*)\)$")
_LITERAL = re.compile(r"^(\d+\.?\d*|\.\d+)$")


def split_term(s):
    """'a:b:log(a)' -> ('a', 'b', 'log(a)');  '1' -> ();  back-quoted names are one factor and lose their quotes:
    '`x:y`:c' -> ('x:y', 'c')"""
    if s == "1":
        return ()
    out, depth, cur, quoted = [], 0, "", False
    for ch in s:
        if ch == "`":
            quoted = not quoted
            continue
        if not quoted:
            if ch == "(":
                depth += 1
            elif ch == ")":
                depth -= 1
        if ch == ":" and depth == 0 and not quoted:
            out.append(cur)
            cur = ""
        else:
            cur += ch
    out.append(cur)
    return tuple(out)


def print_factor(f):
    """formulaic prints a factor bare, except that a name containing ':' keeps its back-quotes"""
    return "`%s`" % f if ":" in f and inner_variable(f) is None else f


def inner_variable(factor):
    """variable a function factor depends on, None for a plain name"""
    m = _FUNC.match(factor)
    return m.group(1).strip() if m else None


def occurs(v, factors):
    return any(f == v or inner_variable(f) == v for f in factors)


def d_term(factors, wrt):
    """-> ('ZERO',) | ('TERM', remaining factors) | ('UNSPEC', why)"""
    factors = tuple(factors)
    if any(not occurs(v, factors) for v in wrt):
        return ("ZERO",)
    if any(inner_variable(f) == v for v in wrt for f in factors):
        return ("UNSPEC", "variable inside a function factor (needs sympy)")
    # now every wrt variable is a plain factor and occurs nowhere else: the term is multilinear in them
    if len(set(wrt)) != len(wrt):
        return ("ZERO",)
    return ("TERM", tuple(f for f in factors if f not in wrt))


def term_str(res):
    if res[0] == "ZERO":
        return "0"
    if res[0] == "TERM":
        return ":".join(print_factor(f) for f in res[1]) if res[1] else "1"
    return None


# ---------------------------------------------------------------------------
# numeric side: columns and exact finite differences


def column(factors, data):
    """data: dict name -> list of floats; -> list of floats (product of the factor columns)"""
    n = len(next(iter(data.values())))
    out = [1.0] * n
    for f in factors:
        inner = inner_variable(f)
        if f in data:  # a plain column, or a precomputed pseudo-column such as a fitted "center(a)"
            vals = data[f]
        elif _LITERAL.match(f):  # a literal numeric factor scales the term
            vals = [float(f)] * n
        elif inner is None:
            vals = data[f]
        elif f.startswith("log("):
            vals = [math.log(x) for x in data[inner]]
        elif f.startswith("exp("):
            vals = [math.exp(x) for x in data[inner]]
        else:
            raise ValueError("unknown function factor %r" % (f,))
        out = [o * v for o, v in zip(out, vals)]
    return out


def finite_difference(factors, wrt, data, h):
    """successive forward differences (col(x + h e_v) - col(x)) / h for v in wrt; exact for multilinear terms"""
    if not wrt:
        return column(factors, data)
    v = wrt[0]
    if v not in data:  # not a column at all: nothing depends on it
        return [0.0] * len(next(iter(data.values())))
    shifted = dict(data)
    shifted[v] = [x + h for x in data[v]]
    hi = finite_difference(factors, wrt[1:], shifted, h)
    lo = finite_difference(factors, wrt[1:], data, h)
    return [(p - q) / h for p, q in zip(hi, lo)]
