"""Reference recomputation of model-matrix columns from their labels (C02, C05, C07).

Independent of formulaic's materializer: a column label is split at top-level ':' and every piece is recomputed
from the raw data with numpy.
"""
import itertools
import re

import numpy as np

PIECE_CAT = re.compile(r"^(?P<f>.+?)\[(?P<t>T\.)?(?P<l>[^\]]*)\]$")


def levels_of(series):
    """level order: declared order for categorical dtype, sorted for text"""
    import pandas as pd

    if isinstance(series.dtype, pd.CategoricalDtype):
        return list(series.dtype.categories)
    return sorted(set(v for v in series if v is not None and v == v))


def numeric_value(expr, frame, extra=None):
    """numeric factor expression -> float vector (supports names and the few python factors used by the drivers)"""
    if extra and expr in extra:
        return np.asarray(extra[expr](frame), dtype=float)
    if expr in frame.columns:
        return np.asarray(frame[expr], dtype=float)
    env = {c: np.asarray(frame[c], dtype=float) for c in frame.columns if frame[c].dtype.kind in "fiu"}
    env["np"] = np
    return np.asarray(eval(expr, {"__builtins__": {}}, env), dtype=float)  # noqa: S307 - harness-owned expressions


def split_label(label):
    return label.split(":")


def piece_value(piece, frame, cat_factors, extra=None):
    """value of one label piece; cat_factors: {printed factor expr -> column name in frame};
    extra: {piece label -> vector} for pieces whose value is supplied by the caller (e.g. contrast-coded columns)"""
    if extra and piece in extra and not callable(extra[piece]):
        m0 = PIECE_CAT.match(piece)
        return np.asarray(extra[piece], dtype=float), ((m0.group("f") if m0 else piece), None, True)
    m = PIECE_CAT.match(piece)
    if m and m.group("f") in cat_factors:
        col = frame[cat_factors[m.group("f")]]
        lv = m.group("l")
        return np.asarray([1.0 if str(v) == lv else 0.0 for v in col], dtype=float), (m.group("f"), lv, bool(m.group("t")))
    return numeric_value(piece, frame, extra), (piece, None, False)


def column_from_label(label, frame, cat_factors, scale=1.0, extra=None):
    if label == "Intercept":
        return np.ones(len(frame)) * scale, [("Intercept", None, False)]
    val = np.ones(len(frame)) * scale
    parts = []
    for piece in split_label(label):
        v, info = piece_value(piece, frame, cat_factors, extra)
        val = val * v
        parts.append(info)
    return val, parts


def full_kronecker_labels(factor_exprs, frame, cat_factors, levels=None):
    """predicted labels of one term with rank reduction OFF: first factor varying fastest, levels in level order"""
    per_factor = []
    for f in factor_exprs:
        if f in cat_factors:
            per_factor.append(["%s[%s]" % (f, l) for l in ((levels or {}).get(f) or levels_of(frame[cat_factors[f]]))])
        else:
            per_factor.append([f])
    if not per_factor:
        return ["Intercept"]
    out = []
    for rev in itertools.product(*reversed(per_factor)):
        out.append(":".join(reversed(rev)))
    return out
