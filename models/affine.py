"""Reference model for C16: conventional algebra over exact affine forms.

Independent of formulaic.  Two evaluators over the same expression trees and a
textbook recursive-descent parser over token lists:

* ``eval_affine(tree)``  -> ``Affine`` (dict variable -> Fraction, constant), raising
  ``NonLinear`` on a product of two variable-bearing forms or a division by a
  variable-bearing form (``variable-bearing`` is syntactic: some leaf below is a
  variable, even if its coefficient cancelled to zero) and ``ZeroDiv`` on a
  division by a constant that is exactly zero.
* ``eval_point(tree, env)`` -> Fraction value of the expression at a point
  (``ZeroDivisionError`` where undefined).  Used to separate "really not affine"
  (must be rejected) from "affine only after cancellation" (unspecified).
* ``parse(tokens)`` -> list of constraints ``(lhs_tree, rhs_tree | None)`` plus flags.

Trees: ``"2"``/``"0.5"`` (decimal literal), ``("var", name)``, ``("neg", t)``,
``("pos", t)``, ``(op, l, r)`` with op in ``+ - * /``.
"""
from fractions import Fraction
import re

OPS = ("+", "-", "*", "/")
NUM_RE = re.compile(r"(\d+\.?\d*|\.\d+)$")


class NonLinear(Exception):
    pass


class ZeroDiv(Exception):
    pass


class ParseError(Exception):
    pass


class Affine:
    __slots__ = ("coef", "const")

    def __init__(self, coef=None, const=0):
        self.coef = coef or {}          # var -> Fraction; an entry exists for every variable mentioned below
        self.const = Fraction(const)

    @property
    def bearing(self):
        return bool(self.coef)

    def scaled(self, k):
        return Affine({v: c * k for v, c in self.coef.items()}, self.const * k)

    def plus(self, other, sign=1):
        coef = dict(self.coef)
        for v, c in other.coef.items():
            coef[v] = coef.get(v, Fraction(0)) + sign * c
        return Affine(coef, self.const + sign * other.const)

    def key(self):
        return (tuple(sorted((v, c) for v, c in self.coef.items() if c != 0)), self.const)

    def __repr__(self):
        return "Affine(%r, %r)" % ({v: str(c) for v, c in self.coef.items()}, str(self.const))


def literal(tok):
    if not NUM_RE.match(tok):
        raise ParseError("not a decimal literal: %r" % (tok,))
    s = tok
    if s.startswith("."):
        s = "0" + s
    if s.endswith("."):
        s = s + "0"
    return Fraction(s)


def eval_affine(t):
    if isinstance(t, str):
        return Affine({}, literal(t))
    tag = t[0]
    if tag == "var":
        return Affine({t[1]: Fraction(1)}, 0)
    if tag == "neg":
        return eval_affine(t[1]).scaled(-1)
    if tag == "pos":
        return eval_affine(t[1])
    l, r = eval_affine(t[1]), eval_affine(t[2])
    if tag == "+":
        return l.plus(r)
    if tag == "-":
        return l.plus(r, -1)
    if tag == "*":
        if l.bearing and r.bearing:
            raise NonLinear("product of two variable-bearing forms")
        if r.bearing:
            return r.scaled(l.const)
        return l.scaled(r.const)
    if tag == "/":
        if r.bearing:
            raise NonLinear("division by a variable-bearing form")
        if r.const == 0:
            raise ZeroDiv("division by the constant 0")
        return l.scaled(1 / r.const)
    raise ValueError("bad tree %r" % (t,))


def eval_point(t, env):
    if isinstance(t, str):
        return literal(t)
    tag = t[0]
    if tag == "var":
        return env[t[1]]
    if tag == "neg":
        return -eval_point(t[1], env)
    if tag == "pos":
        return eval_point(t[1], env)
    l, r = eval_point(t[1], env), eval_point(t[2], env)
    if tag == "+":
        return l + r
    if tag == "-":
        return l - r
    if tag == "*":
        return l * r
    if tag == "/":
        return l / r  # ZeroDivisionError where undefined
    raise ValueError("bad tree %r" % (t,))


def variables(t, acc=None):
    acc = [] if acc is None else acc
    if isinstance(t, str):
        return acc
    if t[0] == "var":
        if t[1] not in acc:
            acc.append(t[1])
        return acc
    for s in t[1:]:
        variables(s, acc)
    return acc


# ---------------------------------------------------------------------------
# one constraint:  lhs [= rhs] [= value given by a mapping]


def constraint_value(con, env):
    """lhs(env) - rhs(env) - value   (ZeroDivisionError where undefined)"""
    lhs, rhs, value = con
    v = eval_point(lhs, env)
    if rhs is not None:
        v -= eval_point(rhs, env)
    return v - value


_BASES = [(3, 5, 7), (-2, 11, 4), (Fraction(1, 3), Fraction(-7, 2), 13)]
# mixed directions first: x*y is affine along the axes but not along (1, 1, 1)
_DIRS = [(1, 1, 1), (1, -2, 3), (1, 0, 0), (0, 1, 0), (0, 0, 1)]
_LINES = {}


def _lines(names):
    """lines base + t*dir, t = 0, 1, 2; variable i of `names` moves like coordinate i mod 3 (shifted by 17 per wrap)"""
    key = tuple(names)
    if key not in _LINES:
        out = []
        for base in _BASES:
            for d in _DIRS:
                line = []
                for t in range(3):
                    line.append({n: Fraction(base[i % 3]) + t * d[i % 3] + (i // 3) * 17 for i, n in enumerate(key)})
                out.append(line)
        _LINES[key] = out
    return _LINES[key]


def provably_not_affine(con, names):
    """True iff some exact second difference along a line is non-zero: then lhs - rhs is certainly not an affine
    function of the variables.  False = affine on every probed line or undefined there (no verdict)."""
    for line in _lines(names):
        try:
            v = [constraint_value(con, env) for env in line]
        except ZeroDivisionError:
            continue
        if v[0] - 2 * v[1] + v[2] != 0:
            return True
    return False


def defined_samples(con, names, limit=12):
    out = []
    for line in _lines(names):
        for env in line:
            try:
                out.append((env, constraint_value(con, env)))
            except ZeroDivisionError:
                continue
            if len(out) >= limit:
                return out
    return out


_CLASSIFY_CACHE = {}


def classify(con, names):
    """cached front end of _classify (the same constraint recurs under many renderings)"""
    key = (con, tuple(names))
    r = _CLASSIFY_CACHE.get(key)
    if r is None:
        if len(_CLASSIFY_CACHE) > 20000:
            _CLASSIFY_CACHE.clear()
        r = _CLASSIFY_CACHE[key] = _classify(con, names)
    return r


def _classify(con, names):
    """('OK', Affine)            syntactically linear: must be accepted with exactly this map
       ('REJECT', why)           provably not affine: must be rejected
       ('UNSPEC', why)           affine only after cancellation / never defined / division by the constant zero"""
    lhs, rhs, value = con
    try:
        f = eval_affine(lhs)
        if rhs is not None:
            f = f.plus(eval_affine(rhs), -1)
        f = f.plus(Affine({}, value), -1)
        return ("OK", f)
    except ZeroDiv as e:
        return ("UNSPEC", "zero-division")
    except NonLinear as e:
        if provably_not_affine(con, names):
            return ("REJECT", str(e))
        return ("UNSPEC", "cancellation-or-undefined")


# ---------------------------------------------------------------------------
# textbook recursive-descent parser over tokens (reference for the *rendered* string)


class _P:
    def __init__(self, tokens, name_of):
        self.t = list(tokens)
        self.i = 0
        self.name_of = name_of
        self.adjacent = False  # a sign directly after a binary arithmetic operator or another sign (x * -2, x - -y)
        self.chained = False

    def peek(self):
        return self.t[self.i] if self.i < len(self.t) else None

    def take(self):
        tok = self.peek()
        self.i += 1
        return tok

    def constraints(self):
        out = [self.constraint()]
        while self.peek() == ",":
            self.take()
            out.append(self.constraint())
        if self.peek() is not None:
            raise ParseError("trailing %r" % (self.peek(),))
        return out

    def constraint(self):
        lhs = self.expr()
        rhs = None
        if self.peek() == "=":
            self.take()
            rhs = self.expr()
            if self.peek() == "=":
                self.chained = True
                raise ParseError("chained '='")
        return (lhs, rhs)

    def expr(self):
        sign = None
        if self.peek() in ("+", "-"):
            prev = self.t[self.i - 1] if self.i > 0 else None
            if prev is not None and prev not in ("(", "=", ","):
                self.adjacent = True  # (not reachable: expr() only starts at the head, after '(', '=' or ',')
            sign = self.take()
        node = self.term()
        if sign == "-":
            node = ("neg", node)
        elif sign == "+":
            node = ("pos", node)
        while self.peek() in ("+", "-"):
            op = self.take()
            node = (op, node, self.term())
        return node

    def term(self):
        node = self.atom()
        while self.peek() in ("*", "/"):
            op = self.take()
            node = (op, node, self.atom())
        return node

    def atom(self):
        tok = self.take()
        if tok is None:
            raise ParseError("unexpected end")
        if tok == "(":
            node = self.expr()
            if self.take() != ")":
                raise ParseError("expected )")
            return node
        if tok in ("+", "-"):
            # a sign in operand position after * or / (or after another sign): conventional reading, flagged
            self.adjacent = True
            inner = self.atom()
            return ("neg", inner) if tok == "-" else ("pos", inner)
        if tok in OPS or tok in (")", ",", "="):
            raise ParseError("unexpected %r" % (tok,))
        if NUM_RE.match(tok):
            return tok
        return ("var", self.name_of(tok))


def default_name_of(tok):
    if len(tok) >= 2 and tok[0] == "`" and tok[-1] == "`":
        return tok[1:-1]
    return tok


def parse(tokens, name_of=default_name_of):
    """-> (list of (lhs, rhs|None), adjacent_operator_flag)"""
    p = _P(tokens, name_of)
    cons = p.constraints()
    return cons, p.adjacent
