"""Reference dummy coding for C08 / C09 -- written from the documentation, shares no code with formulaic.

Documented conventions this model encodes (docsite/docs/guides/contrasts.ipynb, model_specs.ipynb, formulae.ipynb):

* a categorical factor ``f`` with levels ``L = [l0, l1, ...]`` (text: sorted; categorical dtype: declared order)
  is coded either *full* -- one indicator column ``f[l]`` per level -- or *reduced* (treatment coding, used when the
  factor's span already contains what earlier terms span) -- one column ``f[T.l]`` per level except the first;
* sum-to-zero coding (``contr.sum``), reduced: one column ``f[S.l]`` per level except the LAST; a row holding the
  last level is -1 in every column; full: plain indicators ``f[l]``;
* numeric factors pass through unchanged under their own name;
* an interaction column is the row-wise product of one column of each factor, named ``c1:c2``, the columns of the
  FIRST factor varying fastest;
* terms are ordered by degree, then by order of appearance; the intercept comes first;
* when a recorded spec is re-applied, the level list is the recorded one: a level that is absent gives an all-zero
  indicator, a value that is not a recorded level matches no indicator at all (its row is zero in every column of
  that factor, also under sum coding, because the row of the indicator matrix is zero before the coding matrix is
  applied).

Everything is exact (ints / floats taken from the data), rows are plain dicts ``{column: python value}``.
"""


class Unmodelled(Exception):
    """the reference has no opinion (caller must class the case UNSPECIFIED)"""


def sorted_levels(values):
    """levels of a text column: distinct values in sorted (code point) order"""
    return sorted(set(values))


def _ind(col, level):
    return lambda row: 1 if row[col] == level else 0


def _exact(v):
    """integers stay Python ints (exact at any magnitude: 2**53 + 1 must not become 2**53); the rest is float"""
    if isinstance(v, bool):
        return int(v)
    if isinstance(v, int):
        return v
    return float(v)


def _num(col):
    return lambda row: _exact(row[col])


def _const(v):
    return lambda row: _exact(v)


def _sum_col(col, level, last):
    def f(row):
        v = row[col]
        if v == level:
            return 1
        if v == last:
            return -1
        return 0
    return f


def cat_columns(name, col, levels, reduced, coding="treatment", level_names=None):
    """[(column name, row -> value)] for one categorical factor"""
    names = level_names if level_names is not None else [str(l) for l in levels]
    if not reduced:
        return [("%s[%s]" % (name, n), _ind(col, l)) for l, n in zip(levels, names)]
    if coding == "treatment":
        return [("%s[T.%s]" % (name, n), _ind(col, l)) for l, n in list(zip(levels, names))[1:]]
    if coding == "sum":
        if not levels:
            return []
        last = levels[-1]
        return [("%s[S.%s]" % (name, n), _sum_col(col, l, last)) for l, n in list(zip(levels, names))[:-1]]
    raise Unmodelled(coding)


def interact(first, second):
    """row-wise product; the columns of the first factor vary fastest"""
    out = []
    for n2, f2 in second:
        for n1, f1 in first:
            out.append(("%s:%s" % (n1, n2), (lambda a, b: (lambda row: a(row) * b(row)))(f1, f2)))
    return out


INTERCEPT = ("Intercept", _const(1))


class Factor:
    """kind 'cat' (levels given) or 'num'; `name` is the printed factor name, `col` the data column"""

    def __init__(self, name, col, kind, levels=None, coding="treatment", level_names=None):
        self.name, self.col, self.kind, self.levels, self.coding = name, col, kind, levels, coding
        self.level_names = level_names

    def cols(self, reduced):
        if self.kind == "num":
            return [(self.name, _num(self.col))]
        return cat_columns(self.name, self.col, self.levels, reduced, self.coding, self.level_names)


def design(shape, f1, f2=None, full_rank=True, intercept=True):
    """Columns of `1 + <shape>` where shape is one of
         'f1'        single main effect
         'f1+f2'     two main effects in that order (both of degree one: order of appearance)
         'f1:f2'     a lone interaction (no main effects in the formula)
    following the documented rank rule: with ensure_full_rank a categorical factor is reduced exactly when what
    it would span in full is already spanned by earlier columns.
    """
    cols = [INTERCEPT] if intercept else []
    if not intercept and shape not in ("f1", "f1+f2"):
        raise Unmodelled("no-intercept " + shape)
    if shape == "f1":
        cols += f1.cols(reduced=full_rank and f1.kind == "cat" and intercept)
    elif shape == "f1+f2":
        # a categorical main effect is reduced exactly when the constant is already spanned: by the intercept or
        # by an earlier categorical main effect that is coded in full
        spanned = intercept
        for f in (f1, f2):
            reduced = full_rank and f.kind == "cat" and spanned
            cols += f.cols(reduced=reduced)
            if f.kind == "cat":
                spanned = True
    elif shape == "f1:f2":
        if f1.kind == "cat" and f2.kind == "cat":
            if full_rank:
                # 1 + f1:f2 spans {1, f1, f2, f1:f2}; the intercept is there already.  Outcome of the documented
                # (patsy) rank rule: the main effect of the LAST factor in reduced form, then the first factor
                # reduced within every level of the last one.  (This one shape is cross-checked against the
                # implementation's structure on x,y,z x p,q in selftest(), not pinned from a printed doc output;
                # C03 owns the rank rule -- here it only has to name the columns so that values can be compared.)
                cols += f2.cols(reduced=True)
                cols += interact(f1.cols(reduced=True), f2.cols(reduced=False))
            else:
                cols += interact(f1.cols(reduced=False), f2.cols(reduced=False))
        elif f1.kind == "cat" and f2.kind == "num":
            # f2 alone is not in the model, so f1 must be coded in full inside the interaction
            cols += interact(f1.cols(reduced=False), f2.cols(False))
        elif f1.kind == "num" and f2.kind == "cat":
            cols += interact(f1.cols(False), f2.cols(reduced=False))
        else:
            cols += interact(f1.cols(False), f2.cols(False))
    else:
        raise Unmodelled(shape)
    return cols


def evaluate(cols, rows):
    """-> (names, matrix as list of row lists)"""
    return [n for n, _ in cols], [[f(r) for _, f in cols] for r in rows]


def selftest():
    """pinned against the outputs printed in docsite/docs/guides/model_specs.ipynb and contrasts.ipynb"""
    rows = [{"a": 1, "b": "A"}, {"a": 2, "b": "B"}, {"a": 3, "b": "C"}]
    b = Factor("b", "b", "cat", ["A", "B", "C"])
    a = Factor("a", "a", "num")
    names, m = evaluate(design("f1+f2", a, b), rows)
    assert names == ["Intercept", "a", "b[T.B]", "b[T.C]"], names
    assert m == [[1, 1, 0, 0], [1, 2, 1, 0], [1, 3, 0, 1]], m
    # re-application with an unseen level 'D' and an absent level 'C' (model_specs.ipynb, cell 11)
    names, m = evaluate(design("f1+f2", a, b), [{"a": 4, "b": "A"}, {"a": 5, "b": "B"}, {"a": 6, "b": "D"}])
    assert m == [[1, 4, 0, 0], [1, 5, 1, 0], [1, 6, 0, 0]], m
    s = Factor("C(b, contr.sum)", "b", "cat", ["A", "B", "C"], coding="sum")
    names, m = evaluate(design("f1", s), rows + [{"a": 0, "b": "D"}])
    assert names == ["Intercept", "C(b, contr.sum)[S.A]", "C(b, contr.sum)[S.B]"], names
    assert m == [[1, 1, 0], [1, 0, 1], [1, -1, -1], [1, 0, 0]], m
    x = Factor("A", "A", "cat", ["x", "y", "z"])
    y = Factor("B", "B", "cat", ["p", "q"])
    names, _ = evaluate(design("f1:f2", x, y), [])
    assert names == ["Intercept", "B[T.q]", "A[T.y]:B[p]", "A[T.z]:B[p]", "A[T.y]:B[q]", "A[T.z]:B[q]"], names
    names, m = evaluate(design("f1+f2", b, a, intercept=False), rows)  # '0 + b + a': b coded in full
    assert names == ["b[A]", "b[B]", "b[C]", "a"] and m[2] == [0, 0, 1, 3], (names, m)
    names, m = evaluate(design("f1", Factor("n", "n", "num")), [{"n": 2 ** 53 + 1}])
    assert m == [[1, 2 ** 53 + 1]] and m[0][1] != float(2 ** 53 + 1)
    names, _ = evaluate(design("f1:f2", x, y, full_rank=False), [])
    assert names == ["Intercept", "A[x]:B[p]", "A[y]:B[p]", "A[z]:B[p]", "A[x]:B[q]", "A[y]:B[q]", "A[z]:B[q]"], names
