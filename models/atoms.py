"""Exact span algebra of scoped terms (C03).

Write the full indicator space of a categorical factor F (one that spans the intercept) as  1 (+) W_F.
A term with intercept-spanning categorical factors C and other factors R (numeric factors, or categorical factors
with a coding that does not span the intercept) spans, on fully crossed data in general position, the direct sum of
the *atoms*

        atom(S, R) = (x)_{F in S} W_F  (x)  (x)_{G in R} G            for every S subseteq C.

Atoms with different (S, R) are linearly independent subspaces.  A scoped term emitted by rank reduction, with
factor F either *reduced* (W_F only) or *full* (1 (+) W_F), expands into atoms the same way.  Therefore

  * the emitted matrix is structurally full rank  iff  no atom is emitted twice, and
  * it has the span of the unreduced design        iff  the set of atoms emitted == the atoms of the unreduced terms.
"""
import itertools


def term_atoms(cat_spanning, others):
    """atoms of an unreduced term: every subset of its intercept-spanning categorical factors"""
    cats = sorted(cat_spanning)
    rest = frozenset(others)
    out = set()
    for r in range(len(cats) + 1):
        for S in itertools.combinations(cats, r):
            out.add((frozenset(S), rest))
    return out


def scoped_term_atoms(factors):
    """factors: iterable of (name, spans_intercept: bool, reduced: bool)"""
    free, fixed_cat, rest = [], [], []
    for name, spans, reduced in factors:
        if spans and not reduced:
            free.append(name)
        elif spans and reduced:
            fixed_cat.append(name)
        else:
            rest.append(name)
    out = []
    for r in range(len(free) + 1):
        for S in itertools.combinations(sorted(free), r):
            out.append((frozenset(S) | frozenset(fixed_cat), frozenset(rest)))
    return out


def verdict(unreduced_terms, emitted_scoped_terms):
    """
    unreduced_terms: list of (cat_spanning_names, other_names)
    emitted_scoped_terms: list of lists of (name, spans, reduced)
    -> dict(full_rank=bool, same_span=bool, duplicated=[...], missing=[...], extra=[...])
    """
    want = set()
    for cats, others in unreduced_terms:
        want |= term_atoms(cats, others)
    got = []
    for st in emitted_scoped_terms:
        got.extend(scoped_term_atoms(st))
    seen, dup = set(), []
    for a in got:
        if a in seen:
            dup.append(a)
        seen.add(a)
    return {
        "full_rank": not dup,
        "same_span": seen == want,
        "duplicated": [fmt(a) for a in dup],
        "missing": [fmt(a) for a in sorted(want - seen, key=fmt)],
        "extra": [fmt(a) for a in sorted(seen - want, key=fmt)],
        "n_atoms": len(want),
    }


def fmt(a):
    S, R = a
    return ":".join(["W_%s" % f for f in sorted(S)] + sorted(R)) or "1"
