"""Reference models for C12 (spline transforms), independent of formulaic's code.

Everything is computed in exact ``fractions.Fraction`` arithmetic from the textbook definitions:

* B-splines: the Cox-de Boor recursion  B[i,0] = 1 on [t_i, t_{i+1}),  B[i,d] = w(i,d) B[i,d-1] + (1 - w(i+1,d)) B[i+1,d-1]
  with w(i,d) = (x - t_i) / (t_{i+d} - t_i) and 0/0 := 0, evaluated point by point through the triangular scheme that
  only touches the d+1 functions that can be non-zero at x.  The right end of the knot vector is closed (the value at
  t_max is the limit from the left).  Polynomial continuation outside [t_0, t_max] is obtained by *Lagrange
  extrapolation* from degree+1 exact values inside the boundary interval (no extended indicator functions).
* Natural / periodic interpolating cubic splines: for data y on knots t the second derivatives m solve the classical
  tridiagonal (cyclic tridiagonal) system
        h[j-1]/6 m[j-1] + (h[j-1]+h[j])/3 m[j] + h[j]/6 m[j+1] = (y[j+1]-y[j])/h[j] - (y[j]-y[j-1])/h[j-1]
  (natural: m[0] = m[n-1] = 0; periodic: indices mod n-1), solved by Gaussian elimination over Fractions; the cardinal
  basis function number i is the spline through y = e_i.  Natural splines are continued linearly outside the knots
  (they have zero second derivative at the ends); periodic splines are continued periodically.
* Quantiles: the "linear" / R type 7 definition.

``selftest()`` checks the models against their defining properties (exactly) and against scipy (numerically).
"""
from fractions import Fraction as F
from functools import lru_cache
import math


def frac(v):
    """exact rational value of an int / float / Fraction"""
    if isinstance(v, F):
        return v
    if isinstance(v, int):
        return F(v)
    return F(float(v))


# ---------------------------------------------------------------------------
# quantiles

def quantiles7(sample, m):
    """the m equally spaced interior quantiles k/(m+1), k = 1..m, of the sample (linear interpolation, R type 7)"""
    s = sorted(frac(v) for v in sample)
    n = len(s)
    if n == 0:
        raise ValueError("empty sample")
    out = []
    for k in range(1, m + 1):
        pos = F(k, m + 1) * (n - 1)
        lo = pos.numerator // pos.denominator
        if lo >= n - 1:
            out.append(s[n - 1])
        else:
            out.append(s[lo] + (pos - lo) * (s[lo + 1] - s[lo]))
    return out


# ---------------------------------------------------------------------------
# B-splines

def _check_knots(t):
    for a, b in zip(t, t[1:]):
        if b < a:
            raise ValueError("knot vector is not non-decreasing")


def _triangle(t, degree, x, mu):
    """exact values at x of the degree+1 polynomial pieces that the functions B[mu-degree .. mu, degree] have on the
    knot interval number mu (for x inside that interval these are the function values; elsewhere, the continued
    polynomials).  Triangular Cox-de Boor scheme: vals[r] = B[mu-d+r, d] for r = 0..d.

    All knots and x are first scaled to integers by their common denominator (the weights are ratios of differences,
    so the scale cancels) and the values are kept as unnormalised integer pairs (numerator, denominator > 0): exact,
    and much cheaper than Fraction objects when the knots are binary floats with 2**-52 denominators."""
    n = len(t)
    nb = n - degree - 1
    L = x.denominator
    for k in t:
        L = L * k.denominator // math.gcd(L, k.denominator)
    X = x.numerator * (L // x.denominator)
    T = [k.numerator * (L // k.denominator) for k in t]
    vals = [(1, 1)]
    for d in range(1, degree + 1):
        new = [(0, 1)] * (d + 1)
        for r in range(d + 1):
            i = mu - d + r  # function index B[i, d]
            an, ad = 0, 1
            # left parent B[i, d-1] is vals[r-1] (index mu-(d-1)+(r-1) = i)
            if r - 1 >= 0 and 0 <= i and i + d < n:
                den = T[i + d] - T[i]
                if den != 0:
                    pn, pd = vals[r - 1]
                    an, ad = (X - T[i]) * pn, den * pd
            # right parent B[i+1, d-1] is vals[r]
            if r <= d - 1 and 0 <= i + 1 and i + d + 1 < n:
                den = T[i + d + 1] - T[i + 1]
                if den != 0:
                    pn, pd = vals[r]
                    bn, bd = (T[i + d + 1] - X) * pn, den * pd
                    an, ad = an * bd + bn * ad, ad * bd
            g = math.gcd(an, ad) if ad.bit_length() > 2048 else 1
            new[r] = (an // g, ad // g)
        vals = new
    out = [F(0)] * nb
    for r in range(degree + 1):
        i = mu - degree + r
        if 0 <= i < nb:
            out[i] = F(vals[r][0], vals[r][1])
        elif vals[r][0] != 0:
            raise AssertionError("non-zero B-spline outside the basis index range (malformed knot vector?)")
    return tuple(out)


@lru_cache(maxsize=200000)
def bspline_row(knots, degree, x):
    """tuple of the len(knots)-degree-1 B-spline basis values of the given degree at x (all Fractions).

    knots: tuple of Fractions, non-decreasing.  Zero outside [knots[0], knots[-1]]; right end closed.
    """
    t = knots
    n = len(t)
    nb = n - degree - 1
    _check_knots(t)
    if x < t[0] or x > t[-1] or t[0] == t[-1]:
        return (F(0),) * nb
    # the knot interval [t_mu, t_mu+1) containing x; x == t_max belongs to the last non-empty interval
    if x == t[-1]:
        mu = max(i for i in range(n - 1) if t[i] < t[i + 1])
    else:
        mu = max(i for i in range(n - 1) if t[i] <= x)
    return _triangle(t, degree, x, mu)


def bspline_row_naive(knots, degree, x):
    """the same by the plain recursive definition over all indices (used by the self-test only)"""
    t = knots
    n = len(t)
    last = max(i for i in range(n - 1) if t[i] < t[i + 1])

    def B(i, d):
        if d == 0:
            if t[i] <= x < t[i + 1]:
                return F(1)
            if i == last and x == t[i + 1]:
                return F(1)
            return F(0)
        a = F(0)
        if t[i + d] != t[i]:
            a += (x - t[i]) / (t[i + d] - t[i]) * B(i, d - 1)
        if t[i + d + 1] != t[i + 1]:
            a += (t[i + d + 1] - x) / (t[i + d + 1] - t[i + 1]) * B(i + 1, d - 1)
        return a

    return tuple(B(i, degree) for i in range(n - degree - 1))


@lru_cache(maxsize=200000)
def bspline_row_extended(knots, degree, x):
    """basis values at x where, outside [t_0, t_max], the polynomial pieces of the first / last NON-EMPTY knot
    interval are continued: the recursion restricted to one knot interval is a polynomial identity, so it is simply
    evaluated at x.  Cross-checked in selftest() against bspline_row_extended_lagrange and scipy."""
    t = knots
    _check_knots(t)
    if t[0] <= x <= t[-1]:
        return bspline_row(t, degree, x)
    nonempty = [i for i in range(len(t) - 1) if t[i] < t[i + 1]]
    if not nonempty:
        raise ValueError("degenerate knot vector")
    return _triangle(t, degree, x, nonempty[0] if x < t[0] else nonempty[-1])


def bspline_row_extended_lagrange(knots, degree, x):
    """the same by Lagrange extrapolation from degree+1 exact values inside the boundary interval (self-test only)"""
    t = knots
    if t[0] <= x <= t[-1]:
        return bspline_row(t, degree, x)
    distinct = sorted(set(t))
    if len(distinct) < 2:
        raise ValueError("degenerate knot vector")
    if x < t[0]:
        a, b = distinct[0], distinct[1]
        nodes = [a + (b - a) * F(k, degree + 1) for k in range(degree + 1)]  # in [a, b)
    else:
        a, b = distinct[-2], distinct[-1]
        nodes = [a + (b - a) * F(k + 1, degree + 1) for k in range(degree + 1)]  # in (a, b], b closed
    rows = [bspline_row(t, degree, p) for p in nodes]
    weights = []
    for k, pk in enumerate(nodes):
        w = F(1)
        for m, pm in enumerate(nodes):
            if m != k:
                w *= (x - pm) / (pk - pm)
        weights.append(w)
    nb = len(t) - degree - 1
    return tuple(sum((weights[k] * rows[k][i] for k in range(degree + 1)), F(0)) for i in range(nb))


# ---------------------------------------------------------------------------
# interpolating cubic splines

def solve(A, B):
    """solve A X = B over Fractions (A square list of rows, B list of rows); Gaussian elimination with pivot search"""
    n = len(A)
    M = [list(A[i]) + list(B[i]) for i in range(n)]
    for col in range(n):
        piv = next((r for r in range(col, n) if M[r][col] != 0), None)
        if piv is None:
            raise ZeroDivisionError("singular system")
        M[col], M[piv] = M[piv], M[col]
        pv = M[col][col]
        M[col] = [v / pv for v in M[col]]
        for r in range(n):
            if r != col and M[r][col] != 0:
                f = M[r][col]
                M[r] = [a - f * b for a, b in zip(M[r], M[col])]
    return [row[n:] for row in M]


@lru_cache(maxsize=20000)
def natural_second_derivatives(knots):
    """n x n matrix (tuple of rows): row j, column i = second derivative at knot j of the natural cubic spline through e_i"""
    t = knots
    n = len(t)
    if n < 2 or any(b <= a for a, b in zip(t, t[1:])):
        raise ValueError("need >= 2 strictly increasing knots")
    h = [t[j + 1] - t[j] for j in range(n - 1)]
    if n == 2:
        return tuple((F(0),) * n for _ in range(n))
    A = [[F(0)] * (n - 2) for _ in range(n - 2)]
    B = [[F(0)] * n for _ in range(n - 2)]
    for j in range(1, n - 1):
        r = j - 1
        A[r][r] += (h[j - 1] + h[j]) / 3
        if j - 1 >= 1:
            A[r][r - 1] += h[j - 1] / 6
        if j + 1 <= n - 2:
            A[r][r + 1] += h[j] / 6
        # rhs = (y[j+1]-y[j])/h[j] - (y[j]-y[j-1])/h[j-1]   as a linear form in y
        B[r][j + 1] += 1 / h[j]
        B[r][j] += -1 / h[j] - 1 / h[j - 1]
        B[r][j - 1] += 1 / h[j - 1]
    X = solve(A, B)
    zero = (F(0),) * n
    return (zero,) + tuple(tuple(r) for r in X) + (zero,)


@lru_cache(maxsize=20000)
def periodic_second_derivatives(knots):
    """(n-1) x (n-1) matrix: row j, column i = second derivative at knot j of the periodic cubic spline (period
    t[n-1]-t[0]) that takes the value e_i at knots 0..n-2"""
    t = knots
    n = len(t)
    if n < 2 or any(b <= a for a, b in zip(t, t[1:])):
        raise ValueError("need >= 2 strictly increasing knots")
    p = n - 1
    h = [t[j + 1] - t[j] for j in range(p)]
    A = [[F(0)] * p for _ in range(p)]
    B = [[F(0)] * p for _ in range(p)]
    for j in range(p):
        jm, jp = (j - 1) % p, (j + 1) % p
        hm, hj = h[jm], h[j]
        A[j][jm] += hm / 6
        A[j][j] += (hm + hj) / 3
        A[j][jp] += hj / 6
        B[j][jp] += 1 / hj
        B[j][j] += -1 / hj - 1 / hm
        B[j][jm] += 1 / hm
    return tuple(tuple(r) for r in solve(A, B))


def _piece(tj, tj1, yj, yj1, mj, mj1, x, deriv=0):
    h = tj1 - tj
    if deriv == 0:
        return (mj * (tj1 - x) ** 3 / (6 * h) + mj1 * (x - tj) ** 3 / (6 * h)
                + (yj / h - mj * h / 6) * (tj1 - x) + (yj1 / h - mj1 * h / 6) * (x - tj))
    if deriv == 1:
        return (-mj * (tj1 - x) ** 2 / (2 * h) + mj1 * (x - tj) ** 2 / (2 * h)
                - (yj / h - mj * h / 6) + (yj1 / h - mj1 * h / 6))
    if deriv == 2:
        return mj * (tj1 - x) / h + mj1 * (x - tj) / h
    raise ValueError(deriv)


def _interval(t, x):
    """index j with t[j] <= x <= t[j+1] (x inside [t[0], t[-1]])"""
    n = len(t)
    for j in range(n - 1):
        if x <= t[j + 1]:
            return j
    return n - 2


def _combine(n, p, M, j, j1, tj, tj1, x, deriv):
    """row of the cardinal basis on the piece [tj, tj1] whose end knots carry the value / second-derivative unknowns
    number j and j1: the piece formula is linear in (y_j, y_j1, m_j, m_j1) and m = M y, so the row is
    cy_j e_j + cy_j1 e_j1 + cm_j M[j] + cm_j1 M[j1]"""
    one, zero = F(1), F(0)
    cyj = _piece(tj, tj1, one, zero, zero, zero, x, deriv)
    cyj1 = _piece(tj, tj1, zero, one, zero, zero, x, deriv)
    cmj = _piece(tj, tj1, zero, zero, one, zero, x, deriv)
    cmj1 = _piece(tj, tj1, zero, zero, zero, one, x, deriv)
    out = [cmj * M[j][i] + cmj1 * M[j1][i] for i in range(p)]
    out[j] += cyj
    out[j1] += cyj1
    return out


@lru_cache(maxsize=400000)
def natural_cardinal_row(knots, x, deriv=0, side=0):
    """values (or derivatives) at x of the n cardinal natural cubic splines on the knots; linear outside the knots.
    side=-1 / +1 selects the piece left / right of x when x is a knot (only matters for derivatives)."""
    t = knots
    n = len(t)
    M = natural_second_derivatives(t)
    if x < t[0] or (x == t[0] and side < 0):
        v0 = _combine(n, n, M, 0, 1, t[0], t[1], t[0], 0)
        s0 = _combine(n, n, M, 0, 1, t[0], t[1], t[0], 1)
        return tuple([a + b * (x - t[0]) for a, b in zip(v0, s0)] if deriv == 0 else s0 if deriv == 1 else [F(0)] * n)
    if x > t[-1] or (x == t[-1] and side > 0):
        v1 = _combine(n, n, M, n - 2, n - 1, t[-2], t[-1], t[-1], 0)
        s1 = _combine(n, n, M, n - 2, n - 1, t[-2], t[-1], t[-1], 1)
        return tuple([a + b * (x - t[-1]) for a, b in zip(v1, s1)] if deriv == 0 else s1 if deriv == 1 else [F(0)] * n)
    j = _interval(t, x)
    if side > 0 and x == t[j + 1] and j + 2 < n:
        j += 1
    return tuple(_combine(n, n, M, j, j + 1, t[j], t[j + 1], x, deriv))


def natural_cardinal_row_columnwise(knots, x):
    """the same, column by column: solve for the spline through e_i, then evaluate it (self-test only)"""
    t = knots
    n = len(t)
    M = natural_second_derivatives(t)
    out = []
    for i in range(n):
        y = [F(1) if k == i else F(0) for k in range(n)]
        m = [M[k][i] for k in range(n)]
        if x < t[0]:
            out.append(y[0] + _piece(t[0], t[1], y[0], y[1], m[0], m[1], t[0], 1) * (x - t[0]))
        elif x > t[-1]:
            out.append(y[-1] + _piece(t[-2], t[-1], y[-2], y[-1], m[-2], m[-1], t[-1], 1) * (x - t[-1]))
        else:
            j = _interval(t, x)
            out.append(_piece(t[j], t[j + 1], y[j], y[j + 1], m[j], m[j + 1], x, 0))
    return tuple(out)


def wrap(t0, t1, x):
    """x mapped periodically into [t0, t1] (points already inside, including both ends, are unchanged)"""
    if t0 <= x <= t1:
        return x
    per = t1 - t0
    k = (x - t0) / per
    fl = k.numerator // k.denominator
    return x - fl * per


@lru_cache(maxsize=400000)
def periodic_cardinal_row(knots, x, deriv=0, side=0):
    """values (or derivatives) at x of the n-1 cardinal periodic cubic splines on the knots (knot n-1 == knot 0)"""
    t = knots
    n = len(t)
    p = n - 1
    M = periodic_second_derivatives(t)
    x = wrap(t[0], t[-1], x)
    if side > 0 and x == t[-1]:
        x = t[0]
    if side < 0 and x == t[0]:
        x = t[-1]
    j = _interval(t, x)
    if side > 0 and x == t[j + 1] and j + 2 < n:
        j += 1
    if p == 1:
        # a single unknown: both ends of the only piece are knot 0
        one, zero = F(1), F(0)
        return (_piece(t[0], t[1], one, one, M[0][0], M[0][0], x, deriv),)
    return tuple(_combine(n, p, M, j % p, (j + 1) % p, t[j], t[j + 1], x, deriv))


# ---------------------------------------------------------------------------
# small exact linear algebra helpers

def rank(rows):
    """exact rank of a matrix of Fractions"""
    M = [list(r) for r in rows]
    if not M:
        return 0
    rk = 0
    ncol = len(M[0])
    for col in range(ncol):
        piv = next((r for r in range(rk, len(M)) if M[r][col] != 0), None)
        if piv is None:
            continue
        M[rk], M[piv] = M[piv], M[rk]
        pv = M[rk][col]
        M[rk] = [v / pv for v in M[rk]]
        for r in range(len(M)):
            if r != rk and M[r][col] != 0:
                f = M[r][col]
                M[r] = [a - f * b for a, b in zip(M[r], M[rk])]
        rk += 1
        if rk == len(M):
            break
    return rk


# ---------------------------------------------------------------------------

def selftest():
    """defining properties (exact) and agreement with scipy (numerical) on a few knot vectors"""
    import numpy as np
    from scipy.interpolate import BSpline, CubicSpline

    pts = [F(k, 4) for k in range(-4, 21)] + [F(1, 8), F(31, 8)]
    knot_sets = [(F(0), F(4)), (F(0), F(1), F(4)), (F(0), F(1, 2), F(3, 2), F(4)), (F(1), F(3, 2), F(2), F(3)),
                 (F(0), F(1), F(1), F(4)), (F(0), F(2, 3), F(5, 3), F(4)), (F(0), F(0), F(4)), (F(0), F(2), F(4), F(4))]
    for inner in knot_sets:
        lo, hi, mid = inner[0], inner[-1], inner[1:-1]
        simple = len(set(inner)) == len(inner)  # scipy comparisons: simple interior knots strictly inside only
        for degree in range(0, 6):
            t = (lo,) * (degree + 1) + tuple(mid) + (hi,) * (degree + 1)
            nb = len(t) - degree - 1
            for x in pts:
                row = bspline_row(t, degree, x)
                if lo <= x <= hi and (degree <= 3 or x.denominator <= 2):
                    assert row == bspline_row_naive(t, degree, x), (t, degree, x)
                if lo <= x <= hi:
                    assert all(v >= 0 for v in row) and sum(row) == 1, ("partition of unity", t, degree, x)
                    if simple:
                        tt = np.array([float(v) for v in t])
                        for i in range(nb):
                            c = np.zeros(nb)
                            c[i] = 1
                            if x < hi:
                                v = BSpline(tt, c, degree, extrapolate=False)(float(x))
                                assert abs(float(row[i]) - float(v)) < 1e-12, ("scipy", t, degree, x, i)
                else:
                    assert not any(row)
                ext = bspline_row_extended(t, degree, x)
                assert ext == bspline_row_extended_lagrange(t, degree, x), ("extension", t, degree, x)
                assert sum(ext) == 1, ("extension keeps the partition of unity", t, degree, x)
                if simple and degree >= 1:
                    tt = np.array([float(v) for v in t])
                    for i in range(nb):
                        c = np.zeros(nb)
                        c[i] = 1
                        v = BSpline(tt, c, degree, extrapolate=True)(float(x))
                        assert abs(float(ext[i]) - float(v)) < 1e-9 * max(1, abs(float(v))), ("scipy-ext", t, degree, x, i)
    for t in knot_sets:
        if len(set(t)) != len(t):
            continue
        n = len(t)
        # natural: interpolation, C1/C2 at interior knots, zero second derivative at the ends, linear outside
        for k in range(n):
            row = natural_cardinal_row(t, t[k])
            assert row == tuple(F(1) if i == k else F(0) for i in range(n))
            for d in (0, 1, 2):
                if 0 < k < n - 1:
                    assert natural_cardinal_row(t, t[k], d, -1) == natural_cardinal_row(t, t[k], d, +1), ("C2", t, k, d)
        assert not any(natural_cardinal_row(t, t[0], 2, +1)) and not any(natural_cardinal_row(t, t[-1], 2, -1))
        for d in (0, 1, 2):
            assert natural_cardinal_row(t, t[0], d, -1) == natural_cardinal_row(t, t[0], d, +1)
            assert natural_cardinal_row(t, t[-1], d, -1) == natural_cardinal_row(t, t[-1], d, +1)
        for x in pts:
            assert sum(natural_cardinal_row(t, x)) == 1
            assert natural_cardinal_row(t, x) == natural_cardinal_row_columnwise(t, x)
        if n >= 3:
            tt = np.array([float(v) for v in t])
            for i in range(n):
                y = np.zeros(n)
                y[i] = 1
                cs = CubicSpline(tt, y, bc_type="natural")
                for x in pts:
                    if t[0] <= x <= t[-1]:
                        assert abs(float(natural_cardinal_row(t, x)[i]) - float(cs(float(x)))) < 1e-10, ("scipy-nat", t, x)
        # periodic
        p = n - 1
        for k in range(n):
            row = periodic_cardinal_row(t, t[k])
            assert row == tuple(F(1) if i == k % p else F(0) for i in range(p))
            for d in (0, 1, 2):
                assert periodic_cardinal_row(t, t[k], d, -1) == periodic_cardinal_row(t, t[k], d, +1), ("periodic C2", t, k, d)
        for x in pts:
            assert sum(periodic_cardinal_row(t, x)) == 1
            assert periodic_cardinal_row(t, x) == periodic_cardinal_row(t, x + (t[-1] - t[0]))
        if p >= 2:
            tt = np.array([float(v) for v in t])
            for i in range(p):
                y = np.zeros(n)
                y[i] = 1
                if i == 0:
                    y[-1] = 1
                cs = CubicSpline(tt, y, bc_type="periodic")
                for x in pts:
                    if t[0] <= x <= t[-1]:
                        assert abs(float(periodic_cardinal_row(t, x)[i]) - float(cs(float(x)))) < 1e-10, ("scipy-per", t, x)
    assert quantiles7([0, 1, 2, 4], 1) == [F(3, 2)]
    assert quantiles7([0, 4], 3) == [F(1), F(2), F(3)]
    assert quantiles7([0, 0, 0, 4], 2) == [F(0), F(0)]
    assert quantiles7([1, 2, 4], 2) == [F(5, 3), F(8, 3)]
    assert math.isclose(float(quantiles7([0, 1, 3], 2)[0]), 2 / 3)
    return True
