"""Reference models for C19 (container laws).  Nothing in here imports formulaic.

Structured      -> nested tuple / MS (model struct = ordered dict of key -> node) with arbitrary leaves
LayeredMapping  -> MLM: a private dict on top of a list of layers (plain dicts or nested MLMs)
SimpleFormula   -> a python list of term descriptors that is re-sorted after every mutation
OrderedSet      -> a python list without duplicates (first appearance order)

The models are written from the docstrings of formulaic/utils/structured.py, utils/layered_mapping.py,
formula.py (SimpleFormula / OrderingMethod) and parser/types/ordered_set.py, plus the behaviour pinned by the
repository's own tests where the docstrings are silent (noted inline as PINNED).
"""


# ---------------------------------------------------------------------------------------------------------
# Structured
# ---------------------------------------------------------------------------------------------------------

class MS:
    """model of a Structured instance: ordered mapping key -> node ('root' is an ordinary key)"""

    __slots__ = ("items",)

    def __init__(self, items=()):
        self.items = dict(items)

    def __eq__(self, other):
        return isinstance(other, MS) and self.items == other.items  # dict equality: key order is irrelevant

    def __ne__(self, other):
        return not self.__eq__(other)

    __hash__ = None

    def __repr__(self):
        inner = ", ".join("%s=%r" % (k, v) for k, v in self.items.items())
        return "S(%s)" % inner

    @property
    def has_root(self):
        return "root" in self.items

    @property
    def has_keys(self):
        return set(self.items) != {"root"}

    @property
    def has_structure(self):
        return self.has_keys or (self.has_root and isinstance(self.items["root"], tuple))


def st_expr(node):
    """python source text that rebuilds the real object (for reproductions)"""
    if isinstance(node, MS):
        parts = []
        if "root" in node.items:
            parts.append(st_expr(node.items["root"]))
        parts += ["%s=%s" % (k, st_expr(v)) for k, v in node.items.items() if k != "root"]
        return "Structured(%s)" % ", ".join(parts)
    if isinstance(node, tuple):
        inner = ", ".join(st_expr(v) for v in node)
        return "(%s,)" % inner if len(node) == 1 else "(%s)" % inner
    return repr(node)


def st_canon(node):
    """hashable, key-order-insensitive canonical form"""
    if isinstance(node, MS):
        return ("S", tuple(sorted((k, st_canon(v)) for k, v in node.items.items())))
    if isinstance(node, tuple):
        return ("T", tuple(st_canon(v) for v in node))
    if isinstance(node, list):
        return ("L", tuple(node))
    return node


def st_leaves(node, path=(), deep_tuples=True):
    """[(path, leaf)] depth first.  Tuples contribute integer path elements, structs their keys."""
    if isinstance(node, MS):
        out = []
        for k, v in node.items.items():
            out += st_leaves(v, path + (k,))
        return out
    if isinstance(node, tuple):
        out = []
        for i, v in enumerate(node):
            out += st_leaves(v, path + (i,))
        return out
    return [(path, node)]


def st_has_nested_tuple(node, in_tuple=False):
    """a tuple that is a direct element of a tuple somewhere in the shape"""
    if isinstance(node, MS):
        return any(st_has_nested_tuple(v) for v in node.items.values())
    if isinstance(node, tuple):
        return in_tuple or any(st_has_nested_tuple(v, True) for v in node)
    return False


def st_map(node, f, path=()):
    """_map(recurse=True): identical skeleton, every leaf replaced by f(leaf, path)"""
    if isinstance(node, MS):
        return MS((k, st_map(v, f, path + (k,))) for k, v in node.items.items())
    if isinstance(node, tuple):
        return tuple(st_map(v, f, path + (i,)) for i, v in enumerate(node))
    return f(node, path)


def st_map_shallow(node, f):
    """_map(recurse=False) on a struct: tuples are descended, nested structs are handed to f whole"""
    def ap(v, path):
        if isinstance(v, tuple):
            return tuple(ap(x, path + (i,)) for i, x in enumerate(v))
        return f(v, path)
    return MS((k, ap(v, (k,))) for k, v in node.items.items())


def st_to_dict(node, recurse=True, top=True):
    if isinstance(node, MS):
        if not top and not recurse:
            return node
        return {k: st_to_dict(v, recurse, False) for k, v in node.items.items()}
    if isinstance(node, tuple):
        return tuple(st_to_dict(v, recurse, False) for v in node)
    return node


def st_simplify(node, recurse=True, unwrap=True):
    """Structured._simplify docstring: strip trivial root-only wrappers from the top (down to the raw root value when
    unwrap), then (recurse) apply the full simplification to every nested Structured."""
    s = node
    while (isinstance(s, MS) and s.has_root and not s.has_structure
           and (unwrap or isinstance(s.items["root"], MS))):
        s = s.items["root"]
    if not isinstance(s, MS):
        return s
    if not recurse:
        return s

    def obj(v):
        if isinstance(v, MS):
            return st_simplify(v, recurse=True, unwrap=True)
        if isinstance(v, tuple):
            return tuple(obj(x) for x in v)
        return v
    return MS((k, obj(v)) for k, v in s.items.items())


def st_update(node, changes):
    """_update: same keys, nominated ones replaced / added (a shallow dict merge)"""
    d = dict(node.items)
    d.update(changes)
    return MS(d)


class Misaligned(Exception):
    """tuple structure meets non-tuple structure: the implementation raises ValueError (PINNED by the tests);
    the docstring does not say what happens"""


def st_merge(nodes, merger, top=True):
    """Structured._merge docstring.  all leaves -> merger(*leaves); any Structured -> everything is upcast to a
    Structured (non-Structured values become its root) and the structure dictionaries are merged key-wise,
    recursively; tuples are concatenated (PINNED), wrapped in a Structured only at the top level."""
    if not nodes:
        return MS()
    tup = [isinstance(n, tuple) for n in nodes]
    if any(tup) and not all(tup):
        raise Misaligned()
    if all(tup):
        merged = tuple(x for n in nodes for x in n)
        return MS({"root": merged}) if top else merged
    if not any(isinstance(n, MS) for n in nodes):
        return merger(*nodes)
    groups = {}
    for n in nodes:
        if isinstance(n, MS):
            for k, v in n.items.items():
                groups.setdefault(k, []).append(v)
        else:
            groups.setdefault("root", []).append(n)
    return MS((k, st_merge(vs, merger, top=False) if len(vs) > 1 else vs[0]) for k, vs in groups.items())


def st_iter(node):
    """list(structured): the root's own items when there is nothing but a root, else root first, then the other
    values in assignment order"""
    if node.has_root and not node.has_keys:
        r = node.items["root"]
        if isinstance(r, tuple):
            return list(r)
        if isinstance(r, MS):
            return st_iter(r)
        if isinstance(r, list):
            return list(r)
        return [r]
    out = []
    if node.has_root:
        out.append(node.items["root"])
    out += [v for k, v in node.items.items() if k != "root"]
    return out


class NoPath(Exception):
    pass


def st_lookup(node, path):
    cur = node
    for p in path:
        if isinstance(cur, MS) and isinstance(p, str) and p in cur.items:
            cur = cur.items[p]
        elif isinstance(cur, tuple) and isinstance(p, int) and -len(cur) <= p < len(cur):
            cur = cur[p]
        else:
            raise NoPath(path)
    return cur


# ---------------------------------------------------------------------------------------------------------
# LayeredMapping
# ---------------------------------------------------------------------------------------------------------

_MISSING = object()


class MLM:
    """top-first merge of `layers` under a private dict that receives every write"""

    def __init__(self, layers=(), name=None):
        self.name = name
        self.priv = {}
        self.layers = [l for l in layers if l is not None]

    # -- lookups ------------------------------------------------------------------------------------
    def find(self, key, path=()):
        """(value, layer name) or None.  Name = ':'-joined names of the named mappings on the way down to the
        mapping that holds the key in its private dict or in one of its plain layers; None if there is none
        (docstring: 'the name of the closest parent is used, or None'; joined form PINNED by the tests)."""
        mypath = path + ((self.name,) if self.name else ())
        name = ":".join(mypath) or None
        if key in self.priv:
            return self.priv[key], name
        for layer in self.layers:
            if isinstance(layer, MLM):
                if layer.contains(key):
                    return layer.find(key, mypath)
            elif key in layer:
                return layer[key], name
        return None

    def contains(self, key):
        if key in self.priv:
            return True
        return any(l.contains(key) if isinstance(l, MLM) else key in l for l in self.layers)

    def keys(self):
        out = set(self.priv)
        for l in self.layers:
            out |= l.keys() if isinstance(l, MLM) else set(l)
        return out

    def merged(self):
        return {k: self.find(k)[0] for k in self.keys()}

    # -- mutations ----------------------------------------------------------------------------------
    def set(self, key, value):
        self.priv[key] = value

    def delete(self, key):
        """True = removed from the private dict; False = KeyError expected (nothing private to remove: the
        supplied layers must never be mutated; KeyError for lower-layer keys is PINNED by the tests)"""
        if key in self.priv:
            del self.priv[key]
            return True
        return False

    def with_layers(self, layers, prepend=True, inplace=False, name=None):
        layers = [l for l in layers if l is not None]
        if not layers:
            return self
        if inplace:
            self.layers = layers + self.layers if prepend else self.layers + layers
            self.name = name
            return self
        return MLM(layers + [self] if prepend else [self] + layers, name=name)

    # -- named layers -------------------------------------------------------------------------------
    def named_candidates(self):
        """name -> [MLM, ...] candidates in breadth-first order (self, then children in stack order, ...)"""
        out = {}
        frontier = [self]
        while frontier:
            nxt = []
            for m in frontier:
                if m.name:
                    out.setdefault(m.name, []).append(m)
                nxt += [l for l in m.layers if isinstance(l, MLM)]
            frontier = nxt
        return out

    def named_dfs_first(self):
        out = {}

        def walk(m):
            if m.name and m.name not in out:
                out[m.name] = m
            for l in m.layers:
                if isinstance(l, MLM):
                    walk(l)
        walk(self)
        return out

    def canon(self):
        return (self.name, tuple(sorted(self.priv.items())),
                tuple(l.canon() if isinstance(l, MLM) else ("d", tuple(sorted(l.items()))) for l in self.layers))


# ---------------------------------------------------------------------------------------------------------
# SimpleFormula: term descriptors are tuples of factor names in written order, "1" is the literal (degree 0)
# ---------------------------------------------------------------------------------------------------------

def t_degree(t):
    return sum(1 for f in t if f != "1")


def t_norm(t):
    return tuple(sorted(t))


def t_same(a, b):
    """Term equality is factor-set equality"""
    return t_norm(a) == t_norm(b)


def sf_reorder(terms, mode):
    if mode == "none":
        return list(terms)
    if mode == "degree":
        return sorted(terms, key=t_degree)  # python's sort is stable: ties keep their list order
    if mode == "sort":
        return sorted((t_norm(t) for t in terms), key=lambda t: (t_degree(t), t))
    raise ValueError(mode)


def sf_ordered(terms, mode):
    """the ordering invariant of the mode"""
    if mode == "degree":
        d = [t_degree(t) for t in terms]
        return all(x <= y for x, y in zip(d, d[1:]))
    if mode == "sort":
        k = [(t_degree(t), t) for t in terms]
        return all(t == t_norm(t) for t in terms) and all(x <= y for x, y in zip(k, k[1:]))
    return True


def t_str(t):
    return ":".join(t)


# ---------------------------------------------------------------------------------------------------------
# OrderedSet
# ---------------------------------------------------------------------------------------------------------

def os_make(seq):
    return list(dict.fromkeys(seq))


def os_union(a, b):
    return os_make(list(a) + list(b))


def os_diff(a, b):
    return [x for x in a if x not in b]


def os_inter_left(a, b):
    return [x for x in a if x in b]


def os_inter_right(a, b):
    return [x for x in b if x in a]


def os_symdiff(a, b):
    return os_union(os_diff(a, b), os_diff(b, a))
